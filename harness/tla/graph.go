package tla

import (
	"bufio"
	"fmt"
	"math/rand"
	"os"
	"sort"
	"strconv"
	"strings"
	"sync/atomic"
)

type (
	// Action is an interned edge label: action name and parameter values.
	Action struct {
		Label string
		Name  string
		Args  []Val
	}
	// Edge is one transition of the dumped state graph.
	Edge struct {
		Src, Dst *Node
		Act      *Action
		// Hit is set (atomically) by drivers when the edge was executed on the implementation.
		Hit uint32
	}
	// Node is one state of the dumped state graph.
	Node struct {
		ID    int64
		Idx   int // dense index in Graph.Nodes
		State Rec
		Out   []*Edge
		Init  bool
		// Depth and Via describe the BFS tree (shortest paths from an initial state).
		Depth int
		Via   *Edge
	}
	// Graph is a state graph dumped by `tlc -dump dot,actionlabels`.
	Graph struct {
		Nodes   []*Node
		ByID    map[int64]*Node
		Inits   []*Node
		Actions map[string]*Action
		NEdges  int
	}
)

func unescapeDot(s string) string {
	if !strings.Contains(s, "\\") {
		return s
	}
	var b strings.Builder
	b.Grow(len(s))
	for i := 0; i < len(s); i++ {
		if s[i] == '\\' && i+1 < len(s) {
			switch s[i+1] {
			case 'n':
				b.WriteByte('\n')
			case '"':
				b.WriteByte('"')
			case '\\':
				b.WriteByte('\\')
			default:
				b.WriteByte('\\')
				b.WriteByte(s[i+1])
			}
			i++
			continue
		}
		b.WriteByte(s[i])
	}
	return b.String()
}

// quoted returns the dot-quoted string starting at s[0]=='"' and the rest.
func quoted(s string) (string, string, bool) {
	if len(s) == 0 || s[0] != '"' {
		return "", s, false
	}
	for i := 1; i < len(s); i++ {
		if s[i] == '\\' {
			i++
			continue
		}
		if s[i] == '"' {
			return s[1:i], s[i+1:], true
		}
	}
	return "", s, false
}

// LoadDot loads a dot file written by `tlc -dump dot,actionlabels`.
func LoadDot(path string) (*Graph, error) {
	f, err := os.Open(path)
	if err != nil {
		return nil, err
	}
	defer f.Close()
	g := &Graph{ByID: map[int64]*Node{}, Actions: map[string]*Action{}}
	node := func(id int64) *Node {
		n := g.ByID[id]
		if n == nil {
			n = &Node{ID: id, Idx: len(g.Nodes), Depth: -1}
			g.ByID[id] = n
			g.Nodes = append(g.Nodes, n)
		}
		return n
	}
	sc := bufio.NewScanner(f)
	sc.Buffer(make([]byte, 1<<20), 1<<28)
	for sc.Scan() {
		line := sc.Text()
		if len(line) == 0 || !(line[0] == '-' || (line[0] >= '0' && line[0] <= '9')) {
			continue
		}
		sp := strings.IndexByte(line, ' ')
		if sp < 0 {
			continue
		}
		id, err := strconv.ParseInt(line[:sp], 10, 64)
		if err != nil {
			continue
		}
		rest := line[sp+1:]
		if strings.HasPrefix(rest, "-> ") {
			rest = rest[3:]
			sp2 := strings.IndexByte(rest, ' ')
			if sp2 < 0 {
				return nil, fmt.Errorf("bad edge line %q", trunc(line))
			}
			id2, err := strconv.ParseInt(rest[:sp2], 10, 64)
			if err != nil {
				return nil, fmt.Errorf("bad edge line %q", trunc(line))
			}
			rest = rest[sp2+1:]
			const pfx = "[label="
			if !strings.HasPrefix(rest, pfx) {
				return nil, fmt.Errorf("edge without label %q (dump with dot,actionlabels)", trunc(line))
			}
			lab, _, ok := quoted(rest[len(pfx):])
			if !ok {
				return nil, fmt.Errorf("bad edge label %q", trunc(line))
			}
			act := g.Actions[lab]
			if act == nil {
				name, args, err := ParseAction(unescapeDot(lab))
				if err != nil {
					return nil, err
				}
				act = &Action{Label: unescapeDot(lab), Name: name, Args: args}
				g.Actions[lab] = act
			}
			src, dst := node(id), node(id2)
			e := &Edge{Src: src, Dst: dst, Act: act}
			src.Out = append(src.Out, e)
			g.NEdges++
			continue
		}
		const pfx = "[label="
		if !strings.HasPrefix(rest, pfx) {
			continue
		}
		lab, tail, ok := quoted(rest[len(pfx):])
		if !ok {
			return nil, fmt.Errorf("bad node label %q", trunc(line))
		}
		n := node(id)
		if n.State == nil {
			st, err := ParseState(unescapeDot(lab))
			if err != nil {
				return nil, err
			}
			n.State = st
		}
		if strings.Contains(tail, "style = filled") {
			if !n.Init {
				n.Init = true
				g.Inits = append(g.Inits, n)
			}
		}
	}
	if err := sc.Err(); err != nil {
		return nil, err
	}
	for _, n := range g.Nodes {
		if n.State == nil {
			return nil, fmt.Errorf("node %d has no state label", n.ID)
		}
	}
	g.bfs()
	return g, nil
}

func (g *Graph) bfs() {
	var q []*Node
	for _, n := range g.Inits {
		n.Depth = 0
		q = append(q, n)
	}
	for len(q) > 0 {
		n := q[0]
		q = q[1:]
		for _, e := range n.Out {
			if e.Dst.Depth < 0 {
				e.Dst.Depth = n.Depth + 1
				e.Dst.Via = e
				q = append(q, e.Dst)
			}
		}
	}
}

// PathTo returns the BFS-tree path from an initial state to n.
func (g *Graph) PathTo(n *Node) []*Edge {
	var rev []*Edge
	for n.Via != nil {
		rev = append(rev, n.Via)
		n = n.Via.Src
	}
	for i, j := 0, len(rev)-1; i < j; i, j = i+1, j-1 {
		rev[i], rev[j] = rev[j], rev[i]
	}
	return rev
}

// MaxDepth returns the diameter of the BFS tree.
func (g *Graph) MaxDepth() int {
	d := 0
	for _, n := range g.Nodes {
		if n.Depth > d {
			d = n.Depth
		}
	}
	return d
}

// ActionCounts returns the number of edges per action name.
func (g *Graph) ActionCounts() map[string]int {
	m := map[string]int{}
	for _, n := range g.Nodes {
		for _, e := range n.Out {
			m[e.Act.Name]++
		}
	}
	return m
}

// Walk returns a random walk of at most depth edges from an initial state.
func (g *Graph) Walk(r *rand.Rand, depth int) []*Edge {
	n := g.Inits[r.Intn(len(g.Inits))]
	var p []*Edge
	for i := 0; i < depth && len(n.Out) > 0; i++ {
		e := n.Out[r.Intn(len(n.Out))]
		p = append(p, e)
		n = e.Dst
	}
	return p
}

// WalkBiased is Walk that prefers, with probability pChange, an edge leading to
// another state, so that walks get deep despite the many refused operations.
func (g *Graph) WalkBiased(r *rand.Rand, depth int, pChange float64) []*Edge {
	n := g.Inits[r.Intn(len(g.Inits))]
	var p []*Edge
	for i := 0; i < depth && len(n.Out) > 0; i++ {
		var e *Edge
		if r.Float64() < pChange {
			var ch []*Edge
			for _, x := range n.Out {
				if x.Dst != n {
					ch = append(ch, x)
				}
			}
			if len(ch) > 0 {
				e = ch[r.Intn(len(ch))]
			}
		}
		if e == nil {
			e = n.Out[r.Intn(len(n.Out))]
		}
		p = append(p, e)
		n = e.Dst
	}
	return p
}

// HitCount returns the number of edges marked as executed, in total and per action name.
func (g *Graph) HitCount() (int, map[string]int) {
	n := 0
	m := map[string]int{}
	for _, nd := range g.Nodes {
		for _, e := range nd.Out {
			if atomic.LoadUint32(&e.Hit) != 0 {
				n++
				m[e.Act.Name]++
			}
		}
	}
	return n, m
}

// MarkHit marks an edge as executed.
func (e *Edge) MarkHit() { atomic.StoreUint32(&e.Hit, 1) }

// SortedActionNames lists the action names of the graph.
func (g *Graph) SortedActionNames() []string {
	m := g.ActionCounts()
	var l []string
	for k := range m {
		l = append(l, k)
	}
	sort.Strings(l)
	return l
}

// Step is the JSON form of an edge in replay files.
type Step struct {
	Action string `json:"action"`
	// Post is the canonical string of the expected abstract post-state.
	Post string `json:"post,omitempty"`
}

// Steps converts a path into its JSON form.
func Steps(p []*Edge) []Step {
	s := make([]Step, len(p))
	for i, e := range p {
		s[i] = Step{Action: e.Act.Label, Post: String(e.Dst.State)}
	}
	return s
}

// Completion maps every node from which a goal node is reachable to the first edge of a shortest path to the
// nearest goal node (goal nodes themselves are not in the map).
type Completion map[*Node]*Edge

// CompletionTo computes shortest continuations to the nearest node satisfying goal (reverse breadth-first search).
func (g *Graph) CompletionTo(goal func(*Node) bool) Completion {
	in := make(map[*Node][]*Edge, len(g.Nodes))
	for _, n := range g.Nodes {
		for _, e := range n.Out {
			if e.Dst != n {
				in[e.Dst] = append(in[e.Dst], e)
			}
		}
	}
	next := Completion{}
	done := make(map[*Node]bool, len(g.Nodes))
	var q []*Node
	for _, n := range g.Nodes {
		if goal(n) {
			done[n] = true
			q = append(q, n)
		}
	}
	for len(q) > 0 {
		n := q[0]
		q = q[1:]
		for _, e := range in[n] {
			if !done[e.Src] {
				done[e.Src] = true
				next[e.Src] = e
				q = append(q, e.Src)
			}
		}
	}
	return next
}

// From returns the continuation from n to the nearest goal node (empty if n is a goal node or none is reachable).
func (c Completion) From(n *Node) []*Edge {
	var out []*Edge
	for e := c[n]; e != nil; e = c[n] {
		out = append(out, e)
		n = e.Dst
	}
	return out
}
