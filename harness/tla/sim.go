package tla

import (
	"bufio"
	"fmt"
	"os"
	"path/filepath"
	"sort"
	"strconv"
	"strings"
)

// SimStep is one step of a behaviour written by `tlc -simulate file=..`.
type SimStep struct {
	Act   *Action // nil for the initial state
	State Rec
}

// LoadSimFile parses one behaviour file written by TLC's simulation mode.
func LoadSimFile(path string) ([]SimStep, error) {
	f, err := os.Open(path)
	if err != nil {
		return nil, err
	}
	defer f.Close()
	var steps []SimStep
	var label string
	var body []string
	flush := func() error {
		if len(body) == 0 {
			return nil
		}
		st, err := ParseState(strings.Join(body, "\n"))
		if err != nil {
			return err
		}
		s := SimStep{State: st}
		if !strings.HasPrefix(label, "Init") && label != "" {
			name, args, err := ParseAction(label)
			if err != nil {
				return err
			}
			s.Act = &Action{Label: label, Name: name, Args: args}
		}
		steps = append(steps, s)
		body = nil
		return nil
	}
	sc := bufio.NewScanner(f)
	sc.Buffer(make([]byte, 1<<20), 1<<26)
	for sc.Scan() {
		ln := sc.Text()
		switch {
		case strings.HasPrefix(ln, "\\* <"):
			if err := flush(); err != nil {
				return nil, err
			}
			// \* <Name(args) line 83, col 3 to line 88, col 52 of module M>
			l := strings.TrimPrefix(ln, "\\* <")
			if i := strings.Index(l, " line "); i > 0 {
				l = l[:i]
			}
			label = strings.TrimSpace(l)
		case strings.HasPrefix(ln, "STATE_"), strings.HasPrefix(ln, "----"), strings.HasPrefix(ln, "===="), strings.TrimSpace(ln) == "":
		default:
			body = append(body, ln)
		}
	}
	if err := flush(); err != nil {
		return nil, err
	}
	if len(steps) == 0 {
		return nil, fmt.Errorf("no states in %s", path)
	}
	return steps, sc.Err()
}

// LoadSimDir loads all behaviour files of a directory.
func LoadSimDir(dir string) ([][]SimStep, error) {
	files, err := filepath.Glob(filepath.Join(dir, "*"))
	if err != nil {
		return nil, err
	}
	sort.Strings(files)
	// a sharded driver (VERIF_SHARD / VERIF_SHARDS) only parses its own behaviours; the others stay nil so that indices
	// are the same in every shard
	shard, shards := 0, 1
	if v, err := strconv.Atoi(os.Getenv("VERIF_SHARDS")); err == nil && v > 1 {
		shards = v
		shard, _ = strconv.Atoi(os.Getenv("VERIF_SHARD"))
	}
	var all [][]SimStep
	for i, f := range files {
		if i%shards != shard {
			all = append(all, nil)
			continue
		}
		s, err := LoadSimFile(f)
		if err != nil {
			return nil, fmt.Errorf("%s: %w", f, err)
		}
		all = append(all, s)
	}
	return all, nil
}
