// Package tla parses the TLA+ values that TLC prints (state dumps, action
// labels of `-dump dot,actionlabels`) into plain Go values and loads the dumped
// state graph. It is the bridge from TLC's output to the Go drivers (R2 of
// DESIGN.md).
package tla

import (
	"fmt"
	"sort"
	"strconv"
	"strings"
)

// Val is a parsed TLA+ value: int, string, bool, Rec, Fn, Seq, Set or Model.
type Val any

type (
	// Rec is a TLA+ record.
	Rec map[string]Val
	// Fn is a TLA+ function with a non-sequence domain (printed `(k :> v @@ ..)`).
	Fn struct {
		K []Val
		V []Val
	}
	// Seq is a TLA+ sequence / tuple.
	Seq []Val
	// Set is a TLA+ set.
	Set []Val
	// Model is a model value / identifier.
	Model string
)

// Get returns the value of f at key k (compared by canonical string).
func (f Fn) Get(k Val) (Val, bool) {
	ks := String(k)
	for i := range f.K {
		if String(f.K[i]) == ks {
			return f.V[i], true
		}
	}
	return nil, false
}

// At returns f[k] or panics.
func (f Fn) At(k Val) Val {
	v, ok := f.Get(k)
	if !ok {
		panic(fmt.Sprintf("tla: key %v not in function %v", String(k), String(f)))
	}
	return v
}

// Index applies a value (Fn, Seq with 1-based index, Rec) to a key.
func Index(v Val, k Val) Val {
	switch x := v.(type) {
	case Fn:
		return x.At(k)
	case Seq:
		i := k.(int)
		return x[i-1]
	case Rec:
		return x[k.(string)]
	}
	panic(fmt.Sprintf("tla: cannot index %T", v))
}

// AsFn views a Seq as a function 1..n, a Fn as itself.
func AsFn(v Val) Fn {
	switch x := v.(type) {
	case Fn:
		return x
	case Seq:
		f := Fn{}
		for i, e := range x {
			f.K = append(f.K, i+1)
			f.V = append(f.V, e)
		}
		return f
	}
	panic(fmt.Sprintf("tla: not a function: %T", v))
}

type parser struct {
	s string
	i int
}

// Parse parses one TLA+ value.
func Parse(s string) (v Val, err error) {
	defer func() {
		if r := recover(); r != nil {
			err = fmt.Errorf("tla parse error: %v in %q", r, trunc(s))
		}
	}()
	p := &parser{s: s}
	v = p.value()
	p.ws()
	if p.i != len(p.s) {
		panic(fmt.Sprintf("trailing input at %d", p.i))
	}
	return v, nil
}

// MustParse is Parse that panics.
func MustParse(s string) Val {
	v, err := Parse(s)
	if err != nil {
		panic(err)
	}
	return v
}

func trunc(s string) string {
	if len(s) > 200 {
		return s[:200] + "..."
	}
	return s
}

func (p *parser) ws() {
	for p.i < len(p.s) {
		switch p.s[p.i] {
		case ' ', '\n', '\t', '\r':
			p.i++
		default:
			return
		}
	}
}

func (p *parser) peek(tok string) bool {
	p.ws()
	return strings.HasPrefix(p.s[p.i:], tok)
}

func (p *parser) eat(tok string) bool {
	if p.peek(tok) {
		p.i += len(tok)
		return true
	}
	return false
}

func (p *parser) must(tok string) {
	if !p.eat(tok) {
		panic(fmt.Sprintf("expected %q at %d (%q)", tok, p.i, trunc(p.s[p.i:])))
	}
}

func isIdent(c byte) bool {
	return c == '_' || (c >= '0' && c <= '9') || (c >= 'a' && c <= 'z') || (c >= 'A' && c <= 'Z')
}

func (p *parser) ident() string {
	p.ws()
	st := p.i
	for p.i < len(p.s) && isIdent(p.s[p.i]) {
		p.i++
	}
	if st == p.i {
		panic(fmt.Sprintf("identifier expected at %d (%q)", p.i, trunc(p.s[p.i:])))
	}
	return p.s[st:p.i]
}

func (p *parser) value() Val {
	p.ws()
	if p.i >= len(p.s) {
		panic("unexpected end")
	}
	c := p.s[p.i]
	switch {
	case c == '"':
		p.i++
		var b strings.Builder
		for {
			if p.i >= len(p.s) {
				panic("unterminated string")
			}
			ch := p.s[p.i]
			if ch == '\\' && p.i+1 < len(p.s) {
				nx := p.s[p.i+1]
				switch nx {
				case 'n':
					b.WriteByte('\n')
				case 't':
					b.WriteByte('\t')
				default:
					b.WriteByte(nx)
				}
				p.i += 2
				continue
			}
			if ch == '"' {
				p.i++
				break
			}
			b.WriteByte(ch)
			p.i++
		}
		return b.String()
	case c == '<' && p.peek("<<"):
		p.must("<<")
		var seq Seq = Seq{}
		if p.eat(">>") {
			return seq
		}
		for {
			seq = append(seq, p.value())
			if p.eat(">>") {
				return seq
			}
			p.must(",")
		}
	case c == '{':
		p.must("{")
		var set Set = Set{}
		if p.eat("}") {
			return set
		}
		for {
			set = append(set, p.value())
			if p.eat("}") {
				return set
			}
			p.must(",")
		}
	case c == '[':
		p.must("[")
		rec := Rec{}
		for {
			name := p.ident()
			p.must("|->")
			rec[name] = p.value()
			if p.eat("]") {
				return rec
			}
			p.must(",")
		}
	case c == '(':
		p.must("(")
		f := Fn{}
		for {
			k := p.value()
			p.must(":>")
			v := p.value()
			f.K = append(f.K, k)
			f.V = append(f.V, v)
			if p.eat(")") {
				return f
			}
			p.must("@@")
		}
	case c == '-' || (c >= '0' && c <= '9'):
		st := p.i
		p.i++
		for p.i < len(p.s) && p.s[p.i] >= '0' && p.s[p.i] <= '9' {
			p.i++
		}
		n, err := strconv.Atoi(p.s[st:p.i])
		if err != nil {
			panic(err)
		}
		return n
	default:
		id := p.ident()
		switch id {
		case "TRUE":
			return true
		case "FALSE":
			return false
		}
		return Model(id)
	}
}

// ParseState parses a TLC state print-out `/\ x = v /\ y = w` (or a single
// `x = v`) into a record of variables.
func ParseState(s string) (Rec, error) {
	// Split at top-level "/\ name =" occurrences. Variables are printed one per
	// conjunct starting at the beginning of a line.
	rec := Rec{}
	s = strings.TrimSpace(s)
	var parts []string
	if strings.HasPrefix(s, "/\\") {
		lines := strings.Split(s, "\n")
		cur := ""
		for _, ln := range lines {
			if strings.HasPrefix(ln, "/\\ ") {
				if cur != "" {
					parts = append(parts, cur)
				}
				cur = ln[3:]
			} else {
				cur += "\n" + ln
			}
		}
		if cur != "" {
			parts = append(parts, cur)
		}
	} else {
		parts = []string{s}
	}
	for _, pt := range parts {
		eq := strings.Index(pt, "=")
		if eq < 0 {
			return nil, fmt.Errorf("tla: no '=' in conjunct %q", trunc(pt))
		}
		name := strings.TrimSpace(pt[:eq])
		v, err := Parse(pt[eq+1:])
		if err != nil {
			return nil, err
		}
		rec[name] = v
	}
	return rec, nil
}

// ParseAction parses an action label `Name(a,b,..)` or `Name`.
func ParseAction(s string) (name string, args []Val, err error) {
	defer func() {
		if r := recover(); r != nil {
			err = fmt.Errorf("tla action parse error: %v in %q", r, trunc(s))
		}
	}()
	s = strings.TrimSpace(s)
	op := strings.Index(s, "(")
	if op < 0 {
		return s, nil, nil
	}
	name = s[:op]
	p := &parser{s: s, i: op + 1}
	if p.eat(")") {
		return name, nil, nil
	}
	for {
		args = append(args, p.value())
		if p.eat(")") {
			break
		}
		p.must(",")
	}
	return name, args, nil
}

// String renders a value canonically (record fields and set elements sorted),
// so that two values are equal iff their strings are.
func String(v Val) string {
	var b strings.Builder
	write(&b, v)
	return b.String()
}

func write(b *strings.Builder, v Val) {
	switch x := v.(type) {
	case nil:
		b.WriteString("nil")
	case int:
		b.WriteString(strconv.Itoa(x))
	case bool:
		if x {
			b.WriteString("TRUE")
		} else {
			b.WriteString("FALSE")
		}
	case string:
		b.WriteString(strconv.Quote(x))
	case Model:
		b.WriteString(string(x))
	case Rec:
		keys := make([]string, 0, len(x))
		for k := range x {
			keys = append(keys, k)
		}
		sort.Strings(keys)
		b.WriteByte('[')
		for i, k := range keys {
			if i > 0 {
				b.WriteString(", ")
			}
			b.WriteString(k)
			b.WriteString(" |-> ")
			write(b, x[k])
		}
		b.WriteByte(']')
	case Seq:
		b.WriteString("<<")
		for i, e := range x {
			if i > 0 {
				b.WriteString(", ")
			}
			write(b, e)
		}
		b.WriteString(">>")
	case Set:
		strs := make([]string, len(x))
		for i, e := range x {
			strs[i] = String(e)
		}
		sort.Strings(strs)
		b.WriteByte('{')
		b.WriteString(strings.Join(strs, ", "))
		b.WriteByte('}')
	case Fn:
		type kv struct{ k, v string }
		kvs := make([]kv, len(x.K))
		for i := range x.K {
			kvs[i] = kv{String(x.K[i]), String(x.V[i])}
		}
		sort.Slice(kvs, func(i, j int) bool { return kvs[i].k < kvs[j].k })
		b.WriteByte('(')
		for i, e := range kvs {
			if i > 0 {
				b.WriteString(" @@ ")
			}
			b.WriteString(e.k)
			b.WriteString(" :> ")
			b.WriteString(e.v)
		}
		b.WriteByte(')')
	default:
		fmt.Fprintf(b, "?%T", v)
	}
}

// ToJSON converts a value into something encoding/json can marshal.
func ToJSON(v Val) any {
	switch x := v.(type) {
	case Rec:
		m := map[string]any{}
		for k, e := range x {
			m[k] = ToJSON(e)
		}
		return m
	case Seq:
		l := make([]any, len(x))
		for i, e := range x {
			l[i] = ToJSON(e)
		}
		return l
	case Set:
		l := make([]any, len(x))
		for i, e := range x {
			l[i] = ToJSON(e)
		}
		return map[string]any{"#set": l}
	case Fn:
		m := map[string]any{}
		for i := range x.K {
			m[String(x.K[i])] = ToJSON(x.V[i])
		}
		return map[string]any{"#fn": m}
	case Model:
		return string(x)
	default:
		return x
	}
}
