package wiredrv

import (
	"bufio"
	"bytes"
	"encoding/base64"
	"encoding/binary"
	"encoding/json"
	"fmt"
	"io"
	"math/rand"
	"os"
	"os/exec"
	"runtime/metrics"
	"sort"
	"strings"
	"sync"
	"syscall"
	"testing"
	"time"

	"google.golang.org/protobuf/proto"
	"google.golang.org/protobuf/reflect/protoreflect"
	"perun.network/go-perun/wire"
	"perun.network/go-perun/wire/protobuf"
	"verif/harness/drv"
)

type mutant struct {
	At   int    `json:"at"`
	Op   string `json:"op"`
	Tok  tok    `json:"tok"`
	Exp  string `json:"exp"`
	Over bool   `json:"over"`
	Why  string `json:"why"`
}

type mutCase struct {
	Ty    string   `json:"ty"`
	Toks  []tok    `json:"toks"`
	Base  string   `json:"base"`
	Why   string   `json:"why"`
	Bytes int      `json:"bytes"`
	Muts  []mutant `json:"muts"`
	line  string
}

// a decoding job for a child process
type job struct {
	ID  int    `json:"id"`
	Dec string `json:"dec"` // value type of codecs, or "Proto" for the protobuf envelope decoder
	B   string `json:"b"`   // base64 input
}

type jobRes struct {
	ID     int    `json:"id"`
	Out    string `json:"out"` // value | error | panic
	Detail string `json:"detail"`
	Re     string `json:"re,omitempty"`  // "panic: ..." if re-encoding the decoded value panics (information only)
	MemMB  int    `json:"mem,omitempty"` // memory obtained from the OS after the job, if large
	Bye    bool   `json:"bye,omitempty"` // the child exits after this job (memory is not returned to the OS)
}

type jobMeta struct {
	key   string // jobs with the same key are the same mutation at the same kind of place
	dec   string
	data  []byte
	exp   string
	over  bool
	class string // mutation class for signatures
	desc  string
	line  string
}

func applyMutant(w *world, toks []tok, m mutant) []byte {
	switch m.Op {
	case "set":
		t2 := append([]tok(nil), toks...)
		t2[m.At-1] = m.Tok
		b, _ := w.stream(t2)
		return b
	case "cut":
		b, bounds := w.stream(toks)
		if m.Tok.S == "after" {
			return b[:bounds[m.At]]
		}
		lo, hi := bounds[m.At-1], bounds[m.At]
		return b[:lo+(hi-lo)/2]
	case "grow":
		c := int(toks[m.At-1].N)
		g := m.Tok.L
		var t2 []tok
		t2 = append(t2, toks[:m.At-1]...)
		cnt := toks[m.At-1]
		cnt.N = m.Tok.N
		t2 = append(t2, cnt)
		for i := 0; i < int(m.Tok.N); i++ {
			t2 = append(t2, toks[m.At:m.At+g]...)
		}
		t2 = append(t2, toks[m.At+c*g:]...)
		b, _ := w.stream(t2)
		return b
	}
	panic("wiredrv: unknown mutant op " + m.Op)
}

func frame(body []byte) []byte {
	return append(binary.BigEndian.AppendUint16(nil, uint16(len(body))), body...)
}

// ---- protobuf mutants by reflection over the generated structs ----------------

var limitedLists = map[string]bool{"assets": true, "backends": true, "balances": true, "balance": true, "locked": true, "parts": true, "peers": true}

// walkApply visits the mutation points of m in a fixed order; the target-th
// one is applied. Returns (description, over-limit) of the applied mutation.
func walkApply(m protoreflect.Message, path string, target int, counter *int) (string, bool) {
	hit := func() bool { *counter++; return *counter-1 == target }
	fields := m.Descriptor().Fields()
	for i := 0; i < fields.Len(); i++ {
		fd := fields.Get(i)
		name := string(fd.Name())
		p := path + "." + name
		if fd.IsMap() {
			continue
		}
		if fd.IsList() {
			if !m.Has(fd) {
				continue
			}
			l := m.Mutable(fd).List()
			n := l.Len()
			cloneElem := func(k int) protoreflect.Value {
				v := l.Get(k)
				switch fd.Kind() {
				case protoreflect.MessageKind:
					return protoreflect.ValueOfMessage(proto.Clone(v.Message().Interface()).ProtoReflect())
				case protoreflect.BytesKind:
					return protoreflect.ValueOfBytes(append([]byte(nil), v.Bytes()...))
				}
				return v
			}
			if hit() {
				l.Truncate(n - 1)
				return name + ":drop-last", false
			}
			if hit() {
				l.Append(cloneElem(n - 1))
				return name + ":dup-last", false
			}
			if hit() {
				m.Clear(fd)
				return name + ":clear", false
			}
			if limitedLists[name] {
				if hit() {
					for l.Len() < 1025 {
						l.Append(cloneElem(n - 1))
					}
					return name + ":grow-1025", name != "backends" && name != "peers"
				}
			}
			switch fd.Kind() {
			case protoreflect.MessageKind:
				for k := 0; k < n && k < 2; k++ {
					if d, o := walkApply(l.Get(k).Message(), p, target, counter); d != "" {
						return d, o
					}
				}
			case protoreflect.BytesKind:
				b := l.Get(0).Bytes()
				for _, mu := range bytesMuts(name, b) {
					if hit() {
						l.Set(0, protoreflect.ValueOfBytes(mu.b))
						return name + ":elem-" + mu.name, mu.over
					}
				}
			case protoreflect.Uint32Kind:
				if hit() {
					l.Set(0, protoreflect.ValueOfUint32(70000))
					return name + ":elem-70000", false
				}
			}
			continue
		}
		if !m.Has(fd) {
			continue
		}
		switch fd.Kind() {
		case protoreflect.MessageKind:
			if hit() {
				m.Clear(fd)
				return name + ":missing", false
			}
			if d, o := walkApply(m.Mutable(fd).Message(), p, target, counter); d != "" {
				return d, o
			}
		case protoreflect.BytesKind:
			for _, mu := range bytesMuts(name, m.Get(fd).Bytes()) {
				if hit() {
					m.Set(fd, protoreflect.ValueOfBytes(mu.b))
					return name + ":" + mu.name, mu.over
				}
			}
		case protoreflect.Uint32Kind:
			if hit() {
				m.Set(fd, protoreflect.ValueOfUint32(70000))
				return name + ":70000", false
			}
			if hit() {
				m.Set(fd, protoreflect.ValueOfUint32(0xFFFFFFFF))
				return name + ":max", false
			}
		case protoreflect.Uint64Kind:
			if hit() {
				m.Set(fd, protoreflect.ValueOfUint64(0))
				return name + ":zero", false
			}
		}
	}
	return "", false
}

type bmut struct {
	name string
	b    []byte
	over bool
}

func bytesMuts(field string, b []byte) []bmut {
	var out []bmut
	if len(b) > 0 {
		out = append(out, bmut{"truncated", append([]byte(nil), b[:len(b)-1]...), false}, bmut{"empty", []byte{}, false})
	}
	out = append(out, bmut{"extended", append(append([]byte(nil), b...), 0xAB), false})
	if len(b) == 4 {
		out = append(out, bmut{"unknown-id", []byte{0, 0, 0, 7}, false}, bmut{"negative-id", []byte{0xff, 0xff, 0xff, 0xff}, false})
	}
	if field == "balance" || field == "nonce" {
		z := make([]byte, 129)
		z[128] = 0x2a
		out = append(out, bmut{"129-zero-padded", z, field == "balance"}, bmut{"200xff", bytes.Repeat([]byte{0xff}, 200), field == "balance"})
		// lengths around the multiples of 256: a length kept in one byte wraps there
		for _, n := range []int{255, 256, 257, 288, 512, 544} {
			out = append(out, bmut{fmt.Sprintf("%dxff", n), bytes.Repeat([]byte{0xff}, n), field == "balance"})
		}
	}
	return out
}

// ---- the child: decodes jobs under recover with an address-space limit ---------

const childAS = 4 << 30

func TestWireChild(t *testing.T) {
	if os.Getenv("VERIF_WIRE_CHILD") != "1" {
		t.Skip("child mode only")
	}
	lim := &syscall.Rlimit{Cur: childAS, Max: childAS}
	if err := syscall.Setrlimit(syscall.RLIMIT_AS, lim); err != nil {
		fmt.Fprintln(os.Stderr, "setrlimit:", err)
	}
	registerApps()
	in := bufio.NewReaderSize(os.Stdin, 1<<20)
	out := os.Stdout
	for {
		ln, err := in.ReadBytes('\n')
		if len(ln) > 1 {
			var j job
			if e := json.Unmarshal(ln, &j); e != nil {
				fmt.Fprintln(os.Stderr, "bad job:", e)
				os.Exit(3)
			}
			data, _ := base64.StdEncoding.DecodeString(j.B)
			r := runJob(j.Dec, data)
			r.ID = j.ID
			metrics.Read(memSample)
			if mb := int(memSample[0].Value.Uint64() >> 20); mb > 512 {
				r.MemMB, r.Bye = mb, true
			}
			b, _ := json.Marshal(r)
			out.Write(append(append([]byte("JOB "), b...), '\n'))
			if r.Bye {
				return
			}
		}
		if err != nil {
			return
		}
	}
}

var memSample = []metrics.Sample{{Name: "/memory/classes/total:bytes"}}

func runJob(dec string, data []byte) jobRes {
	if dec == "Proto" {
		var env *wire.Envelope
		err, pan := guard(func() error { var e error; env, e = protoSer.Decode(bytes.NewBuffer(data)); return e })
		switch {
		case pan != "":
			return jobRes{Out: "panic", Detail: pan}
		case err != nil:
			return jobRes{Out: "error", Detail: short(err.Error(), 200)}
		}
		r := jobRes{Out: "value"}
		if _, pan := guard(func() error { return nativeSer.Encode(io.Discard, env) }); pan != "" {
			r.Re = "panic: " + pan
		}
		return r
	}
	c := mustCodec(dec)
	v, _, err, pan := c.decBytes(data)
	switch {
	case pan != "":
		return jobRes{Out: "panic", Detail: pan}
	case err != nil:
		return jobRes{Out: "error", Detail: short(err.Error(), 200)}
	}
	r := jobRes{Out: "value"}
	if _, pan := guard(func() error { return c.encode(v, io.Discard) }); pan != "" {
		r.Re = "panic: " + pan
	}
	return r
}

type child struct {
	cmd    *exec.Cmd
	stdin  io.WriteCloser
	lines  chan string
	stderr *tailBuf
}

type tailBuf struct {
	mu sync.Mutex
	b  []byte
}

func (t *tailBuf) Write(p []byte) (int, error) {
	t.mu.Lock()
	if len(t.b) < 24576 { // the head is what matters: "fatal error: ..." comes first
		t.b = append(t.b, p...)
	}
	t.mu.Unlock()
	return len(p), nil
}

func (t *tailBuf) String() string { t.mu.Lock(); defer t.mu.Unlock(); return string(t.b) }

func startChild() (*child, error) {
	cmd := exec.Command(os.Args[0], "-test.run", "^TestWireChild$")
	cmd.Env = append(os.Environ(), "VERIF_WIRE_CHILD=1", "GOMAXPROCS=2", "GOTRACEBACK=all")
	in, err := cmd.StdinPipe()
	if err != nil {
		return nil, err
	}
	outp, err := cmd.StdoutPipe()
	if err != nil {
		return nil, err
	}
	c := &child{cmd: cmd, stdin: in, lines: make(chan string, 16), stderr: &tailBuf{}}
	cmd.Stderr = c.stderr
	if err := cmd.Start(); err != nil {
		return nil, err
	}
	go func() {
		sc := bufio.NewScanner(outp)
		sc.Buffer(make([]byte, 1<<16), 1<<24)
		for sc.Scan() {
			if ln := sc.Text(); strings.HasPrefix(ln, "JOB ") {
				c.lines <- ln[4:]
			}
		}
		close(c.lines)
	}()
	return c, nil
}

func (c *child) stop() {
	c.stdin.Close()
	done := make(chan struct{})
	go func() { c.cmd.Wait(); close(done) }()
	select {
	case <-done:
	case <-time.After(5 * time.Second):
		c.cmd.Process.Kill()
		<-done
	}
}

// runJobs executes all jobs on a pool of children; a child that dies or hangs
// is charged to the job in flight and replaced.
func runJobs(metas []*jobMeta, workers int, res *drv.Result) []jobRes {
	out := make([]jobRes, len(metas))
	var fmu sync.Mutex
	fatals := map[string]int{}
	next := make(chan int, len(metas))
	for i := range metas {
		next <- i
	}
	close(next)
	var wg sync.WaitGroup
	for k := 0; k < workers; k++ {
		wg.Add(1)
		go func() {
			defer wg.Done()
			var c *child
			defer func() {
				if c != nil {
					c.stop()
				}
			}()
			for i := range next {
				if k := metas[i].key; k != "" {
					fmu.Lock()
					n := fatals[k]
					fmu.Unlock()
					lim := 2
					if strings.HasPrefix(k, "random|") {
						lim = 24
					}
					if n >= lim {
						// killing a child costs > 1 s: the same mutation of the same kind of token already did it twice
						out[i] = jobRes{ID: i, Out: "skipped", Detail: "the same mutation class already killed the decoder process repeatedly"}
						res.Add("skipped_after_fatal", 1)
						continue
					}
				}
				if c == nil {
					var err error
					if c, err = startChild(); err != nil {
						out[i] = jobRes{ID: i, Out: "inconclusive", Detail: err.Error()}
						c = nil
						continue
					}
					res.Add("child_processes", 1)
				}
				t0 := time.Now()
				b, _ := json.Marshal(job{ID: i, Dec: metas[i].dec, B: base64.StdEncoding.EncodeToString(metas[i].data)})
				if _, err := c.stdin.Write(append(b, '\n')); err != nil {
					out[i] = jobRes{ID: i, Out: "fatal", Detail: "child gone before the job: " + c.stderr.String()}
					c.stop()
					c = nil
					continue
				}
				select {
				case ln, ok := <-c.lines:
					if !ok {
						c.cmd.Wait()
						out[i] = jobRes{ID: i, Out: "fatal", Detail: c.stderr.String()}
						res.Add("n_fatal", 1)
						fmu.Lock()
						fatals[metas[i].key]++
						fmu.Unlock()
						c = nil
						continue
					}
					var r jobRes
					if err := json.Unmarshal([]byte(ln), &r); err != nil || r.ID != i {
						out[i] = jobRes{ID: i, Out: "inconclusive", Detail: "protocol error: " + short(ln, 100)}
						c.cmd.Process.Kill()
						c.stop()
						c = nil
						continue
					}
					out[i] = r
					_ = t0
					if r.Bye {
						c.stop()
						c = nil
						if r.MemMB > 1536 {
							fmu.Lock()
							fatals[metas[i].key]++
							fmu.Unlock()
						}
					}
				case <-time.After(30 * time.Second):
					c.cmd.Process.Kill()
					c.stop()
					out[i] = jobRes{ID: i, Out: "hang", Detail: "no answer within 30 s"}
					c = nil
				}
			}
		}()
	}
	wg.Wait()
	return out
}

// TestWireMut: C13.
func TestWireMut(t *testing.T) {
	path := casesPath(t)
	res := drv.NewResult("wire-mut")
	defer func() {
		if err := res.Write(); err != nil {
			t.Fatal(err)
		}
	}()
	w := newWorld(drv.Seed())
	registerApps()
	var cases []*mutCase
	if err := readLines(path, func(js string) error {
		c := &mutCase{line: js}
		if err := json.Unmarshal([]byte(js), c); err != nil {
			return fmt.Errorf("json %s: %w", short(js, 80), err)
		}
		cases = append(cases, c)
		return nil
	}); err != nil {
		t.Fatal(err)
	}
	res.Add("cases", len(cases))
	thorough := drv.Thorough()
	nRandom := 3
	protoEvery := 2
	protoTypeSeen, envTypeSeen := map[int]bool{}, map[int]bool{}
	if thorough {
		nRandom, protoEvery = 40, 1
	}
	if os.Getenv("VERIF_REPLAY") != "" {
		protoEvery = 1
	}
	rng := rand.New(rand.NewSource(drv.Seed()*7907 + 3))
	var metas []*jobMeta
	add := func(m *jobMeta) { metas = append(metas, m) }
	nEnv := 0
	envIdx := 0
	for _, c := range cases {
		if c.Ty == "Envelope" && c.Base == "value" {
			envIdx++
			mt := -1
			for _, t := range c.Toks {
				if t.R == "type" {
					mt = int(t.N)
				}
			}
			// (the first envelope of every message type is always taken)
			if !thorough && os.Getenv("VERIF_REPLAY") == "" && envIdx%3 != 0 && envTypeSeen[mt] {
				res.Add("envelope_cases_left_to_thorough", 1)
				continue
			}
			envTypeSeen[mt] = true
		}
		base, _ := w.stream(c.Toks)
		add(&jobMeta{dec: c.Ty, data: base, exp: c.Base, class: "base:" + c.Why, desc: fmt.Sprintf("unmutated stream (%s)", c.Why), line: c.line})
		res.Add("structured", 1+len(c.Muts))
		for _, m := range c.Muts {
			data := applyMutant(w, c.Toks, m)
			role := ""
			if m.At >= 1 && m.At <= len(c.Toks) {
				role = c.Toks[m.At-1].K + "/" + c.Toks[m.At-1].R
			}
			desc := fmt.Sprintf("%s of token %d (%s) of %d: %s -> k=%s n=%d s=%q l=%d", m.Op, m.At, role, len(c.Toks), m.Why, m.Tok.K, m.Tok.N, m.Tok.S, m.Tok.L)
			class := m.Why
			if m.Op == "set" && (m.Why == "count" || m.Why == "length") {
				switch {
				case m.Tok.N < 0:
					class += "<0"
				case m.Tok.N > 65535:
					class += ">65535"
				case m.Tok.N > 1024:
					class += ">1024"
				}
			}
			if m.Op == "grow" {
				class += "/" + c.Toks[m.At-1].R
				for _, t := range c.Toks {
					if t.R == "type" {
						class += fmt.Sprintf("/type%d", t.N)
					}
				}
			}
			key := fmt.Sprintf("%s|%s|%s|%s|%d", c.Ty, m.Op, role, m.Tok.K, m.Tok.N)
			add(&jobMeta{key: key, dec: c.Ty, data: data, exp: m.Exp, over: m.Over, class: class, desc: desc, line: c.line})
			if c.Ty == "Envelope" && m.Op != "grow" && len(metas)%6 == 0 {
				add(&jobMeta{dec: "Proto", data: data, exp: "any", class: "native-bytes", desc: "native stream fed to the protobuf decoder: " + desc, line: c.line})
			}
		}
		if c.Base != "value" {
			continue
		}
		// seeded random mutants of the valid encoding (sampled)
		for k := 0; k < nRandom; k++ {
			data, what := randomMutant(rng, base)
			res.Add("random", 1)
			add(&jobMeta{key: "random|" + c.Ty, dec: c.Ty, data: data, exp: "any", class: "random", desc: "random mutant: " + what, line: c.line})
		}
		if c.Ty != "Envelope" {
			continue
		}
		nEnv++
		mtype := -1
		for _, t := range c.Toks {
			if t.R == "type" {
				mtype = int(t.N)
			}
		}
		if nEnv%protoEvery != 0 && protoTypeSeen[mtype] { // (the first envelope of every message type is always taken)
			continue
		}
		protoTypeSeen[mtype] = true
		// protobuf: structured mutants of the generated structs
		var env *wire.Envelope
		if err, pan := guard(func() error { var e error; env, e = nativeSer.Decode(bytes.NewBuffer(base)); return e }); err != nil || pan != "" {
			continue
		}
		var pb bytes.Buffer
		if err, pan := guard(func() error { return protoSer.Encode(&pb, env) }); err != nil || pan != "" {
			continue
		}
		var penv protobuf.Envelope
		if err := proto.Unmarshal(pb.Bytes()[2:], &penv); err != nil {
			continue
		}
		add(&jobMeta{dec: "Proto", data: pb.Bytes(), exp: "value", class: "proto:base", desc: "unmutated protobuf envelope", line: c.line})
		for target := 0; ; target++ {
			cl := proto.Clone(&penv).(*protobuf.Envelope)
			n := 0
			d, over := walkApply(cl.ProtoReflect(), "", target, &n)
			if d == "" {
				break
			}
			body, err := proto.Marshal(cl)
			if err != nil || len(body) > 65535 {
				continue
			}
			res.Add("protobuf_structured", 1)
			exp := "any"
			if over {
				exp = "error"
			}
			add(&jobMeta{dec: "Proto", data: frame(body), exp: exp, over: over, class: "proto:" + d, desc: "protobuf struct mutant " + d + " (mutation point " + fmt.Sprint(target) + ")", line: c.line})
		}
		for k := 0; k < nRandom; k++ {
			body, what := randomMutant(rng, pb.Bytes()[2:])
			if len(body) > 65535 {
				continue
			}
			res.Add("random", 1)
			add(&jobMeta{key: "random|Proto", dec: "Proto", data: frame(body), exp: "any", class: "random", desc: "random mutant of the protobuf body: " + what, line: c.line})
		}
	}
	res.Add("streams", len(metas))
	outs := runJobs(metas, drv.EnvInt("VERIF_WORKERS", 12), res)
	site := func(dec string) string {
		if dec == "Proto" {
			return "protobuf.Decode"
		}
		return codecs[dec].site
	}
	inconclusive := 0
	type agg struct {
		first   *jobMeta
		detail  string
		classes map[string]int
		n       int
	}
	aggs := map[string]*agg{}
	driftKeys := map[string]int{}
	note := func(sig string, m *jobMeta, detail string) {
		a := aggs[sig]
		if a == nil {
			a = &agg{first: m, detail: detail, classes: map[string]int{}}
			aggs[sig] = a
		}
		a.classes[m.class]++
		a.n++
	}
	for i, m := range metas {
		r := outs[i]
		res.Seen("case", m.dec+"|"+m.class+"|"+r.Out)
		switch r.Out {
		case "panic":
			note("panic|"+panicSite(r.Detail), m, fmt.Sprintf("%s panicked: %s", site(m.dec), r.Detail))
		case "fatal":
			kind := "fatal"
			if strings.Contains(r.Detail, "out of memory") || strings.Contains(r.Detail, "cannot allocate") {
				kind = "alloc"
			}
			fr := topFrame(r.Detail)
			if fr == "?" {
				fr = site(m.dec)
			}
			note(kind+"|"+fr, m, fmt.Sprintf("%s killed the process (address-space limit %d MiB; a length declared in the input is allocated before it is checked against the input): %s", site(m.dec), childAS>>20, lastLines(r.Detail, 3)))
		case "hang":
			note("hang|"+site(m.dec), m, fmt.Sprintf("%s did not terminate within 30 s", site(m.dec)))
		case "inconclusive":
			inconclusive++
			res.Note("inconclusive job: %s", r.Detail)
		case "value", "error":
			if r.MemMB > 1536 {
				note("alloc|"+site(m.dec), m, fmt.Sprintf("%s obtained %d MiB from the operating system for an input of %d bytes (a length declared in the input is allocated before it is checked against the input)", site(m.dec), r.MemMB, len(m.data)))
			}
			if r.Out == "value" {
				if m.over {
					note("overlimit-accepted|"+site(m.dec)+"|"+m.class, m, fmt.Sprintf("%s accepted an encoding that declares more than a documented limit", site(m.dec)))
				} else if m.exp == "error" {
					res.Add("drift_expected_error_got_value", 1)
					res.Seen("drift", m.dec+"|"+m.class)
					driftKeys["expected error, decoded a value: "+m.dec+"|"+m.class]++
				}
				if r.Re != "" {
					res.Add("decoded_value_unusable", 1)
					res.Seen("unusable", m.dec+"|"+m.class+"|"+panicSite(r.Re))
				}
			} else if m.exp == "value" {
				res.Add("drift_expected_value_got_error", 1)
				res.Seen("drift", m.dec+"|"+m.class+"|refused")
				driftKeys["expected a value, refused: "+m.dec+"|"+m.class]++
				if driftKeys["expected a value, refused: "+m.dec+"|"+m.class] == 1 {
					res.Note("first refusal %s|%s: %s", m.dec, m.class, r.Detail)
				}
			}
		}
	}
	for k, n := range driftKeys {
		res.Note("conformance drift (no verdict): %s x%d", k, n)
	}
	var sigs []string
	for s := range aggs {
		sigs = append(sigs, s)
	}
	sort.Strings(sigs)
	for _, sg := range sigs {
		a := aggs[sg]
		var cl []string
		for c, n := range a.classes {
			cl = append(cl, fmt.Sprintf("%s x%d", c, n))
		}
		sort.Strings(cl)
		m := a.first
		res.Violate("C13", "monitor", sg, fmt.Sprintf("%s; first input: %s; %d bytes %x; %d inputs of mutation classes %v", a.detail, m.desc, len(m.data), m.data[:min(len(m.data), 96)], a.n, cl), replayOf("TestWireMut", m.line))
	}
	if inconclusive > len(metas)/100+1 {
		t.Fatalf("%d inconclusive jobs", inconclusive)
	}
	for i := 0; i < len(metas) && i < 3; i++ {
		m := metas[(i*7919+11)%len(metas)]
		res.Sample(map[string]any{"decoder": m.dec, "mutant": m.desc, "expected": m.exp, "outcome": outs[(i*7919+11)%len(metas)].Out})
	}
}

func lastLines(s string, n int) string {
	ls := strings.Split(strings.TrimSpace(s), "\n")
	// the fatal error line comes first in a Go crash dump
	for _, l := range ls {
		if strings.HasPrefix(l, "fatal error:") || strings.HasPrefix(l, "runtime:") {
			return l
		}
	}
	if len(ls) > n {
		ls = ls[len(ls)-n:]
	}
	return strings.Join(ls, " / ")
}

// randomMutant flips bits / splices random bytes into a valid encoding.
func randomMutant(rng *rand.Rand, b []byte) ([]byte, string) {
	out := append([]byte(nil), b...)
	if len(out) == 0 {
		return []byte{byte(rng.Intn(256))}, "one random byte"
	}
	switch rng.Intn(5) {
	case 0:
		n := 1 + rng.Intn(3)
		for i := 0; i < n; i++ {
			out[rng.Intn(len(out))] ^= 1 << rng.Intn(8)
		}
		return out, fmt.Sprintf("%d bit flips", n)
	case 1:
		at, n := rng.Intn(len(out)), 1+rng.Intn(8)
		for i := at; i < at+n && i < len(out); i++ {
			out[i] = byte(rng.Intn(256))
		}
		return out, fmt.Sprintf("%d random bytes at %d", n, at)
	case 2:
		at, n := rng.Intn(len(out)), 1+rng.Intn(6)
		ins := make([]byte, n)
		rng.Read(ins)
		return append(out[:at:at], append(ins, out[at:]...)...), fmt.Sprintf("%d random bytes inserted at %d", n, at)
	case 3:
		at := rng.Intn(len(out))
		n := 1 + rng.Intn(min(8, len(out)-at))
		return append(out[:at:at], out[at+n:]...), fmt.Sprintf("%d bytes deleted at %d", n, at)
	default:
		at := rng.Intn(len(out))
		v := []byte{0xff, 0x00, 0x80, 0x7f}[rng.Intn(4)]
		n := 1 + rng.Intn(4)
		for i := at; i < at+n && i < len(out); i++ {
			out[i] = v
		}
		return out, fmt.Sprintf("%d bytes set to %#x at %d", n, v, at)
	}
}
