// Package wiredrv binds /verif/spec/Wire.tla to the real go-perun codecs
// (properties C13..C17): it concretises the token streams of the
// specification to bytes, builds real values from the abstract values TLC
// exports, and compares what the real encoders, decoders, comparison functions
// and the channel-id function do with what the specification says.
// See /verif/DESIGN.md (sections C13..C17, Appendix A).
package wiredrv

import (
	"bufio"
	"bytes"
	"crypto/sha256"
	"encoding/binary"
	"encoding/hex"
	"encoding/json"
	"fmt"
	"math/big"
	"math/rand"
	"os"
	"runtime"
	"sort"
	"strconv"
	"strings"
	"sync"
	"time"

	simchannel "perun.network/go-perun/backend/sim/channel"
	simwallet "perun.network/go-perun/backend/sim/wallet"
	simwire "perun.network/go-perun/backend/sim/wire"
	"perun.network/go-perun/channel"
	"perun.network/go-perun/client"
	"perun.network/go-perun/wallet"
	"perun.network/go-perun/wire"
)

// ---- abstract values as exported by Wire.tla (ToJson) ----------------------

type tok struct {
	K string `json:"k"`
	N int64  `json:"n"`
	S string `json:"s"`
	L int    `json:"l"`
	R string `json:"r"`
}

type absEntry struct {
	B int    `json:"b"`
	A string `json:"a"`
}
type absMap []absEntry

type absSub struct {
	ID   string  `json:"id"`
	Bals []int64 `json:"bals"`
	Im   []int   `json:"im"`
}

type absAlloc struct {
	Assets []absEntry `json:"assets"`
	Bals   [][]int64  `json:"bals"`
	Locked []absSub   `json:"locked"`
}

type absState struct {
	None  bool      `json:"none,omitempty"`
	ID    string    `json:"id,omitempty"`
	Ver   uint64    `json:"ver,omitempty"`
	Alloc *absAlloc `json:"alloc,omitempty"`
	Fin   bool      `json:"fin,omitempty"`
	App   string    `json:"app,omitempty"`
	Data  string    `json:"data,omitempty"`
}

type absParams struct {
	Cd     uint64   `json:"cd"`
	Parts  []absMap `json:"parts"`
	App    string   `json:"app"`
	Nonce  int64    `json:"nonce"`
	Ledger bool     `json:"ledger"`
	Virt   bool     `json:"virt"`
	Aux    string   `json:"aux"`
}

type absTx struct {
	Set  int       `json:"set"`
	St   *absState `json:"st,omitempty"`
	Sigs []string  `json:"sigs,omitempty"`
}

type absBase struct {
	Pid  string    `json:"pid"`
	Cd   uint64    `json:"cd"`
	Ns   string    `json:"ns"`
	App  string    `json:"app"`
	Data string    `json:"data"`
	Init *absAlloc `json:"init"`
	Fa   [][]int64 `json:"fa"`
	Aux  string    `json:"aux"`
}

type absUpd struct {
	St    *absState `json:"st"`
	Actor int       `json:"actor"`
	Sig   string    `json:"sig"`
}

type absMsg struct {
	T       string     `json:"t"`
	Time    int64      `json:"time,omitempty"`
	Reason  string     `json:"reason,omitempty"`
	Sig     string     `json:"sig,omitempty"`
	L       int        `json:"l,omitempty"`
	Base    *absBase   `json:"base,omitempty"`
	Part    absMap     `json:"part,omitempty"`
	Peers   []absMap   `json:"peers,omitempty"`
	Pid     string     `json:"pid,omitempty"`
	Ns      string     `json:"ns,omitempty"`
	Parent  string     `json:"parent,omitempty"`
	Parents []string   `json:"parents,omitempty"`
	Ims     [][]int    `json:"ims,omitempty"`
	Upd     *absUpd    `json:"upd,omitempty"`
	ID      string     `json:"id,omitempty"`
	Ver     uint64     `json:"ver,omitempty"`
	Params  *absParams `json:"params,omitempty"`
	St      *absState  `json:"st,omitempty"`
	Im      []int      `json:"im,omitempty"`
	Sigs    []string   `json:"sigs,omitempty"`
	Phase   int        `json:"phase,omitempty"`
	Tx      *absTx     `json:"tx,omitempty"`
}

type absEnv struct {
	From absMap  `json:"from"`
	To   absMap  `json:"to"`
	Msg  *absMsg `json:"msg"`
}

func canon(v any) string {
	b, err := json.Marshal(v)
	if err != nil {
		return "!" + err.Error()
	}
	return string(b)
}

// ---- the concrete world: symbols -> bytes ---------------------------------

type world struct {
	seed   int64
	accs   map[string]*simwallet.Account
	bytesO map[string][]byte // symbol -> bytes
	symOf  map[string]string // string(bytes) -> symbol
	apps   map[string]channel.App
	mu     sync.Mutex
}

var (
	regOnce sync.Once
	regApps map[string]channel.App
	regIDs  map[string]simchannel.AppID
)

// registerApps registers the two mock apps APP1, APP2 (process-wide, the
// registry is global) with fixed ids that do not depend on the seed.
func registerApps() {
	regOnce.Do(func() {
		regApps, regIDs = map[string]channel.App{}, map[string]simchannel.AppID{}
		for _, name := range []string{"APP1", "APP2", "APP3", "APP4", "APPX"} {
			// fixed bytes: ecdsa.GenerateKey is not a deterministic function of its
			// reader, and parent and child processes must agree on the app ids
			h1, h2 := sha256.Sum256([]byte(name+"/x")), sha256.Sum256([]byte(name+"/y"))
			if name == "APP2" { // APP1 and APP2 differ in the second half of their identifiers only: whatever keys apps must take all of it
				h1 = sha256.Sum256([]byte("APP1/x"))
			}
			switch name { // short coordinates (01, 0203) and (0102, 03): identical once written without padding
			case "APP3":
				h1, h2 = [32]byte{31: 0x01}, [32]byte{30: 0x02, 31: 0x03}
			case "APP4":
				h1, h2 = [32]byte{30: 0x01, 31: 0x02}, [32]byte{31: 0x03}
			}
			addr := &simwallet.Address{}
			if err := addr.UnmarshalBinary(append(h1[:], h2[:]...)); err != nil {
				panic(err)
			}
			id := simchannel.AppID{Address: addr}
			regIDs[name] = id
			if name != "APPX" {
				app := channel.NewMockApp(id)
				channel.RegisterApp(app)
				regApps[name] = app
			}
		}
	})
}

func newWorld(seed int64) *world {
	registerApps()
	w := &world{seed: seed, accs: map[string]*simwallet.Account{}, bytesO: map[string][]byte{}, symOf: map[string]string{}, apps: map[string]channel.App{}}
	rng := rand.New(rand.NewSource(seed*1000003 + 17))
	for i := 1; i <= 9; i++ {
		s := fmt.Sprintf("W%d", i)
		a := simwallet.NewRandomAccount(rng)
		w.accs[s] = a
		b, _ := a.Address().MarshalBinary()
		w.put(s, b)
	}
	for name, id := range regIDs {
		b, _ := id.MarshalBinary()
		w.put(name, b)
	}
	for k, v := range regApps {
		w.apps[k] = v
	}
	w.apps["none"] = channel.NoApp()
	h := func(s string, n int) []byte {
		var out []byte
		for i := 0; len(out) < n; i++ {
			x := sha256.Sum256([]byte(fmt.Sprintf("%s/%d/%d", s, seed, i)))
			out = append(out, x[:]...)
		}
		return out[:n]
	}
	for i := 1; i <= 9; i++ {
		w.put(fmt.Sprintf("N%d", i), h(fmt.Sprintf("N%d", i), 32))
		w.put(fmt.Sprintf("A%d", i), h(fmt.Sprintf("A%d", i), 8))
		w.put(fmt.Sprintf("G%d", i), h(fmt.Sprintf("G%d", i), 64))
	}
	for i := 0; i <= 9; i++ {
		w.put(fmt.Sprintf("I%d", i), h(fmt.Sprintf("I%d", i), 32))
	}
	w.put("X0", make([]byte, 256))
	w.put("X1", h("X1", 256))
	w.put("D0", []byte{})
	// D1 and D2 differ only in the case of two ASCII letters (a comparison that folds case takes them for equal), D3 differs
	// from both in a non-letter byte
	w.put("D1", []byte("perunAbc"))
	w.put("D2", []byte("perunabC"))
	w.put("D3", []byte{0, 0, 0, 0, 0, 0, 0, 2})
	w.bytesO["R1"] = h("R1", 256)
	return w
}

func (w *world) put(sym string, b []byte) {
	w.bytesO[sym] = b
	if len(b) > 0 {
		w.symOf[string(b)] = sym
	}
}

// sym returns the symbol of concrete bytes ("?hex" for unknown ones).
func (w *world) sym(b []byte) string {
	if s, ok := w.symOf[string(b)]; ok {
		return s
	}
	if len(b) > 12 {
		return fmt.Sprintf("?%x..(%d)", b[:12], len(b))
	}
	return "?" + hex.EncodeToString(b)
}

func (w *world) b(sym string) []byte {
	b, ok := w.bytesO[sym]
	if !ok {
		panic("wiredrv: unknown symbol " + sym)
	}
	return b
}

func (w *world) id32(sym string) (id [32]byte)  { copy(id[:], w.b(sym)); return }
func (w *world) aux(sym string) (a channel.Aux) { copy(a[:], w.b(sym)); return }

func fit(b []byte, l int) []byte {
	out := make([]byte, l)
	for i := range out {
		if i < len(b) {
			out[i] = b[i]
		} else {
			out[i] = 0xAB
		}
	}
	return out
}

// tokBytes concretises one token.
func (w *world) tokBytes(t tok) []byte {
	le := binary.LittleEndian
	switch t.K {
	case "u8", "bool":
		return []byte{byte(t.N)}
	case "u16":
		return le.AppendUint16(nil, uint16(t.N))
	case "u32":
		return le.AppendUint32(nil, uint32(t.N))
	case "u32be":
		return binary.BigEndian.AppendUint32(nil, uint32(t.N))
	case "u64", "i64":
		return le.AppendUint64(nil, uint64(t.N))
	case "i32":
		return le.AppendUint32(nil, uint32(int32(t.N)))
	case "b32", "b256", "sig":
		return fit(w.b(t.S), t.L)
	case "raw":
		return fit(w.b(t.S), t.L)
	case "big":
		b := bigOf(t.N).Bytes()
		return append([]byte{byte(len(b))}, b...)
	case "bigraw":
		b := make([]byte, t.L)
		if t.S == "ff" {
			for i := range b {
				b[i] = 0xff
			}
		} else if t.L > 0 {
			b[t.L-1] = 0x2a
		}
		return append([]byte{byte(t.L)}, b...)
	case "blob16":
		return append(le.AppendUint16(nil, uint16(t.L)), fit(w.b(t.S), t.L)...)
	case "blob16x": // declared length n, natural payload
		return append(le.AppendUint16(nil, uint16(t.N)), fit(w.b(t.S), t.L)...)
	case "str16":
		return append(le.AppendUint16(nil, uint16(len(t.S))), t.S...)
	case "str16x":
		return append(le.AppendUint16(nil, uint16(t.N)), t.S...)
	case "mask":
		out := make([]byte, t.L)
		for i := range out {
			out[i] = byte(uint64(t.N) >> (8 * i))
		}
		return out
	}
	panic("wiredrv: unknown token kind " + t.K)
}

// stream concretises a token sequence; bounds[i] is the offset after token i
// (bounds[0] = 0).
func (w *world) stream(toks []tok) (b []byte, bounds []int) {
	bounds = append(bounds, 0)
	for _, t := range toks {
		b = append(b, w.tokBytes(t)...)
		bounds = append(bounds, len(b))
	}
	return
}

// ---- abstract -> real values ----------------------------------------------

func (w *world) walletAddr(sym string) wallet.Address {
	a := &simwallet.Address{}
	if err := a.UnmarshalBinary(w.b(sym)); err != nil {
		panic(err)
	}
	return a
}

func (w *world) wireAddr(sym string) wire.Address {
	a := simwire.NewAddress()
	_ = a.UnmarshalBinary(w.b(sym))
	return a
}

func (w *world) wmap(m absMap) map[wallet.BackendID]wallet.Address {
	out := map[wallet.BackendID]wallet.Address{}
	for _, e := range m {
		out[wallet.BackendID(e.B)] = w.walletAddr(e.A)
	}
	return out
}

func (w *world) nmap(m absMap) map[wallet.BackendID]wire.Address {
	out := map[wallet.BackendID]wire.Address{}
	for _, e := range m {
		out[wallet.BackendID(e.B)] = w.wireAddr(e.A)
	}
	return out
}

func (w *world) warr(a []absMap) []map[wallet.BackendID]wallet.Address {
	out := make([]map[wallet.BackendID]wallet.Address, len(a))
	for i := range a {
		out[i] = w.wmap(a[i])
	}
	return out
}

func (w *world) narr(a []absMap) []map[wallet.BackendID]wire.Address {
	out := make([]map[wallet.BackendID]wire.Address, len(a))
	for i := range a {
		out[i] = w.nmap(a[i])
	}
	return out
}

// bigOf concretises an abstract amount: -1 and -2 stand for the extreme integers of the maximal length of 128 bytes.
func bigOf(x int64) *big.Int {
	switch x {
	case -1: // 2^1024 - 1
		return new(big.Int).Sub(new(big.Int).Lsh(big.NewInt(1), 1024), big.NewInt(1))
	case -2: // 2^1016
		return new(big.Int).Lsh(big.NewInt(1), 1016)
	}
	return big.NewInt(x)
}

func bigs(v []int64) []channel.Bal {
	out := make([]channel.Bal, len(v))
	for i, x := range v {
		out[i] = bigOf(x)
	}
	return out
}

func (w *world) bals(b [][]int64) channel.Balances {
	out := make(channel.Balances, len(b))
	for i := range b {
		out[i] = bigs(b[i])
	}
	return out
}

func idx(v []int) []channel.Index {
	out := make([]channel.Index, len(v))
	for i, x := range v {
		out[i] = channel.Index(x)
	}
	return out
}

func (w *world) sub(s absSub) channel.SubAlloc {
	return channel.SubAlloc{ID: w.id32(s.ID), Bals: bigs(s.Bals), IndexMap: idx(s.Im)}
}

func (w *world) asset(sym string) channel.Asset {
	a := &simchannel.Asset{}
	if err := a.UnmarshalBinary(w.b(sym)); err != nil {
		panic(err)
	}
	return a
}

func (w *world) alloc(a *absAlloc) channel.Allocation {
	out := channel.Allocation{Balances: w.bals(a.Bals)}
	for _, e := range a.Assets {
		out.Assets = append(out.Assets, w.asset(e.A))
		out.Backends = append(out.Backends, wallet.BackendID(e.B))
	}
	for _, s := range a.Locked {
		out.Locked = append(out.Locked, w.sub(s))
	}
	return out
}

func (w *world) data(app, sym string) channel.Data {
	if sym == "D0" {
		return channel.NoData()
	}
	op := channel.MockOp(binary.BigEndian.Uint64(w.b(sym)))
	return &op
}

func (w *world) app(name string) channel.App {
	a, ok := w.apps[name]
	if !ok {
		panic("wiredrv: unknown app " + name)
	}
	return a
}

func (w *world) state(s *absState) *channel.State {
	if s == nil || s.None {
		return nil
	}
	return &channel.State{ID: w.id32(s.ID), Version: s.Ver, App: w.app(s.App), Allocation: w.alloc(s.Alloc), Data: w.data(s.App, s.Data), IsFinal: s.Fin}
}

func (w *world) params(p *absParams) *channel.Params {
	return channel.NewParamsUnsafe(p.Cd, w.warr(p.Parts), w.app(p.App), big.NewInt(p.Nonce), p.Ledger, p.Virt, w.aux(p.Aux))
}

func (w *world) sigs(s []string) []wallet.Sig {
	out := make([]wallet.Sig, len(s))
	for i, x := range s {
		if x != "" {
			out[i] = append(wallet.Sig(nil), w.b(x)...)
		}
	}
	return out
}

func (w *world) tx(t *absTx) channel.Transaction {
	if t.Set == 0 {
		return channel.Transaction{}
	}
	return channel.Transaction{State: w.state(t.St), Sigs: w.sigs(t.Sigs)}
}

func (w *world) base(b *absBase) client.BaseChannelProposal {
	al := w.alloc(b.Init)
	return client.BaseChannelProposal{ProposalID: w.id32(b.Pid), ChallengeDuration: b.Cd, NonceShare: w.id32(b.Ns), App: w.app(b.App),
		InitData: w.data(b.App, b.Data), InitBals: &al, FundingAgreement: w.bals(b.Fa), Aux: w.aux(b.Aux)}
}

func (w *world) upd(u *absUpd) client.ChannelUpdateMsg {
	return client.ChannelUpdateMsg{ChannelUpdate: client.ChannelUpdate{State: w.state(u.St), ActorIdx: channel.Index(u.Actor)}, Sig: append(wallet.Sig(nil), w.b(u.Sig)...)}
}

func ids(w *world, s []string) []channel.ID {
	out := make([]channel.ID, len(s))
	for i := range s {
		out[i] = w.id32(s[i])
	}
	return out
}

func (w *world) msg(m *absMsg) wire.Msg {
	switch m.T {
	case "Ping":
		return &wire.PingMsg{PingPongMsg: wire.PingPongMsg{Created: time.Unix(0, m.Time)}}
	case "Pong":
		return &wire.PongMsg{PingPongMsg: wire.PingPongMsg{Created: time.Unix(0, m.Time)}}
	case "Shutdown":
		return &wire.ShutdownMsg{Reason: m.Reason}
	case "AuthResponse":
		return &wire.AuthResponseMsg{Signature: fit(w.b(m.Sig), m.L)}
	case "LCP":
		return &client.LedgerChannelProposalMsg{BaseChannelProposal: w.base(m.Base), Participant: w.wmap(m.Part), Peers: w.narr(m.Peers)}
	case "LCPAcc":
		return &client.LedgerChannelProposalAccMsg{BaseChannelProposalAcc: client.BaseChannelProposalAcc{ProposalID: w.id32(m.Pid), NonceShare: w.id32(m.Ns)}, Participant: w.wmap(m.Part)}
	case "SCP":
		return &client.SubChannelProposalMsg{BaseChannelProposal: w.base(m.Base), Parent: w.id32(m.Parent)}
	case "SCPAcc":
		return &client.SubChannelProposalAccMsg{BaseChannelProposalAcc: client.BaseChannelProposalAcc{ProposalID: w.id32(m.Pid), NonceShare: w.id32(m.Ns)}}
	case "VCP":
		ims := make([][]channel.Index, len(m.Ims))
		for i := range m.Ims {
			ims[i] = idx(m.Ims[i])
		}
		return &client.VirtualChannelProposalMsg{BaseChannelProposal: w.base(m.Base), Proposer: w.wmap(m.Part), Peers: w.narr(m.Peers), Parents: ids(w, m.Parents), IndexMaps: ims}
	case "VCPAcc":
		return &client.VirtualChannelProposalAccMsg{BaseChannelProposalAcc: client.BaseChannelProposalAcc{ProposalID: w.id32(m.Pid), NonceShare: w.id32(m.Ns)}, Responder: w.wmap(m.Part)}
	case "Rej":
		return &client.ChannelProposalRejMsg{ProposalID: w.id32(m.Pid), Reason: m.Reason}
	case "Update":
		u := w.upd(m.Upd)
		return &u
	case "UpdateAcc":
		return &client.ChannelUpdateAccMsg{ChannelID: w.id32(m.ID), Version: m.Ver, Sig: append(wallet.Sig(nil), w.b(m.Sig)...)}
	case "UpdateRej":
		return &client.ChannelUpdateRejMsg{ChannelID: w.id32(m.ID), Version: m.Ver, Reason: m.Reason}
	case "VCFund":
		return &client.VirtualChannelFundingProposalMsg{ChannelUpdateMsg: w.upd(m.Upd),
			Initial: channel.SignedState{Params: w.params(m.Params), State: w.state(m.St), Sigs: w.sigs(m.Sigs)}, IndexMap: idx(m.Im)}
	case "VCSettle":
		return &client.VirtualChannelSettlementProposalMsg{ChannelUpdateMsg: w.upd(m.Upd),
			Final: channel.SignedState{Params: w.params(m.Params), State: w.state(m.St), Sigs: w.sigs(m.Sigs)}}
	case "Sync":
		return &client.ChannelSyncMsg{Phase: channel.Phase(m.Phase), CurrentTX: w.tx(m.Tx)}
	}
	panic("wiredrv: unknown message " + m.T)
}

func (w *world) env(e *absEnv) *wire.Envelope {
	return &wire.Envelope{Sender: w.nmap(e.From), Recipient: w.nmap(e.To), Msg: w.msg(e.Msg)}
}

// ---- real values -> abstract (the harness' own projection) -----------------

func marshal(m interface{ MarshalBinary() ([]byte, error) }) []byte {
	if m == nil {
		return nil
	}
	b, err := m.MarshalBinary()
	if err != nil {
		return []byte("!" + err.Error())
	}
	return b
}

func (w *world) pWMap(m map[wallet.BackendID]wallet.Address) absMap {
	out := absMap{}
	for k, a := range m {
		s := "nil"
		if a != nil {
			s = w.sym(marshal(a))
		}
		out = append(out, absEntry{B: int(k), A: s})
	}
	sort.Slice(out, func(i, j int) bool { return out[i].B < out[j].B })
	return out
}

func (w *world) pNMap(m map[wallet.BackendID]wire.Address) absMap {
	out := absMap{}
	for k, a := range m {
		s := "nil"
		if a != nil {
			s = w.sym(marshal(a))
		}
		out = append(out, absEntry{B: int(k), A: s})
	}
	sort.Slice(out, func(i, j int) bool { return out[i].B < out[j].B })
	return out
}

func (w *world) pWArr(a []map[wallet.BackendID]wallet.Address) []absMap {
	out := make([]absMap, len(a))
	for i := range a {
		out[i] = w.pWMap(a[i])
	}
	return out
}

func (w *world) pNArr(a []map[wallet.BackendID]wire.Address) []absMap {
	out := make([]absMap, len(a))
	for i := range a {
		out[i] = w.pNMap(a[i])
	}
	return out
}

func pBig(b *big.Int) int64 {
	if b == nil {
		return -999
	}
	if !b.IsInt64() {
		for _, code := range []int64{-1, -2} {
			if b.Cmp(bigOf(code)) == 0 {
				return code
			}
		}
		return -998
	}
	return b.Int64()
}

func pBigs(v []channel.Bal) []int64 {
	out := make([]int64, len(v))
	for i := range v {
		out[i] = pBig(v[i])
	}
	return out
}

func pBals(b channel.Balances) [][]int64 {
	out := make([][]int64, len(b))
	for i := range b {
		out[i] = pBigs(b[i])
	}
	return out
}

func pIdx(v []channel.Index) []int {
	out := make([]int, len(v))
	for i := range v {
		out[i] = int(v[i])
	}
	return out
}

func (w *world) pSub(s *channel.SubAlloc) absSub {
	return absSub{ID: w.sym(s.ID[:]), Bals: pBigs(s.Bals), Im: pIdx(s.IndexMap)}
}

func (w *world) pAlloc(a *channel.Allocation) *absAlloc {
	out := &absAlloc{Assets: []absEntry{}, Bals: pBals(a.Balances), Locked: []absSub{}}
	for i, as := range a.Assets {
		b := -1
		if i < len(a.Backends) {
			b = int(a.Backends[i])
		}
		s := "nil"
		if as != nil {
			s = w.sym(marshal(as))
		}
		out.Assets = append(out.Assets, absEntry{B: b, A: s})
	}
	for i := len(a.Assets); i < len(a.Backends); i++ {
		out.Assets = append(out.Assets, absEntry{B: int(a.Backends[i]), A: "missing"})
	}
	for i := range a.Locked {
		out.Locked = append(out.Locked, w.pSub(&a.Locked[i]))
	}
	return out
}

func (w *world) pApp(a channel.App) string {
	if a == nil {
		return "nil"
	}
	if channel.IsNoApp(a) {
		return "none"
	}
	return w.sym(marshal(a.Def()))
}

func (w *world) pData(d channel.Data) string {
	if d == nil {
		return "nil"
	}
	b := marshal(d)
	if len(b) == 0 {
		return "D0"
	}
	return w.sym(b)
}

func (w *world) pState(s *channel.State) *absState {
	if s == nil {
		return &absState{None: true}
	}
	return &absState{ID: w.sym(s.ID[:]), Ver: s.Version, Alloc: w.pAlloc(&s.Allocation), Fin: s.IsFinal, App: w.pApp(s.App), Data: w.pData(s.Data)}
}

func (w *world) pParams(p *channel.Params) *absParams {
	if p == nil {
		return nil
	}
	return &absParams{Cd: p.ChallengeDuration, Parts: w.pWArr(p.Parts), App: w.pApp(p.App), Nonce: pBig(p.Nonce), Ledger: p.LedgerChannel, Virt: p.VirtualChannel, Aux: w.sym(p.Aux[:])}
}

func (w *world) pSigs(s []wallet.Sig) []string {
	out := make([]string, len(s))
	for i := range s {
		if len(s[i]) > 0 {
			out[i] = w.sym(s[i])
		}
	}
	return out
}

func (w *world) pTx(t *channel.Transaction) *absTx {
	if t.State == nil {
		return &absTx{Set: 0, St: &absState{None: true}}
	}
	return &absTx{Set: 1, St: w.pState(t.State), Sigs: w.pSigs(t.Sigs)}
}

func (w *world) pBase(b *client.BaseChannelProposal) *absBase {
	out := &absBase{Pid: w.sym(b.ProposalID[:]), Cd: b.ChallengeDuration, Ns: w.sym(b.NonceShare[:]), App: w.pApp(b.App), Data: w.pData(b.InitData),
		Fa: pBals(b.FundingAgreement), Aux: w.sym(b.Aux[:])}
	if b.InitBals != nil {
		out.Init = w.pAlloc(b.InitBals)
	}
	return out
}

func (w *world) pUpd(u *client.ChannelUpdateMsg) *absUpd {
	return &absUpd{St: w.pState(u.State), Actor: int(u.ActorIdx), Sig: w.sym(u.Sig)}
}

func (w *world) pMsg(m wire.Msg) *absMsg {
	switch x := m.(type) {
	case *wire.PingMsg:
		return &absMsg{T: "Ping", Time: x.Created.UnixNano()}
	case *wire.PongMsg:
		return &absMsg{T: "Pong", Time: x.Created.UnixNano()}
	case *wire.ShutdownMsg:
		return &absMsg{T: "Shutdown", Reason: x.Reason}
	case *wire.AuthResponseMsg:
		ref := fit(w.b("R1"), len(x.Signature))
		s := "R1"
		if !bytes.Equal(ref, x.Signature) {
			s = w.sym(x.Signature)
		}
		return &absMsg{T: "AuthResponse", Sig: s, L: len(x.Signature)}
	case *client.LedgerChannelProposalMsg:
		return &absMsg{T: "LCP", Base: w.pBase(&x.BaseChannelProposal), Part: w.pWMap(x.Participant), Peers: w.pNArr(x.Peers)}
	case *client.LedgerChannelProposalAccMsg:
		return &absMsg{T: "LCPAcc", Pid: w.sym(x.ProposalID[:]), Ns: w.sym(x.NonceShare[:]), Part: w.pWMap(x.Participant)}
	case *client.SubChannelProposalMsg:
		return &absMsg{T: "SCP", Base: w.pBase(&x.BaseChannelProposal), Parent: w.sym(x.Parent[:])}
	case *client.SubChannelProposalAccMsg:
		return &absMsg{T: "SCPAcc", Pid: w.sym(x.ProposalID[:]), Ns: w.sym(x.NonceShare[:])}
	case *client.VirtualChannelProposalMsg:
		out := &absMsg{T: "VCP", Base: w.pBase(&x.BaseChannelProposal), Part: w.pWMap(x.Proposer), Peers: w.pNArr(x.Peers)}
		for _, p := range x.Parents {
			out.Parents = append(out.Parents, w.sym(p[:]))
		}
		for _, im := range x.IndexMaps {
			out.Ims = append(out.Ims, pIdx(im))
		}
		return out
	case *client.VirtualChannelProposalAccMsg:
		return &absMsg{T: "VCPAcc", Pid: w.sym(x.ProposalID[:]), Ns: w.sym(x.NonceShare[:]), Part: w.pWMap(x.Responder)}
	case *client.ChannelProposalRejMsg:
		return &absMsg{T: "Rej", Pid: w.sym(x.ProposalID[:]), Reason: x.Reason}
	case *client.ChannelUpdateMsg:
		return &absMsg{T: "Update", Upd: w.pUpd(x)}
	case *client.ChannelUpdateAccMsg:
		return &absMsg{T: "UpdateAcc", ID: w.sym(x.ChannelID[:]), Ver: x.Version, Sig: w.sym(x.Sig)}
	case *client.ChannelUpdateRejMsg:
		return &absMsg{T: "UpdateRej", ID: w.sym(x.ChannelID[:]), Ver: x.Version, Reason: x.Reason}
	case *client.VirtualChannelFundingProposalMsg:
		return &absMsg{T: "VCFund", Upd: w.pUpd(&x.ChannelUpdateMsg), Params: w.pParams(x.Initial.Params), St: w.pState(x.Initial.State), Im: pIdx(x.IndexMap), Sigs: w.pSigs(x.Initial.Sigs)}
	case *client.VirtualChannelSettlementProposalMsg:
		return &absMsg{T: "VCSettle", Upd: w.pUpd(&x.ChannelUpdateMsg), Params: w.pParams(x.Final.Params), St: w.pState(x.Final.State), Sigs: w.pSigs(x.Final.Sigs)}
	case *client.ChannelSyncMsg:
		return &absMsg{T: "Sync", Phase: int(x.Phase), Tx: w.pTx(&x.CurrentTX)}
	case nil:
		return &absMsg{T: "nil"}
	}
	return &absMsg{T: fmt.Sprintf("?%T", m)}
}

func (w *world) pEnv(e *wire.Envelope) *absEnv {
	if e == nil {
		return nil
	}
	return &absEnv{From: w.pNMap(e.Sender), To: w.pNMap(e.Recipient), Msg: w.pMsg(e.Msg)}
}

// ---- helpers ---------------------------------------------------------------

// guard runs f and converts a panic into a description "value @ top go-perun frame".
func guard(f func() error) (err error, pan string) {
	defer func() {
		if p := recover(); p != nil {
			buf := make([]byte, 16384)
			buf = buf[:runtime.Stack(buf, false)]
			pan = fmt.Sprintf("%v @ %s", p, topFrame(string(buf)))
		}
	}()
	return f(), ""
}

// topFrame returns the first go-perun function (outside the harness) of a stack dump.
func topFrame(stack string) string {
	for _, ln := range strings.Split(stack, "\n") {
		ln = strings.TrimSpace(ln)
		if strings.HasPrefix(ln, "perun.network/go-perun/") && !strings.HasPrefix(ln, "perun.network/go-perun/log.") {
			if i := strings.LastIndex(ln, "("); i > 0 {
				ln = ln[:i]
			}
			return strings.TrimPrefix(ln, "perun.network/go-perun/")
		}
	}
	return "?"
}

// panicSite extracts the frame from a guard() description.
func panicSite(pan string) string {
	if i := strings.LastIndex(pan, " @ "); i >= 0 {
		return pan[i+3:]
	}
	return "?"
}

// readLines reads the JSON lines TLC printed (PrintT(ToJson(..))).
func readLines(path string, f func(js string) error) error {
	fh, err := os.Open(path)
	if err != nil {
		return err
	}
	defer fh.Close()
	sc := bufio.NewScanner(fh)
	sc.Buffer(make([]byte, 1<<20), 1<<28)
	for sc.Scan() {
		ln := sc.Text()
		if !strings.HasPrefix(ln, "\"{") {
			continue
		}
		js, err := strconv.Unquote(ln)
		if err != nil {
			return fmt.Errorf("unquote %q: %w", ln[:40], err)
		}
		if err := f(js); err != nil {
			return err
		}
	}
	return sc.Err()
}

func short(s string, n int) string {
	if len(s) > n {
		return s[:n] + "..."
	}
	return s
}
