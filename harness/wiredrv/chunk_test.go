package wiredrv

import (
	"bytes"
	"encoding/json"
	"errors"
	"fmt"
	"io"
	"math/rand"
	"sort"
	"testing"

	"perun.network/go-perun/wire"
	wirenet "perun.network/go-perun/wire/net"
	"verif/harness/drv"
)

type chunkEnv struct {
	V     absEnv `json:"v"`
	Toks  []tok  `json:"toks"`
	Bytes int    `json:"bytes"`
}

type cut struct {
	E int `json:"e"`
	I int `json:"i"`
	W int `json:"w"`
}

type sched struct {
	Name string `json:"name"`
	Cuts []cut  `json:"cuts"`
	N    int    `json:"n"`
}

type chunkCase struct {
	Envs   []chunkEnv `json:"envs"`
	Scheds []sched    `json:"scheds"`
	line   string
}

var errWouldBlock = errors.New("harness: the decoder asks for bytes beyond the last envelope (the open connection would block)")

// chunkReader delivers the stream in exactly the scheduled chunks: a Read
// returns at most the rest of the current chunk, never 0 bytes for a non-empty
// buffer, and never an error together with data.
type chunkReader struct {
	data   []byte
	chunks []int
	pos    int // consumed bytes
	ci     int // current chunk
	left   int // bytes left in current chunk
	reads  int
}

func newChunkReader(data []byte, chunks []int) *chunkReader {
	return &chunkReader{data: data, chunks: chunks}
}

func (r *chunkReader) Read(p []byte) (int, error) {
	r.reads++
	if len(p) == 0 {
		return 0, nil
	}
	for r.left == 0 {
		if r.ci >= len(r.chunks) {
			return 0, errWouldBlock
		}
		r.left = r.chunks[r.ci]
		r.ci++
	}
	n := len(p)
	if n > r.left {
		n = r.left
	}
	copy(p, r.data[r.pos:r.pos+n])
	r.pos += n
	r.left -= n
	return n, nil
}

func (r *chunkReader) Write(p []byte) (int, error) { return len(p), nil }
func (r *chunkReader) Close() error                { return nil }

// offsetsToChunks turns cut offsets into chunk sizes over total bytes.
func offsetsToChunks(offs []int, total int) []int {
	sort.Ints(offs)
	var out []int
	prev := 0
	for _, o := range offs {
		if o <= prev || o >= total {
			continue
		}
		out = append(out, o-prev)
		prev = o
	}
	return append(out, total-prev)
}

// stream layout: per envelope its start offset and token bounds (relative).
type layout struct {
	start  []int
	bounds [][]int
	total  int
}

func (l *layout) cutOffset(c cut) int {
	e := c.E - 1
	if e < 0 || e >= len(l.bounds) {
		return -1
	}
	b := l.bounds[e]
	i := c.I
	if i < 1 {
		i = 1
	}
	if i >= len(b) {
		i = len(b) - 1
	}
	lo, hi := b[i-1], b[i]
	switch c.W {
	case 0:
		return l.start[e] + lo
	case 1:
		if hi-lo > 1 {
			return l.start[e] + lo + 1
		}
		return l.start[e] + lo
	default:
		if hi-lo > 1 {
			return l.start[e] + hi - 1
		}
		return l.start[e] + hi
	}
}

func (l *layout) chunks(s sched, seed int64) []int {
	var offs []int
	switch s.Name {
	case "all-at-once":
	case "bytewise":
		for o := 1; o < l.total; o++ {
			offs = append(offs, o)
		}
	case "segments":
		for o := s.N; o < l.total; o += s.N {
			offs = append(offs, o)
		}
	case "random":
		rng := rand.New(rand.NewSource(seed*131 + int64(s.N)*17 + int64(l.total)))
		max := []int{3, 40, 2000}[s.N%3]
		for o := 1 + rng.Intn(max); o < l.total; o += 1 + rng.Intn(max) {
			offs = append(offs, o)
		}
	case "every-boundary", "inside-every-token", "before-last-byte-of-every-token":
		w := map[string]int{"every-boundary": 0, "inside-every-token": 1, "before-last-byte-of-every-token": 2}[s.Name]
		for e := range l.bounds {
			for i := 1; i < len(l.bounds[e]); i++ {
				offs = append(offs, l.cutOffset(cut{E: e + 1, I: i, W: w}))
			}
		}
	default:
		for _, c := range s.Cuts {
			offs = append(offs, l.cutOffset(c))
		}
	}
	return offsetsToChunks(offs, l.total)
}

// TestWireChunk: C16.
func TestWireChunk(t *testing.T) {
	path := casesPath(t)
	res := drv.NewResult("wire-chunk")
	defer func() {
		if err := res.Write(); err != nil {
			t.Fatal(err)
		}
	}()
	w := newWorld(drv.Seed())
	var cases []*chunkCase
	if err := readLines(path, func(js string) error {
		c := &chunkCase{line: js}
		if err := json.Unmarshal([]byte(js), c); err != nil {
			return fmt.Errorf("json %s: %w", short(js, 80), err)
		}
		cases = append(cases, c)
		return nil
	}); err != nil {
		t.Fatal(err)
	}
	res.Add("cases", len(cases))
	drv.Parallel(len(cases), drv.EnvInt("VERIF_WORKERS", 16), func(ci int) {
		c := cases[ci]
		rp := replayOf("TestWireChunk", c.line)
		var want []string
		var mts []string
		nat := &layout{}
		pro := &layout{}
		var natBytes, proBytes []byte
		protoOK := true
		for k := range c.Envs {
			e := &c.Envs[k]
			env := w.env(&e.V)
			want = append(want, canon(&e.V))
			mts = append(mts, e.V.Msg.T)
			var nb bytes.Buffer
			if err, pan := guard(func() error { return nativeSer.Encode(&nb, env) }); err != nil || pan != "" {
				res.Note("native encode failed for %s: %v %s", e.V.Msg.T, err, pan)
				return
			}
			spec, bounds := w.stream(e.Toks)
			if !bytes.Equal(spec, nb.Bytes()) || len(spec) != e.Bytes {
				// C14's business; here the token boundaries would be off: use one token
				res.Note("encoding of %s differs from the specification (%d/%d/%d bytes): token-relative cuts degrade to byte offsets", e.V.Msg.T, len(spec), nb.Len(), e.Bytes)
				bounds = []int{0, nb.Len()}
			}
			nat.start = append(nat.start, len(natBytes))
			nat.bounds = append(nat.bounds, bounds)
			natBytes = append(natBytes, nb.Bytes()...)
			var pb bytes.Buffer
			if err, pan := guard(func() error { return protoSer.Encode(&pb, env) }); err != nil || pan != "" {
				protoOK = false // e.g. longer than the 65535 byte frame limit
				res.Add("protobuf_unencodable", 1)
				continue
			}
			// protobuf tokens: the 2-byte length prefix, then the body; further cut
			// positions inside the body in proportion to the native token bounds
			pbounds := []int{0, 2}
			body := pb.Len() - 2
			for i := 2; i < len(bounds)-1; i++ {
				o := 2 + bounds[i]*body/bounds[len(bounds)-1]
				if o > pbounds[len(pbounds)-1] && o < pb.Len() {
					pbounds = append(pbounds, o)
				}
			}
			pbounds = append(pbounds, pb.Len())
			pro.start = append(pro.start, len(proBytes))
			pro.bounds = append(pro.bounds, pbounds)
			proBytes = append(proBytes, pb.Bytes()...)
		}
		nat.total, pro.total = len(natBytes), len(proBytes)
		type target struct {
			name string
			ser  wire.EnvelopeSerializer
			data []byte
			lay  *layout
		}
		targets := []target{{"native", nativeSer, natBytes, nat}}
		if protoOK {
			targets = append(targets, target{"protobuf", protoSer, proBytes, pro})
		}
		for _, tg := range targets {
			// reference: every envelope decoded ALONE from exactly its own bytes, delivered at once
			// (if that fails it is not a chunking matter but C14's)
			ref := make([]string, 0, len(want))
			refOK := true
			for k := range c.Envs {
				lo := tg.lay.start[k]
				hi := len(tg.data)
				if k+1 < len(tg.lay.start) {
					hi = tg.lay.start[k+1]
				}
				rd := newChunkReader(tg.data[lo:hi], []int{hi - lo})
				var env *wire.Envelope
				err, pan := guard(func() error { var e error; env, e = tg.ser.Decode(rd); return e })
				if err != nil || pan != "" {
					refOK = false
					break
				}
				var got string
				if _, pan := guard(func() error { got = canon(w.pEnv(env)); return nil }); pan != "" {
					refOK = false
					break
				}
				ref = append(ref, got)
			}
			if !refOK {
				res.Note("%s: unchunked decode of %v fails (reported by C14)", tg.name, mts)
				continue
			}
			for _, s := range c.Scheds {
				chunks := tg.lay.chunks(s, drv.Seed())
				for _, via := range []string{"Decode", "ioConn.Recv"} {
					if via == "ioConn.Recv" && (len(chunks) > 4000 || s.Name == "single-cut" && len(s.Cuts) == 1 && s.Cuts[0].W == 2) {
						continue
					}
					res.Add("schedules", 1)
					res.Seen("case", fmt.Sprintf("%s|%s|%s|%d", tg.name, via, s.Name, len(c.Envs)))
					rd := newChunkReader(tg.data, chunks)
					var conn wirenet.Conn
					if via == "ioConn.Recv" {
						conn = wirenet.NewIoConn(rd, tg.ser)
					}
					fail := ""
					for k := range c.Envs {
						var env *wire.Envelope
						err, pan := guard(func() error {
							var e error
							if conn != nil {
								env, e = conn.Recv()
							} else {
								env, e = tg.ser.Decode(rd)
							}
							return e
						})
						if pan != "" {
							fail = fmt.Sprintf("envelope %d/%d (%s): panic %s", k+1, len(c.Envs), mts[k], pan)
							break
						}
						if err != nil {
							fail = fmt.Sprintf("envelope %d/%d (%s): error %q after %d of %d bytes", k+1, len(c.Envs), mts[k], short(err.Error(), 200), rd.pos, len(tg.data))
							break
						}
						end := len(tg.data)
						if k+1 < len(tg.lay.start) {
							end = tg.lay.start[k+1]
						}
						if rd.pos != end {
							// stop here: decoding the next envelope from a desynchronised stream means decoding garbage
							fail = fmt.Sprintf("decoding envelope %d/%d (%s) consumed the stream up to byte %d, the envelope ends at byte %d (bytes of the next envelope are lost / left over)", k+1, len(c.Envs), mts[k], rd.pos, end)
							break
						}
						var got string
						if _, pan := guard(func() error { got = canon(w.pEnv(env)); return nil }); pan != "" || got != ref[k] {
							fail = fmt.Sprintf("envelope %d/%d (%s) decodes to another envelope than from the unchunked stream (difference at %s)", k+1, len(c.Envs), mts[k], firstDiff(ref[k], got))
							break
						}
					}
					if fail == "" && rd.pos != len(tg.data) {
						fail = fmt.Sprintf("%d of %d bytes consumed after the last envelope", rd.pos, len(tg.data))
					}
					if fail != "" {
						head := chunks
						if len(head) > 12 {
							head = head[:12]
						}
						kind := s.Name
						if s.Name == "single-cut" && len(s.Cuts) == 1 && tg.name == "protobuf" {
							e := s.Cuts[0].E - 1
							if o := tg.lay.cutOffset(s.Cuts[0]) - tg.lay.start[e]; o > 0 && o < 2 {
								kind += "/length-prefix"
							} else {
								kind += "/body"
							}
						}
						res.Violate("C16", "monitor", "chunking|"+tg.name+"|"+kind,
							fmt.Sprintf("%s serializer (%s): a stream of %d envelope(s) %v (%d bytes), each of which decodes from its own bytes, does not decode when delivered as '%s' (n=%d, cuts %v; %d chunks, first sizes %v): %s",
								tg.name, via, len(c.Envs), mts, len(tg.data), s.Name, s.N, s.Cuts, len(chunks), head, fail), rp)
					}
				}
			}
		}
	})
	for i := 0; i < len(cases) && i < 3; i++ {
		c := cases[(i*7919)%len(cases)]
		var ts []string
		for _, e := range c.Envs {
			ts = append(ts, fmt.Sprintf("%s(%dB)", e.V.Msg.T, e.Bytes))
		}
		res.Sample(map[string]any{"envelopes": ts, "schedules": len(c.Scheds)})
	}
}

var _ = io.EOF
