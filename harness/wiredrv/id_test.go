package wiredrv

import (
	"bytes"
	"encoding/json"
	"fmt"
	"math/big"
	"testing"

	"perun.network/go-perun/channel"
	"perun.network/go-perun/wallet"
	"verif/harness/drv"
)

type idParams struct {
	Cd     uint64   `json:"cd"`
	Parts  []string `json:"parts"`
	Rep    int      `json:"rep"`
	App    string   `json:"app"`
	Nonce  string   `json:"nonce"`
	Ledger bool     `json:"ledger"`
	Virt   bool     `json:"virt"`
}

type idCase struct {
	Base      idParams `json:"base"`
	Var       idParams `json:"var"`
	Name      string   `json:"name"`
	ValidBase bool     `json:"validBase"`
	ValidVar  bool     `json:"validVar"`
	Same      bool     `json:"same"`
	line      string
}

func pow2(n uint) *big.Int { return new(big.Int).Lsh(big.NewInt(1), n) }

func parseNonce(s string) channel.Nonce {
	switch s {
	case "nil":
		return nil
	case "lz5":
		return channel.NonceFromBytes([]byte{0, 0, 0, 0, 5})
	case "2^255":
		return pow2(255)
	case "2^256-2":
		return new(big.Int).Sub(pow2(256), big.NewInt(2))
	case "2^256-1":
		return new(big.Int).Sub(pow2(256), big.NewInt(1))
	case "2^256":
		return pow2(256)
	case "2^263-1":
		return new(big.Int).Sub(pow2(263), big.NewInt(1))
	case "2^263":
		return pow2(263)
	case "2^264":
		return pow2(264)
	}
	n, ok := new(big.Int).SetString(s, 10)
	if !ok {
		panic("wiredrv: nonce " + s)
	}
	return n
}

type idArgs struct {
	cd     uint64
	parts  []map[wallet.BackendID]wallet.Address
	syms   []string
	app    channel.App
	nonce  channel.Nonce
	ledger bool
	virt   bool
}

func (w *world) idArgs(p *idParams) idArgs {
	a := idArgs{cd: p.Cd, nonce: parseNonce(p.Nonce), ledger: p.Ledger, virt: p.Virt}
	syms := p.Parts
	if p.Rep > 0 {
		syms = nil
		for i := 0; i < p.Rep; i++ {
			syms = append(syms, fmt.Sprintf("W%d", i%3+1))
		}
	}
	a.syms = syms
	a.parts = make([]map[wallet.BackendID]wallet.Address, len(syms))
	for i, s := range syms {
		if s == "W0" { // a participant without any address: an empty, non-nil map (what a decoder makes of a declared length 0)
			a.parts[i] = map[wallet.BackendID]wallet.Address{}
			continue
		}
		a.parts[i] = map[wallet.BackendID]wallet.Address{channel.TestBackendID: w.walletAddr(s)}
	}
	if p.App != "nil" {
		a.app = w.app(p.App)
	}
	return a
}

func (a idArgs) newParams() (*channel.Params, error, string) {
	var p *channel.Params
	err, pan := guard(func() (e error) {
		p, e = channel.NewParams(a.cd, a.parts, a.app, a.nonce, a.ledger, a.virt, channel.ZeroAux)
		return
	})
	return p, err, pan
}

// TestWireID: C17.
func TestWireID(t *testing.T) {
	path := casesPath(t)
	res := drv.NewResult("wire-id")
	defer func() {
		if err := res.Write(); err != nil {
			t.Fatal(err)
		}
	}()
	w := newWorld(drv.Seed())
	var cases []*idCase
	if err := readLines(path, func(js string) error {
		c := &idCase{line: js}
		if err := json.Unmarshal([]byte(js), c); err != nil {
			return fmt.Errorf("json %s: %w", short(js, 80), err)
		}
		cases = append(cases, c)
		return nil
	}); err != nil {
		t.Fatal(err)
	}
	res.Add("cases", len(cases))
	drv.Parallel(len(cases), drv.EnvInt("VERIF_WORKERS", 16), func(i int) {
		c := cases[i]
		rp := replayOf("TestWireID", c.line)
		res.Seen("case", c.Name)
		desc := func() string { return fmt.Sprintf("'%s': base %s, variant %s", c.Name, canon(c.Base), canon(c.Var)) }
		ba, va := w.idArgs(&c.Base), w.idArgs(&c.Var)
		pb, err, pan := ba.newParams()
		if pan != "" || err != nil || !c.ValidBase {
			res.Violate("C17", "monitor", "constraint|refused|base", fmt.Sprintf("NewParams refused valid parameters: %v %s; %s", err, pan, desc()), rp)
			return
		}
		pv, err, pan := va.newParams()
		res.Add("constructions", 1)
		switch {
		case pan != "":
			res.Violate("C17", "monitor", "panic|NewParams|"+c.Name, "NewParams panicked: "+pan+"; "+desc(), rp)
			return
		case err == nil && !c.ValidVar:
			res.Violate("C17", "monitor", "constraint|accepted|"+c.Name, fmt.Sprintf("NewParams accepted parameters that violate a documented constraint (%s) and computed the id %x; %s", c.Name, pv.ID(), desc()), rp)
		case err != nil && c.ValidVar:
			res.Violate("C17", "monitor", "constraint|refused|"+c.Name, fmt.Sprintf("NewParams refused parameters within the documented constraints: %v; %s", err, desc()), rp)
			return
		}
		if !c.ValidVar {
			// the same constraint through Decode: encode with the non-validating constructor
			if len(va.parts) == 0 || va.app == nil || va.nonce == nil || len(va.nonce.Bytes()) > 128 {
				return
			}
			var up *channel.Params
			if _, pan := guard(func() error {
				up = channel.NewParamsUnsafe(va.cd, va.parts, va.app, va.nonce, va.ledger, va.virt, channel.ZeroAux)
				return nil
			}); pan != "" {
				return
			}
			var buf bytes.Buffer
			if err, pan := guard(func() error { return up.Encode(&buf) }); err != nil || pan != "" {
				return
			}
			dec := new(channel.Params)
			res.Add("decodes", 1)
			err, pan := guard(func() error { return dec.Decode(bytes.NewBuffer(buf.Bytes())) })
			if pan != "" {
				res.Violate("C17", "monitor", "panic|Params.Decode|"+c.Name, "Params.Decode panicked: "+pan+"; "+desc(), rp)
			} else if err == nil {
				res.Violate("C17", "monitor", "constraint|decoded|"+c.Name, fmt.Sprintf("Params.Decode accepted encoded parameters that violate a documented constraint (%s); %s", c.Name, desc()), rp)
			}
			return
		}
		// ids: deterministic, committing
		idb, idv := pb.ID(), pv.ID()
		res.Add("id_comparisons", 1)
		if (idb == idv) != c.Same {
			if c.Same {
				res.Violate("C17", "monitor", "id|differs|"+c.Name, fmt.Sprintf("equal parameters have different ids %x and %x; %s", idb, idv, desc()), rp)
			} else {
				res.Violate("C17", "monitor", "id|unchanged|"+c.Name, fmt.Sprintf("changing '%s' leaves the channel id unchanged (%x); %s", c.Name, idb, desc()), rp)
			}
		}
		// the id is a function of the fields, not of how the value came about: a copy of the base parameters with the
		// variant's fields written into it has the variant's id
		if len(va.parts) > 0 && va.app != nil && va.nonce != nil {
			cp := *pb
			cp.ChallengeDuration, cp.Parts, cp.App, cp.Nonce, cp.LedgerChannel, cp.VirtualChannel = va.cd, va.parts, va.app, va.nonce, va.ledger, va.virt
			var rid channel.ID
			if e, pan := guard(func() (e error) { rid, e = channel.CalcID(&cp); return }); pan == "" && e == nil && rid != idv {
				res.Violate("C17", "monitor", "id|copy|"+c.Name, fmt.Sprintf("CalcID of a copy of the base parameters with the variant's fields is %x, the id of the variant is %x; %s", rid, idv, desc()), rp)
			}
		}
		if pv2, err, _ := va.newParams(); err != nil || pv2.ID() != idv {
			res.Violate("C17", "monitor", "id|nondeterministic", "constructing the same parameters twice yields different ids; "+desc(), rp)
		}
		// clone
		var cl *channel.Params
		if _, pan := guard(func() error { cl = pv.Clone(); return nil }); pan != "" {
			res.Violate("C17", "monitor", "panic|Clone|"+c.Name, "Params.Clone panicked: "+pan+"; "+desc(), rp)
			return
		}
		re, err := channel.CalcID(cl)
		if cl.ID() != idv || err != nil || re != idv {
			res.Violate("C17", "monitor", "id|clone", fmt.Sprintf("the clone has id %x (recomputed from its fields: %x, %v), the original %x; %s", cl.ID(), re, err, idv, desc()), rp)
		}
		// encode / decode
		var buf bytes.Buffer
		if err, pan := guard(func() error { return pv.Encode(&buf) }); err != nil || pan != "" {
			res.Violate("C17", "monitor", "encode|"+c.Name, fmt.Sprintf("valid parameters cannot be encoded: %v %s; %s", err, pan, desc()), rp)
			return
		}
		dec := new(channel.Params)
		res.Add("decodes", 1)
		if err, pan := guard(func() error { return dec.Decode(bytes.NewBuffer(buf.Bytes())) }); err != nil || pan != "" {
			res.Violate("C17", "monitor", "decode|"+c.Name, fmt.Sprintf("the encoding of valid parameters is refused: %v %s; %s", err, pan, desc()), rp)
			return
		}
		re, err = channel.CalcID(dec)
		if dec.ID() != idv || err != nil || re != idv {
			res.Violate("C17", "monitor", "id|decoded", fmt.Sprintf("parameters restored from their encoding have id %x (recomputed %x), the original %x; %s", dec.ID(), re, idv, desc()), rp)
		}
		// machine-created states carry the id
		if len(va.parts) > 3 || i%3 != 0 && c.Name != "identical" {
			return
		}
		res.Add("machines", 1)
		err, pan = guard(func() error { return machineIDs(w, pv, va) })
		if pan != "" {
			res.Violate("C17", "monitor", "panic|machine|"+c.Name, "state machine panicked: "+pan+"; "+desc(), rp)
		} else if err != nil {
			res.Violate("C17", "monitor", "state-id", err.Error()+"; "+desc(), rp)
		}
	})
	for i := 0; i < len(cases) && i < 3; i++ {
		c := cases[(i*7919)%len(cases)]
		res.Sample(map[string]any{"name": c.Name, "base": c.Base, "var": c.Var, "same": c.Same, "valid": c.ValidVar})
	}
}

// machineIDs runs Init and one Update on a real state machine and checks the
// ids of the states the machine creates / accepts.
func machineIDs(w *world, p *channel.Params, a idArgs) error {
	np := len(a.parts)
	me := w.accs[a.syms[0]]
	m, err := channel.NewStateMachine(map[wallet.BackendID]wallet.Account{channel.TestBackendID: me}, *p.Clone())
	if err != nil {
		return fmt.Errorf("NewStateMachine: %w", err)
	}
	al := channel.Allocation{Assets: []channel.Asset{w.asset("A1")}, Backends: []wallet.BackendID{channel.TestBackendID}, Balances: channel.Balances{make([]channel.Bal, np)}}
	for j := 0; j < np; j++ {
		al.Balances[0][j] = big.NewInt(int64(5 + j))
	}
	var data channel.Data = channel.NoData()
	if !channel.IsNoApp(p.App) {
		data = channel.NewMockOp(channel.OpValid)
	}
	if err := m.Init(al, data); err != nil {
		return fmt.Errorf("Init: %w", err)
	}
	if st := m.StagingState(); st == nil || st.ID != p.ID() {
		return fmt.Errorf("the initial state created by the machine does not carry the id of its parameters")
	}
	signAll := func() error {
		if _, err := m.Sig(); err != nil {
			return err
		}
		for i := 1; i < np; i++ {
			sig, err := channel.Sign(w.accs[a.syms[i]], m.StagingState(), channel.TestBackendID)
			if err != nil {
				return err
			}
			if err := m.AddSig(channel.Index(i), sig); err != nil {
				return err
			}
		}
		return nil
	}
	// distinct accounts are needed for signing; skip the rest for duplicate participants
	seen := map[string]bool{}
	for _, s := range a.syms {
		if seen[s] {
			return nil
		}
		seen[s] = true
	}
	if err := signAll(); err != nil {
		return fmt.Errorf("signing the initial state: %w", err)
	}
	if err := m.EnableInit(); err != nil {
		return fmt.Errorf("EnableInit: %w", err)
	}
	if tx := m.CurrentTX(); tx.State == nil || tx.ID != p.ID() {
		return fmt.Errorf("the current state after EnableInit does not carry the id of the parameters")
	}
	if err := m.SetFunded(); err != nil {
		return fmt.Errorf("SetFunded: %w", err)
	}
	next := m.State().Clone()
	next.Version++
	if err := m.Update(next, 0); err != nil {
		return fmt.Errorf("Update: %w", err)
	}
	if st := m.StagingState(); st == nil || st.ID != p.ID() {
		return fmt.Errorf("the state staged by Update does not carry the id of the parameters")
	}
	other := next.Clone()
	other.ID[5] ^= 0x40
	if err := m.DiscardUpdate(); err != nil {
		return fmt.Errorf("DiscardUpdate: %w", err)
	}
	if err := m.Update(other, 0); err == nil {
		return fmt.Errorf("Update accepted a state with another channel id than the machine's parameters")
	}
	return nil
}
