package wiredrv

import (
	"bytes"
	"encoding/json"
	"fmt"
	"strings"
	"testing"

	"perun.network/go-perun/channel"
	"perun.network/go-perun/wallet"
	"verif/harness/drv"
)

type pairCase struct {
	V    absState `json:"v"`
	W    absState `json:"w"`
	Name string   `json:"name"`
	Eq   struct {
		State    bool   `json:"state"`
		Alloc    bool   `json:"alloc"`
		Bals     bool   `json:"bals"`
		Locked   bool   `json:"locked"`
		Assets   bool   `json:"assets"`
		Backends bool   `json:"backends"`
		Sub      []bool `json:"sub"`
	} `json:"eq"`
	EncEq bool `json:"enceq"`
	line  string
}

func encOf(f func(*bytes.Buffer) error) (b []byte, ok bool) {
	var buf bytes.Buffer
	err, pan := guard(func() error { return f(&buf) })
	return buf.Bytes(), err == nil && pan == ""
}

// TestWirePair: C15. For every pair (v, w) of states differing in exactly one
// field (and identical pairs built independently) the real comparison
// functions are compared with bytes.Equal of the real encodings (the
// property's oracle) and with the specification's verdict; channel.Verify is
// compared with "same signer and equal state" for every (signer, verifier).
func TestWirePair(t *testing.T) {
	path := casesPath(t)
	res := drv.NewResult("wire-pair")
	defer func() {
		if err := res.Write(); err != nil {
			t.Fatal(err)
		}
	}()
	w := newWorld(drv.Seed())
	var cases []*pairCase
	if err := readLines(path, func(js string) error {
		c := &pairCase{line: js}
		if err := json.Unmarshal([]byte(js), c); err != nil {
			return fmt.Errorf("json %s: %w", short(js, 80), err)
		}
		cases = append(cases, c)
		return nil
	}); err != nil {
		t.Fatal(err)
	}
	res.Add("cases", len(cases))
	drv.Parallel(len(cases), drv.EnvInt("VERIF_WORKERS", 16), func(i int) {
		c := cases[i]
		rp := replayOf("TestWirePair", c.line)
		sv, sw := w.state(&c.V), w.state(&c.W)
		// the second value in the OTHER representation of "nothing": nil where the first has an empty slice and vice
		// versa (index maps, the list of locked sub-allocations) - the encodings do not tell them apart, nor may Equal
		if sw != nil {
			for k := range sw.Locked {
				if sw.Locked[k].IndexMap == nil {
					sw.Locked[k].IndexMap = []channel.Index{}
				} else if len(sw.Locked[k].IndexMap) == 0 {
					sw.Locked[k].IndexMap = nil
				}
			}
			if sw.Locked == nil {
				sw.Locked = []channel.SubAlloc{}
			} else if len(sw.Locked) == 0 {
				sw.Locked = nil
			}
		}
		res.Seen("case", c.Name)
		desc := func() string {
			return fmt.Sprintf("pair '%s': v = %s, w = %s", c.Name, short(canon(&c.V), 400), short(canon(&c.W), 400))
		}
		var wrong []string
		// one comparison: real verdict (both directions), encodings, specification
		cmp := func(fn string, real func(swap bool) bool, ev, ew func(*bytes.Buffer) error, model bool) {
			res.Add("comparisons", 1)
			var r1, r2 bool
			if _, pan := guard(func() error { r1 = real(false); r2 = real(true); return nil }); pan != "" {
				res.Violate("C15", "monitor", "panic|"+fn+"|"+c.Name, fn+" panicked: "+pan+"; "+desc(), rp)
				return
			}
			if r1 != r2 {
				res.Violate("C15", "monitor", "asymmetric|"+fn+"|"+c.Name, fmt.Sprintf("%s is not symmetric: v~w %v, w~v %v; %s", fn, r1, r2, desc()), rp)
			}
			bv, okv := encOf(ev)
			bw, okw := encOf(ew)
			if !okv || !okw {
				res.Add("unencodable", 1)
				if r1 != model {
					res.Violate("C15", "conformance", "model|"+fn+"|"+c.Name, fmt.Sprintf("%s returns %v, specification says equal=%v (values not encodable); %s", fn, r1, model, desc()), rp)
				}
				return
			}
			be := bytes.Equal(bv, bw)
			if r1 != be || r2 != be {
				what := "compares the two values as EQUAL although their encodings differ"
				if be {
					what = "compares the two values as DIFFERENT although their encodings are identical"
				}
				wrong = append(wrong, fn+" "+what)
				return
			}
			if be != model {
				res.Violate("C15", "conformance", "model|"+fn+"|"+c.Name, fmt.Sprintf("%s and the encodings agree (equal=%v) but the specification says equal=%v; %s", fn, be, model, desc()), rp)
			}
		}
		pick := func(swap bool) (*channel.State, *channel.State) {
			if swap {
				return sw, sv
			}
			return sv, sw
		}
		cmp("State.Equal", func(s bool) bool { a, b := pick(s); return a.Equal(b) == nil },
			func(b *bytes.Buffer) error { return sv.Encode(b) }, func(b *bytes.Buffer) error { return sw.Encode(b) }, c.Eq.State)
		cmp("Allocation.Equal", func(s bool) bool { a, b := pick(s); return a.Allocation.Equal(&b.Allocation) == nil },
			func(b *bytes.Buffer) error { return sv.Allocation.Encode(b) }, func(b *bytes.Buffer) error { return sw.Allocation.Encode(b) }, c.Eq.Alloc)
		cmp("Balances.Equal", func(s bool) bool { a, b := pick(s); return a.Balances.Equal(b.Balances) },
			func(b *bytes.Buffer) error { return sv.Balances.Encode(b) }, func(b *bytes.Buffer) error { return sw.Balances.Encode(b) }, c.Eq.Bals)
		cmp("Balances.AssertEqual", func(s bool) bool { a, b := pick(s); return a.Balances.AssertEqual(b.Balances) == nil },
			func(b *bytes.Buffer) error { return sv.Balances.Encode(b) }, func(b *bytes.Buffer) error { return sw.Balances.Encode(b) }, c.Eq.Bals)
		encLocked := func(s *channel.State) func(*bytes.Buffer) error {
			return func(b *bytes.Buffer) error {
				b.WriteByte(byte(len(s.Locked)))
				for i := range s.Locked {
					if err := s.Locked[i].Encode(b); err != nil {
						return err
					}
				}
				return nil
			}
		}
		cmp("SubAllocsAssertEqual", func(s bool) bool { a, b := pick(s); return channel.SubAllocsAssertEqual(a.Locked, b.Locked) == nil }, encLocked(sv), encLocked(sw), c.Eq.Locked)
		cmp("SubAllocsEqual", func(s bool) bool { a, b := pick(s); return channel.SubAllocsEqual(a.Locked, b.Locked) }, encLocked(sv), encLocked(sw), c.Eq.Locked)
		encAssets := func(s *channel.State) func(*bytes.Buffer) error {
			return func(b *bytes.Buffer) error {
				b.WriteByte(byte(len(s.Assets)))
				for _, a := range s.Assets {
					x, err := a.MarshalBinary()
					if err != nil {
						return err
					}
					b.Write(x)
				}
				return nil
			}
		}
		cmp("AssertAssetsEqual", func(s bool) bool { a, b := pick(s); return channel.AssertAssetsEqual(a.Assets, b.Assets) == nil }, encAssets(sv), encAssets(sw), c.Eq.Assets)
		encBackends := func(s *channel.State) func(*bytes.Buffer) error {
			return func(b *bytes.Buffer) error {
				b.WriteByte(byte(len(s.Backends)))
				for _, x := range s.Backends {
					fmt.Fprintf(b, "%d,", int(x))
				}
				return nil
			}
		}
		cmp("AssertBackendsEqual", func(s bool) bool { a, b := pick(s); return channel.AssertBackendsEqual(a.Backends, b.Backends) == nil }, encBackends(sv), encBackends(sw), c.Eq.Backends)
		for k := range c.Eq.Sub {
			k := k
			cmp("SubAlloc.Equal", func(s bool) bool { a, b := pick(s); return a.Locked[k].Equal(&b.Locked[k]) == nil },
				func(b *bytes.Buffer) error { return sv.Locked[k].Encode(b) }, func(b *bytes.Buffer) error { return sw.Locked[k].Encode(b) }, c.Eq.Sub[k])
		}
		if len(wrong) > 0 {
			res.Violate("C15", "monitor", "equal-vs-encoding|"+c.Name, fmt.Sprintf("%s (specification: states equal=%v); %s", strings.Join(wrong, "; "), c.Eq.State, desc()), rp)
		}
		// signatures: (signer p, state v, other state w, verifying participant q)
		np := 2
		if len(c.V.Alloc.Bals) > 0 && len(c.V.Alloc.Bals[0]) > np {
			np = len(c.V.Alloc.Bals[0])
		}
		if np > 3 {
			np = 3
		}
		for p := 1; p <= np; p++ {
			acc := w.accs[fmt.Sprintf("W%d", p)]
			var sig wallet.Sig
			if err, pan := guard(func() (e error) { sig, e = channel.Sign(acc, sv, channel.TestBackendID); return }); err != nil || pan != "" {
				res.Add("unsignable", 1)
				continue
			}
			for q := 1; q <= np; q++ {
				addr := w.accs[fmt.Sprintf("W%d", q)].Address()
				var ok bool
				err, pan := guard(func() (e error) { ok, e = channel.Verify(addr, sw, append(wallet.Sig(nil), sig...)); return })
				res.Add("verifications", 1)
				want := p == q && c.Eq.State
				switch {
				case pan != "":
					res.Violate("C15", "monitor", "panic|Verify|"+c.Name, "channel.Verify panicked: "+pan+"; "+desc(), rp)
				case err != nil && want:
					res.Violate("C15", "monitor", "verify-error|"+c.Name, fmt.Sprintf("channel.Verify failed on the signer's own signature over an equal state: %v; %s", err, desc()), rp)
				case ok && !want && p != q:
					res.Violate("C15", "monitor", "sig-other-participant|"+c.Name, fmt.Sprintf("the signature of participant %d verifies for participant %d; %s", p-1, q-1, desc()), rp)
				case ok && !want:
					res.Violate("C15", "monitor", "sig-other-state|"+c.Name, fmt.Sprintf("a signature over v verifies for the different state w (single-field change '%s'); %s", c.Name, desc()), rp)
				case !ok && want:
					res.Violate("C15", "monitor", "sig-refused|"+c.Name, fmt.Sprintf("a participant's signature does not verify for an equal state; %s", desc()), rp)
				}
			}
		}
	})
	for i := 0; i < len(cases) && i < 3; i++ {
		c := cases[(i*7919)%len(cases)]
		res.Sample(map[string]any{"name": c.Name, "v": c.V, "w": c.W, "equal": c.Eq.State})
	}
}
