package wiredrv

import (
	"bytes"
	"encoding/json"
	"fmt"
	"io"

	"perun.network/go-perun/channel"
	"perun.network/go-perun/wallet"
	"perun.network/go-perun/wire"
	"perun.network/go-perun/wire/perunio"
	perunioser "perun.network/go-perun/wire/perunio/serializer"
	"perun.network/go-perun/wire/protobuf"
)

// A codec binds one value type of Wire.tla ("ty") to the real encoder and
// decoder and to the harness' projection.
type codec struct {
	// abs parses the abstract value into the harness' struct (for canon()).
	abs func(raw json.RawMessage) (any, error)
	// build makes the real value from the abstract one.
	build func(w *world, a any) any
	// encode runs the real encoder.
	encode func(v any, out io.Writer) error
	// decode runs the real decoder on r.
	decode func(r io.Reader) (any, error)
	// project maps a real value to the abstract struct.
	project func(w *world, v any) any
	// site names the decoder for signatures.
	site string
}

func absOf[T any](raw json.RawMessage) (any, error) {
	var v T
	err := json.Unmarshal(raw, &v)
	return &v, err
}

var (
	nativeSer = perunioser.Serializer()
	protoSer  = protobuf.Serializer()
)

var codecs = map[string]*codec{
	"Envelope": {
		abs:     absOf[absEnv],
		build:   func(w *world, a any) any { return w.env(a.(*absEnv)) },
		encode:  func(v any, out io.Writer) error { return nativeSer.Encode(out, v.(*wire.Envelope)) },
		decode:  func(r io.Reader) (any, error) { return nativeSer.Decode(r) },
		project: func(w *world, v any) any { return w.pEnv(v.(*wire.Envelope)) },
		site:    "perunio/serializer.Decode",
	},
	"State": {
		abs:     absOf[absState],
		build:   func(w *world, a any) any { return w.state(a.(*absState)) },
		encode:  func(v any, out io.Writer) error { return v.(*channel.State).Encode(out) },
		decode:  func(r io.Reader) (any, error) { s := new(channel.State); return s, s.Decode(r) },
		project: func(w *world, v any) any { return w.pState(v.(*channel.State)) },
		site:    "channel.(*State).Decode",
	},
	"Allocation": {
		abs:     absOf[absAlloc],
		build:   func(w *world, a any) any { al := w.alloc(a.(*absAlloc)); return &al },
		encode:  func(v any, out io.Writer) error { return v.(*channel.Allocation).Encode(out) },
		decode:  func(r io.Reader) (any, error) { s := new(channel.Allocation); return s, s.Decode(r) },
		project: func(w *world, v any) any { return w.pAlloc(v.(*channel.Allocation)) },
		site:    "channel.(*Allocation).Decode",
	},
	"Balances": {
		abs:     absOf[[][]int64],
		build:   func(w *world, a any) any { b := w.bals(*a.(*[][]int64)); return &b },
		encode:  func(v any, out io.Writer) error { return v.(*channel.Balances).Encode(out) },
		decode:  func(r io.Reader) (any, error) { s := new(channel.Balances); return s, s.Decode(r) },
		project: func(w *world, v any) any { p := pBals(*v.(*channel.Balances)); return &p },
		site:    "channel.(*Balances).Decode",
	},
	"SubAlloc": {
		abs:     absOf[absSub],
		build:   func(w *world, a any) any { s := w.sub(*a.(*absSub)); return &s },
		encode:  func(v any, out io.Writer) error { return v.(*channel.SubAlloc).Encode(out) },
		decode:  func(r io.Reader) (any, error) { s := new(channel.SubAlloc); return s, s.Decode(r) },
		project: func(w *world, v any) any { p := w.pSub(v.(*channel.SubAlloc)); return &p },
		site:    "channel.(*SubAlloc).Decode",
	},
	"Params": {
		abs:     absOf[absParams],
		build:   func(w *world, a any) any { return w.params(a.(*absParams)) },
		encode:  func(v any, out io.Writer) error { return v.(*channel.Params).Encode(out) },
		decode:  func(r io.Reader) (any, error) { s := new(channel.Params); return s, s.Decode(r) },
		project: func(w *world, v any) any { return w.pParams(v.(*channel.Params)) },
		site:    "channel.(*Params).Decode",
	},
	"Transaction": {
		abs:     absOf[absTx],
		build:   func(w *world, a any) any { t := w.tx(a.(*absTx)); return &t },
		encode:  func(v any, out io.Writer) error { return v.(*channel.Transaction).Encode(out) },
		decode:  func(r io.Reader) (any, error) { s := new(channel.Transaction); return s, s.Decode(r) },
		project: func(w *world, v any) any { return w.pTx(v.(*channel.Transaction)) },
		site:    "channel.(*Transaction).Decode",
	},
	"WalletAddrMap": {
		abs:     absOf[absMap],
		build:   func(w *world, a any) any { m := wallet.AddressDecMap(w.wmap(*a.(*absMap))); return &m },
		encode:  func(v any, out io.Writer) error { return v.(*wallet.AddressDecMap).Encode(out) },
		decode:  func(r io.Reader) (any, error) { s := new(wallet.AddressDecMap); return s, s.Decode(r) },
		project: func(w *world, v any) any { p := w.pWMap(*v.(*wallet.AddressDecMap)); return &p },
		site:    "wallet.(*AddressDecMap).Decode",
	},
	"WalletAddrMapArray": {
		abs:     absOf[[]absMap],
		build:   func(w *world, a any) any { return &wallet.AddressMapArray{Addr: w.warr(*a.(*[]absMap))} },
		encode:  func(v any, out io.Writer) error { return v.(*wallet.AddressMapArray).Encode(out) },
		decode:  func(r io.Reader) (any, error) { s := new(wallet.AddressMapArray); return s, s.Decode(r) },
		project: func(w *world, v any) any { p := w.pWArr(v.(*wallet.AddressMapArray).Addr); return &p },
		site:    "wallet.(*AddressMapArray).Decode",
	},
	"WireAddrMap": {
		abs:     absOf[absMap],
		build:   func(w *world, a any) any { m := wire.AddressDecMap(w.nmap(*a.(*absMap))); return &m },
		encode:  func(v any, out io.Writer) error { return v.(*wire.AddressDecMap).Encode(out) },
		decode:  func(r io.Reader) (any, error) { s := new(wire.AddressDecMap); return s, s.Decode(r) },
		project: func(w *world, v any) any { p := w.pNMap(*v.(*wire.AddressDecMap)); return &p },
		site:    "wire.(*AddressDecMap).Decode",
	},
	"WireAddrMapArray": {
		abs:     absOf[[]absMap],
		build:   func(w *world, a any) any { m := wire.AddressMapArray(w.narr(*a.(*[]absMap))); return &m },
		encode:  func(v any, out io.Writer) error { return v.(*wire.AddressMapArray).Encode(out) },
		decode:  func(r io.Reader) (any, error) { s := new(wire.AddressMapArray); return s, s.Decode(r) },
		project: func(w *world, v any) any { p := w.pNArr(*v.(*wire.AddressMapArray)); return &p },
		site:    "wire.(*AddressMapArray).Decode",
	},
}

var _ = perunio.Encode

// encBytes runs the real encoder under recover.
func (c *codec) encBytes(v any) (b []byte, err error, pan string) {
	var buf bytes.Buffer
	err, pan = guard(func() error { return c.encode(v, &buf) })
	return buf.Bytes(), err, pan
}

// decBytes runs the real decoder under recover on a reader over b (bytes.Buffer:
// never reports EOF together with data, returns nil error on empty reads of
// zero length).
func (c *codec) decBytes(b []byte) (v any, rest int, err error, pan string) {
	r := bytes.NewBuffer(append([]byte(nil), b...))
	err, pan = guard(func() error {
		var e error
		v, e = c.decode(r)
		return e
	})
	return v, r.Len(), err, pan
}

func (c *codec) describe(w *world, v any) string {
	_, pan := guard(func() error { _ = canon(c.project(w, v)); return nil })
	if pan != "" {
		return "<projection panicked: " + pan + ">"
	}
	return canon(c.project(w, v))
}

func mustCodec(ty string) *codec {
	c := codecs[ty]
	if c == nil {
		panic(fmt.Sprintf("wiredrv: no codec for type %q", ty))
	}
	return c
}
