package wiredrv

import (
	"bytes"
	"encoding/json"
	"fmt"
	"os"
	"reflect"
	"sort"
	"testing"

	"perun.network/go-perun/wire"
	"verif/harness/drv"
)

type replay struct {
	Driver string   `json:"driver"`
	Test   string   `json:"test"`
	Seed   int64    `json:"seed"`
	Lines  []string `json:"lines"`
}

func replayOf(test string, lines ...string) any {
	return replay{Driver: "wire", Test: test, Seed: drv.Seed(), Lines: lines}
}

type encCase struct {
	Ty   string          `json:"ty"`
	V    json.RawMessage `json:"v"`
	Toks []tok           `json:"toks"`
	Alts [][]tok         `json:"alts"`
	line string
}

func casesPath(t *testing.T) string {
	p := os.Getenv("VERIF_CASES")
	if p == "" {
		t.Skip("VERIF_CASES not set")
	}
	return p
}

// firstDiff returns the path of the first difference of two JSON documents.
func firstDiff(a, b string) string {
	var x, y any
	_ = json.Unmarshal([]byte(a), &x)
	_ = json.Unmarshal([]byte(b), &y)
	return diffPath(x, y, "")
}

func diffPath(x, y any, path string) string {
	if reflect.DeepEqual(x, y) {
		return ""
	}
	switch a := x.(type) {
	case map[string]any:
		b, ok := y.(map[string]any)
		if !ok {
			return path
		}
		keys := map[string]bool{}
		for k := range a {
			keys[k] = true
		}
		for k := range b {
			keys[k] = true
		}
		var ks []string
		for k := range keys {
			ks = append(ks, k)
		}
		sort.Strings(ks)
		for _, k := range ks {
			if d := diffPath(a[k], b[k], path+"."+k); d != "" {
				return d
			}
		}
	case []any:
		b, ok := y.([]any)
		if !ok || len(a) != len(b) {
			return path
		}
		for i := range a {
			if d := diffPath(a[i], b[i], path); d != "" {
				return d
			}
		}
	}
	if path == "" {
		return "."
	}
	return path
}

func msgType(ty string, abs any) string {
	if e, ok := abs.(*absEnv); ok && e.Msg != nil {
		return e.Msg.T
	}
	return ty
}

var sentinel = []byte{0xEE, 0x00, 0xDD, 0x01, 0xCC}

// firstDiffTok names the token in which two byte strings first differ.
func firstDiffTok(toks []tok, bounds []int, a, b []byte) string {
	n := len(a)
	if len(b) < n {
		n = len(b)
	}
	at := n
	for i := 0; i < n; i++ {
		if a[i] != b[i] {
			at = i
			break
		}
	}
	for i := range toks {
		if at < bounds[i+1] {
			return toks[i].K + "/" + toks[i].R
		}
	}
	return "length"
}

// TestWireEnc: C14. For every abstract value exported by Wire.tla: the real
// encoder produces exactly the bytes of the specification's token stream;
// the real decoder returns a value whose projection is the abstract value
// and leaves exactly the sentinel unread; re-encoding reproduces the bytes;
// consecutive envelopes decode in order; the protobuf serializer decodes what
// it encoded to the same abstract value as the native one.
func TestWireEnc(t *testing.T) {
	path := casesPath(t)
	res := drv.NewResult("wire-enc")
	defer func() {
		if err := res.Write(); err != nil {
			t.Fatal(err)
		}
	}()
	w := newWorld(drv.Seed())
	var cases []*encCase
	if err := readLines(path, func(js string) error {
		c := &encCase{line: js}
		if err := json.Unmarshal([]byte(js), c); err != nil {
			return fmt.Errorf("json %s: %w", short(js, 80), err)
		}
		cases = append(cases, c)
		return nil
	}); err != nil {
		t.Fatal(err)
	}
	res.Add("cases", len(cases))
	type envInfo struct {
		c      *encCase
		want   string
		native []byte
		proto  []byte
		mt     string
	}
	envs := make([]*envInfo, len(cases))
	drv.Parallel(len(cases), drv.EnvInt("VERIF_WORKERS", 16), func(i int) {
		c := cases[i]
		cd := mustCodec(c.Ty)
		abs, err := cd.abs(c.V)
		if err != nil {
			panic(err)
		}
		want := canon(abs)
		mt := msgType(c.Ty, abs)
		rp := replayOf("TestWireEnc", c.line)
		res.Seen("case", c.Ty+"|"+mt)
		var val any
		if _, pan := guard(func() error { val = cd.build(w, abs); return nil }); pan != "" {
			res.Violate("C14", "monitor", "build-panic|"+mt, "constructing the value panicked: "+pan+"; "+short(want, 300), rp)
			return
		}
		spec, bounds := w.stream(c.Toks)
		accept := [][]byte{spec}
		for _, a := range c.Alts {
			b, _ := w.stream(a)
			accept = append(accept, b)
		}
		oneOf := func(b []byte) bool {
			for _, a := range accept {
				if bytes.Equal(a, b) {
					return true
				}
			}
			return false
		}
		// (a) translation validation of the format
		real, err, pan := cd.encBytes(val)
		res.Add("checks", 1)
		switch {
		case pan != "":
			res.Violate("C14", "monitor", "encode-panic|"+mt+"|"+panicSite(pan), fmt.Sprintf("encoding a well-formed %s panicked: %s; value %s", mt, pan, short(want, 400)), rp)
			return
		case err != nil:
			res.Violate("C14", "monitor", "encode-error|"+mt, fmt.Sprintf("encoding a well-formed %s failed: %v; value %s", mt, err, short(want, 400)), rp)
			return
		case !oneOf(real):
			// a deviation from the format as specified in Wire.tla is drift, not a verdict: C14 is about round trips, exact
			// consumption, stability and agreement of the serializers - which the monitors below check on the real bytes
			res.Violate("C14", "conformance", "format|"+mt+"|"+firstDiffTok(c.Toks, bounds, spec, real),
				fmt.Sprintf("the encoder does not produce the specified format for %s: first difference in token %s; specification %d bytes %x..., encoder %d bytes %x...; value %s",
					mt, firstDiffTok(c.Toks, bounds, spec, real), len(spec), spec[:min(len(spec), 48)], len(real), real[:min(len(real), 48)], short(want, 300)), rp)
			accept = [][]byte{real} // the round trip is judged on what the encoder really wrote
		}
		// (b),(c) decode every admissible encoding followed by a sentinel
		for _, b := range accept {
			res.Add("checks", 1)
			v, rest, err, pan := cd.decBytes(append(append([]byte(nil), b...), sentinel...))
			switch {
			case pan != "":
				res.Violate("C14", "monitor", "decode-panic|"+mt+"|"+panicSite(pan), fmt.Sprintf("decoding the encoding of a well-formed %s panicked: %s; value %s", mt, pan, short(want, 400)), rp)
				continue
			case err != nil:
				res.Violate("C14", "monitor", "decode-error|"+mt, fmt.Sprintf("decoding the encoding of a well-formed %s failed: %v; value %s", mt, err, short(want, 400)), rp)
				continue
			}
			if rest != len(sentinel) {
				res.Violate("C14", "monitor", "consumed|"+mt, fmt.Sprintf("decoding %s consumed %d bytes of an encoding of %d bytes (%d of %d sentinel bytes left); value %s",
					mt, len(b)+len(sentinel)-rest, len(b), rest, len(sentinel), short(want, 300)), rp)
			}
			got := cd.describe(w, v)
			if got != want {
				d := firstDiff(want, got)
				res.Violate("C14", "monitor", "roundtrip|"+mt+"|"+d, fmt.Sprintf("Decode(Encode(v)) differs from v at %s for %s: encoded %s, decoded %s", d, mt, short(want, 500), short(got, 500)), rp)
				continue
			}
			re, err, pan := cd.encBytes(v)
			if pan != "" || err != nil {
				res.Violate("C14", "monitor", "reencode-failed|"+mt, fmt.Sprintf("re-encoding a decoded %s failed: %v %s", mt, err, pan), rp)
			} else if !bytes.Equal(re, b) && !(len(accept) > 1 && oneOf(re)) {
				res.Violate("C14", "monitor", "reencode|"+mt+"|"+firstDiffTok(c.Toks, bounds, b, re), fmt.Sprintf("re-encoding a decoded %s does not reproduce the bytes it was decoded from (first difference in token %s); value %s",
					mt, firstDiffTok(c.Toks, bounds, b, re), short(want, 300)), rp)
			}
		}
		if c.Ty != "Envelope" {
			return
		}
		info := &envInfo{c: c, want: want, native: real, mt: mt}
		envs[i] = info
		// (e) protobuf serializer
		env := val.(*wire.Envelope)
		var pb bytes.Buffer
		res.Add("checks", 1)
		err, pan = guard(func() error { return protoSer.Encode(&pb, env) })
		switch {
		case pan != "":
			res.Violate("C14", "monitor", "proto-encode-panic|"+mt+"|"+panicSite(pan), fmt.Sprintf("the protobuf serializer panicked while encoding a %s that the native serializer encodes: %s; value %s", mt, pan, short(want, 400)), rp)
			return
		case err != nil:
			res.Violate("C14", "monitor", "proto-encode-error|"+mt, fmt.Sprintf("the protobuf serializer cannot encode a %s that the native serializer encodes: %v; value %s", mt, err, short(want, 400)), rp)
			return
		}
		info.proto = append([]byte(nil), pb.Bytes()...)
		rd := bytes.NewBuffer(append(append([]byte(nil), info.proto...), sentinel...))
		var penv *wire.Envelope
		err, pan = guard(func() error { var e error; penv, e = protoSer.Decode(rd); return e })
		switch {
		case pan != "":
			res.Violate("C14", "monitor", "proto-decode-panic|"+mt+"|"+panicSite(pan), fmt.Sprintf("the protobuf serializer panicked decoding its own encoding of a %s: %s; value %s", mt, pan, short(want, 400)), rp)
			return
		case err != nil:
			res.Violate("C14", "monitor", "proto-decode-error|"+mt, fmt.Sprintf("the protobuf serializer cannot decode its own encoding of a %s: %v; value %s", mt, err, short(want, 400)), rp)
			return
		}
		if rd.Len() != len(sentinel) {
			res.Violate("C14", "monitor", "proto-consumed|"+mt, fmt.Sprintf("protobuf decoding of a %s left %d bytes unread, expected the %d sentinel bytes", mt, rd.Len(), len(sentinel)), rp)
		}
		var got string
		if _, pan := guard(func() error { got = canon(w.pEnv(penv)); return nil }); pan != "" {
			res.Violate("C14", "monitor", "proto-value-unusable|"+mt, "projecting the envelope decoded by the protobuf serializer panicked: "+pan, rp)
			return
		}
		if got != want {
			d := firstDiff(want, got)
			info.proto = nil
			res.Violate("C14", "monitor", "proto-roundtrip|"+lastPart(d), fmt.Sprintf("the protobuf serializer does not return the envelope it was given (and the native serializer returns): difference at %s in a %s: sent %s, received %s",
				d, mt, short(want, 500), short(got, 500)), rp)
		}
	})
	// (d) consecutive envelopes on one stream
	var list []*envInfo
	for _, e := range envs {
		if e != nil {
			list = append(list, e)
		}
	}
	for i := 0; i+2 < len(list); i += 1 {
		for _, n := range []int{2, 3} {
			group := list[i : i+n]
			var nat, pro []byte
			var lines []string
			okProto := true
			for _, g := range group {
				nat = append(nat, g.native...)
				if g.proto == nil {
					okProto = false
				}
				pro = append(pro, g.proto...)
				lines = append(lines, g.c.line)
			}
			check := func(name string, ser wire.EnvelopeSerializer, b []byte) {
				res.Add("checks", 1)
				res.Add("concatenations", 1)
				rd := bytes.NewBuffer(append(append([]byte(nil), b...), sentinel...))
				for k, g := range group {
					var env *wire.Envelope
					err, pan := guard(func() error { var e error; env, e = ser.Decode(rd); return e })
					if pan != "" || err != nil {
						res.Violate("C14", "monitor", "concat|"+name, fmt.Sprintf("%s serializer: envelope %d of %d consecutive envelopes (%s after %s) does not decode: %v %s", name, k+1, n, g.mt, group[0].mt, err, pan), replayOf("TestWireEnc", lines...))
						return
					}
					if got := canon(w.pEnv(env)); got != g.want {
						res.Violate("C14", "monitor", "concat|"+name, fmt.Sprintf("%s serializer: envelope %d of %d consecutive envelopes decodes to another envelope: sent %s, received %s", name, k+1, n, short(g.want, 300), short(got, 300)), replayOf("TestWireEnc", lines...))
						return
					}
				}
				if rd.Len() != len(sentinel) {
					res.Violate("C14", "monitor", "concat|"+name, fmt.Sprintf("%s serializer: %d bytes left after %d consecutive envelopes, expected the %d sentinel bytes", name, rd.Len(), n, len(sentinel)), replayOf("TestWireEnc", lines...))
				}
			}
			check("native", nativeSer, nat)
			if okProto {
				check("protobuf", protoSer, pro)
			}
		}
	}
	for i := 0; i < len(cases) && i < 3; i++ {
		c := cases[(i*7919)%len(cases)]
		res.Sample(map[string]any{"ty": c.Ty, "v": c.V, "tokens": len(c.Toks)})
	}
}

func lastPart(path string) string {
	for i := len(path) - 1; i >= 0; i-- {
		if path[i] == '.' {
			return path[i+1:]
		}
	}
	return path
}
