// Package scen runs the repository's own client scenarios (client/test roles) with a recording persister and writes
// the machine-level trace of every (client, channel) for validation against Machine.tla by TLC (MachineTrace.tla).
package scen

import (
	"context"
	"encoding/json"
	"fmt"
	"math/big"
	"math/rand"
	"os"
	"strings"
	"sync"
	"testing"
	"time"

	"perun.network/go-perun/apps/payment"
	_ "perun.network/go-perun/backend/sim" // backend init
	"perun.network/go-perun/channel"
	"perun.network/go-perun/channel/persistence"
	"perun.network/go-perun/channel/persistence/keyvalue"
	chtest "perun.network/go-perun/channel/test"
	"perun.network/go-perun/client"
	ctest "perun.network/go-perun/client/test"
	"perun.network/go-perun/wallet"
	wtest "perun.network/go-perun/wallet/test"
	"perun.network/go-perun/watcher/local"
	"perun.network/go-perun/wire"
	wiretest "perun.network/go-perun/wire/test"
	"polycry.pt/poly-go/sortedkv/memorydb"
	"verif/harness/drv"
)

// line is one trace line: the kind of persister call and the projection of the machine afterwards.
type line struct {
	Ev      string `json:"ev"`
	Who     string `json:"who"`
	Ch      string `json:"ch"`
	I       int    `json:"i"`
	Ph      string `json:"ph"`
	Adopted bool   `json:"adopted"`
	Cv      int    `json:"cv"`
	Cf      bool   `json:"cf"`
	Csig    []bool `json:"csig"`
	Sv      int    `json:"sv"`
	Sf      bool   `json:"sf"`
	Shas    []bool `json:"shas"`
	Sval    []bool `json:"sval"`
	Scen    string `json:"scen"`
}

type recorder struct {
	mu    sync.Mutex
	scen  string
	lines map[string][]line // per who|channel
	order []string
	maxV  int
	nonN2 int
}

func (r *recorder) add(who, kind string, idx int, s channel.Source) {
	n := len(s.Params().Parts)
	l := line{Ev: kind, Who: who, Ch: fmt.Sprintf("%x", s.ID()), I: idx, Ph: s.Phase().String(), Cv: -1, Sv: -1,
		Csig: make([]bool, n), Shas: make([]bool, n), Sval: make([]bool, n)}
	valid := func(st *channel.State, sigs []wallet.Sig, i int) bool {
		if i >= len(sigs) || sigs[i] == nil {
			return false
		}
		for _, a := range s.Params().Parts[i] {
			ok, err := channel.Verify(a, st, sigs[i])
			if err != nil || !ok {
				return false
			}
		}
		return true
	}
	if cur := s.CurrentTX(); cur.State != nil {
		l.Cv, l.Cf = int(cur.Version), cur.IsFinal
		for i := 0; i < n; i++ {
			l.Csig[i] = valid(cur.State, cur.Sigs, i)
		}
	}
	if stg := s.StagingTX(); stg.State != nil {
		l.Sv, l.Sf = int(stg.Version), stg.IsFinal
		for i := 0; i < n; i++ {
			l.Shas[i] = i < len(stg.Sigs) && stg.Sigs[i] != nil
			l.Sval[i] = valid(stg.State, stg.Sigs, i)
		}
	}
	r.mu.Lock()
	defer r.mu.Unlock()
	l.Scen = r.scen
	if n != 2 {
		r.nonN2++
		return
	}
	key := r.scen + "|" + who + "|" + l.Ch
	if _, ok := r.lines[key]; !ok {
		r.order = append(r.order, key)
	}
	r.lines[key] = append(r.lines[key], l)
	for _, v := range []int{l.Cv, l.Sv} {
		if v > r.maxV {
			r.maxV = v
		}
	}
}

// tracePR forwards to a real persister and records every call.
type tracePR struct {
	persistence.PersistRestorer
	who string
	r   *recorder
}

func (p *tracePR) ChannelCreated(ctx context.Context, s channel.Source, peers []map[wallet.BackendID]wire.Address, parent *channel.ID) error {
	p.r.add(p.who, "created", -1, s)
	return p.PersistRestorer.ChannelCreated(ctx, s, peers, parent)
}
func (p *tracePR) ChannelRemoved(ctx context.Context, id channel.ID) error {
	p.r.mu.Lock()
	key := p.r.scen + "|" + p.who + "|" + fmt.Sprintf("%x", id)
	if ls, ok := p.r.lines[key]; ok && len(ls) > 0 {
		last := ls[len(ls)-1]
		last.Ev, last.Ph = "removed", "Withdrawn"
		p.r.lines[key] = append(ls, last)
	}
	p.r.mu.Unlock()
	return p.PersistRestorer.ChannelRemoved(ctx, id)
}
func (p *tracePR) Staged(ctx context.Context, s channel.Source) error {
	p.r.add(p.who, "staged", -1, s)
	return p.PersistRestorer.Staged(ctx, s)
}
func (p *tracePR) SigAdded(ctx context.Context, s channel.Source, idx channel.Index) error {
	p.r.add(p.who, "sigadded", int(idx), s)
	return p.PersistRestorer.SigAdded(ctx, s, idx)
}
func (p *tracePR) Enabled(ctx context.Context, s channel.Source) error {
	p.r.add(p.who, "enabled", -1, s)
	return p.PersistRestorer.Enabled(ctx, s)
}
func (p *tracePR) PhaseChanged(ctx context.Context, s channel.Source) error {
	p.r.add(p.who, "phase", -1, s)
	return p.PersistRestorer.PhaseChanged(ctx, s)
}

func setups(rng *rand.Rand, names []string, r *recorder) []ctest.RoleSetup {
	bus := wiretest.NewSerializingLocalBus()
	backend := ctest.NewMockBackend(rng, "1337")
	out := make([]ctest.RoleSetup, len(names))
	for i := range names {
		w, err := local.NewWatcher(backend)
		if err != nil {
			panic(err)
		}
		wl := map[wallet.BackendID]wtest.Wallet{channel.TestBackendID: wtest.NewWallet(channel.TestBackendID)}
		acc := wl[channel.TestBackendID].NewRandomAccount(rng)
		out[i] = ctest.RoleSetup{
			Name: names[i], Identity: wiretest.NewRandomAccountMap(rng, channel.TestBackendID), Bus: bus,
			Funder: backend.NewFunder(acc.Address()), Adjudicator: backend.NewAdjudicator(acc.Address()), Watcher: w, Wallet: wl,
			Timeout: 2 * time.Second, BalanceReader: backend.NewBalanceReader(acc.Address()), ChallengeDuration: 60, Errors: make(chan error),
			PR: &tracePR{PersistRestorer: keyvalue.NewPersistRestorer(memorydb.NewDatabase()), who: names[i], r: r},
		}
	}
	return out
}

func baseCfg(rng *rand.Rand, s []ctest.RoleSetup, a, b int64, app client.ProposalOpts) ctest.BaseExecConfig {
	return ctest.MakeBaseExecConfig(
		[2]map[wallet.BackendID]wire.Address{wire.AddressMapfromAccountMap(s[0].Identity), wire.AddressMapfromAccountMap(s[1].Identity)},
		[]channel.Asset{chtest.NewRandomAsset(rng, channel.TestBackendID)}, []wallet.BackendID{channel.TestBackendID},
		[][2]*big.Int{{big.NewInt(a), big.NewInt(b)}}, app)
}

// TestRepoScenarios runs the scenarios and writes the traces (VERIF_TRACE_OUT).
func TestRepoScenarios(t *testing.T) {
	out := os.Getenv("VERIF_TRACE_OUT")
	if out == "" {
		t.Skip()
	}
	res := drv.NewResult("scenarios")
	defer func() {
		if err := res.Write(); err != nil {
			t.Fatal(err)
		}
	}()
	rec := &recorder{lines: map[string][]line{}}
	rng := rand.New(rand.NewSource(drv.Seed()))
	want := os.Getenv("VERIF_SCENARIOS") // comma separated; empty: all
	run := func(name string, f func(t *testing.T)) {
		if want != "" && !strings.Contains(","+want+",", ","+name+",") {
			return
		}
		rec.mu.Lock()
		rec.scen = name
		rec.mu.Unlock()
		ok := t.Run(name, f)
		res.Add("scenarios", 1)
		if !ok {
			res.Add("scenarios_failed", 1)
			res.Note("scenario %s failed in the repository's own assertions (not judged here)", name)
		}
	}
	payApp := func() client.ProposalOpts {
		return client.WithApp(chtest.NewRandomAppAndData(rng, chtest.WithAppRandomizer(new(payment.Randomizer))))
	}
	ctxOf := func(d time.Duration) (context.Context, context.CancelFunc) {
		return context.WithTimeout(context.Background(), d)
	}
	run("payment", func(t *testing.T) {
		for _, app := range []client.ProposalOpts{client.WithoutApp(), payApp()} {
			s := setups(rng, []string{"Alice", "Bob"}, rec)
			ctx, c := ctxOf(20 * time.Second)
			ctest.ExecuteTwoPartyTest(ctx, t, [2]ctest.Executer{ctest.NewAlice(t, s[0]), ctest.NewBob(t, s[1])},
				&ctest.AliceBobExecConfig{BaseExecConfig: baseCfg(rng, s, 100, 100, app), NumPayments: [2]int{2, 2}, TxAmounts: [2]*big.Int{big.NewInt(5), big.NewInt(3)}})
			c()
		}
	})
	run("dispute", func(t *testing.T) {
		s := setups(rng, []string{"Mallory", "Carol"}, rec)
		ctx, c := ctxOf(20 * time.Second)
		defer c()
		ctest.ExecuteTwoPartyTest(ctx, t, [2]ctest.Executer{ctest.NewMallory(t, s[0]), ctest.NewCarol(t, s[1])},
			&ctest.MalloryCarolExecConfig{BaseExecConfig: baseCfg(rng, s, 100, 1, client.WithoutApp()), NumPayments: [2]int{5, 0}, TxAmounts: [2]*big.Int{big.NewInt(20), big.NewInt(0)}})
	})
	run("subchannel", func(t *testing.T) {
		s := setups(rng, []string{"Susie", "Tim"}, rec)
		ctx, c := ctxOf(20 * time.Second)
		defer c()
		cfg := ctest.NewSusieTimExecConfig(baseCfg(rng, s, 100, 100, client.WithoutApp()),
			[][2]*big.Int{{big.NewInt(10), big.NewInt(10)}, {big.NewInt(5), big.NewInt(5)}},
			[][2]*big.Int{{big.NewInt(3), big.NewInt(3)}, {big.NewInt(2), big.NewInt(2)}, {big.NewInt(1), big.NewInt(1)}},
			payApp(), big.NewInt(1))
		ctest.ExecuteTwoPartyTest(ctx, t, [2]ctest.Executer{ctest.NewSusie(t, s[0]), ctest.NewTim(t, s[1])}, cfg)
	})
	run("subchannel-dispute", func(t *testing.T) {
		s := setups(rng, []string{"DisputeSusie", "DisputeTim"}, rec)
		ctx, c := ctxOf(20 * time.Second)
		defer c()
		ctest.ExecuteTwoPartyTest(ctx, t, [2]ctest.Executer{ctest.NewDisputeSusie(t, s[0]), ctest.NewDisputeTim(t, s[1])},
			&ctest.DisputeSusieTimExecConfig{BaseExecConfig: baseCfg(rng, s, 100, 100, client.WithoutApp()), SubChannelFunds: [2]*big.Int{big.NewInt(10), big.NewInt(10)}, TxAmount: big.NewInt(1)})
	})
	run("progression", func(t *testing.T) {
		s := setups(rng, []string{"Paul", "Paula"}, rec)
		app := channel.NewMockApp(chtest.NewRandomAppID(rng, channel.TestBackendID))
		channel.RegisterApp(app)
		ctx, c := ctxOf(20 * time.Second)
		defer c()
		ctest.ExecuteTwoPartyTest(ctx, t, [2]ctest.Executer{ctest.NewPaul(t, s[0]), ctest.NewPaula(t, s[1])},
			&ctest.ProgressionExecConfig{BaseExecConfig: baseCfg(rng, s, 99, 1, client.WithApp(app, channel.NewMockOp(channel.OpValid)))})
	})
	run("persistence", func(t *testing.T) {
		s := setups(rng, []string{"Petra", "Robert"}, rec)
		ctx, c := ctxOf(20 * time.Second)
		defer c()
		ctest.ExecuteTwoPartyTest(ctx, t, [2]ctest.Executer{ctest.NewPetra(t, s[0]), ctest.NewRobert(t, s[1])},
			&ctest.AliceBobExecConfig{BaseExecConfig: baseCfg(rng, s, 100, 100, client.WithoutApp()), NumPayments: [2]int{2, 2}, TxAmounts: [2]*big.Int{big.NewInt(5), big.NewInt(3)}})
	})
	vsetup := func() ctest.VirtualChannelSetup {
		var cl [3]ctest.RoleSetup
		copy(cl[:], setups(rng, []string{"VAlice", "VBob", "VIngrid"}, rec))
		return ctest.VirtualChannelSetup{Clients: cl, ChallengeDuration: 10, Asset: chtest.NewRandomAsset(rng, channel.TestBackendID),
			Balances: ctest.VirtualChannelBalances{
				InitBalsAliceIngrid: []*big.Int{big.NewInt(10), big.NewInt(10)}, InitBalsBobIngrid: []*big.Int{big.NewInt(10), big.NewInt(10)},
				InitBalsAliceBob: []*big.Int{big.NewInt(5), big.NewInt(5)}, VirtualBalsUpdated: []*big.Int{big.NewInt(2), big.NewInt(8)},
				FinalBalsAlice: []*big.Int{big.NewInt(7), big.NewInt(13)}, FinalBalsBob: []*big.Int{big.NewInt(13), big.NewInt(7)}},
			BalanceDelta: big.NewInt(0), Rng: rng, WaitWatcherTimeout: 100 * time.Millisecond, IsUTXO: true}
	}
	run("virtual", func(t *testing.T) {
		ctx, c := ctxOf(20 * time.Second)
		defer c()
		ctest.TestVirtualChannelOptimistic(ctx, t, vsetup())
	})
	run("virtual-dispute", func(t *testing.T) {
		ctx, c := ctxOf(20 * time.Second)
		defer c()
		ctest.TestVirtualChannelDispute(ctx, t, vsetup())
	})
	// ---- write the traces: one per (scenario, client, channel), each started by a reset line ----
	f, err := os.Create(out)
	if err != nil {
		t.Fatal(err)
	}
	defer f.Close()
	enc := json.NewEncoder(f)
	rec.mu.Lock()
	defer rec.mu.Unlock()
	nl := 0
	for _, k := range rec.order {
		ls := rec.lines[k]
		first := ls[0]
		first.Ev = "reset"
		_ = enc.Encode(first)
		nl++
		for _, l := range ls[1:] {
			if l.Ev == "created" { // a restored channel is created again: same state, nothing to explain
				continue
			}
			_ = enc.Encode(l)
			nl++
		}
		res.Add("traces", 1)
	}
	res.Add("trace_lines", nl)
	res.Add("max_version", rec.maxV)
	res.Add("lines_of_channels_with_other_than_2_participants", rec.nonN2)
}
