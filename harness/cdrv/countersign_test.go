package cdrv

import (
	"bytes"
	"math/rand"
	"sync"

	"context"
	"encoding/json"
	"fmt"
	"math/big"
	"os"
	"perun.network/go-perun/apps/payment"
	simchannel "perun.network/go-perun/backend/sim/channel"
	"testing"
	"testing/synctest"

	"perun.network/go-perun/channel"
	"perun.network/go-perun/client"
	"perun.network/go-perun/wallet"
	"perun.network/go-perun/wire"
	"verif/harness/drv"
)

type csMsg struct {
	Sit    string `json:"sit"`
	Sig    string `json:"sig"`
	Ver    int    `json:"ver"`
	ID     bool   `json:"id"`
	Sum    string `json:"sum"`
	Actor  string `json:"actor"`
	Locked string `json:"locked"`
	Pay    string `json:"pay"`
	Fund   string `json:"fund"`
}

type csCase struct {
	Msg    csMsg  `json:"msg"`
	Mutant string `json:"mutant"`
	Expect string `json:"expect"`
	line   string
}

var (
	payAppOnce sync.Once
	payAppV    *payment.App
)

// payApp returns the payment app of the harness (registered once with the app registry).
func payApp() *payment.App {
	payAppOnce.Do(func() {
		payAppV = &payment.App{ID: simchannel.NewRandomAppID(rand.New(rand.NewSource(99)))}
		channel.RegisterApp(payAppV)
	})
	return payAppV
}

// pump delivers pending envelopes (except those `keep` selects) and lets H accept proposals, until nothing moves.
func pump(ctx context.Context, w *World, h *Party, keep func(*wire.Envelope) bool, results chan *client.Channel) {
	for round := 0; round < 300; round++ {
		moved := false
		if u := h.TakeUpdate(); u != nil { // during set-up the honest client's handler accepts the peer's honest updates
			go func() { _ = u.Resp.Accept(ctx) }()
			w.Quiesce()
			continue
		}
		if i := w.Bus.Find(func(e *wire.Envelope) bool { return keep == nil || !keep(e) }); i >= 0 {
			w.Bus.Deliver(i)
			moved = true
		} else if pp := h.TakeProposal(); pp != nil {
			go func() {
				var ch *client.Channel
				switch p := pp.Prop.(type) {
				case *client.LedgerChannelProposalMsg:
					ch, _ = pp.Resp.Accept(ctx, p.Accept(h.WalletAddr(), client.WithRandomNonce()))
				case *client.SubChannelProposalMsg:
					ch, _ = pp.Resp.Accept(ctx, p.Accept(client.WithRandomNonce()))
				}
				if results != nil {
					results <- ch
				}
			}()
			moved = true
		}
		w.Quiesce()
		if !moved {
			return
		}
	}
}

// runCountersignCase sets the situation up with real clients, injects the crafted update of the malicious
// peer P (signed with P's real key) and reports whether H published its countersignature for it.
func runCountersignCase(t *testing.T, c *csCase, proto bool, idx int) (signed bool, note string) {
	synctest.Test(t, func(t *testing.T) {
		NoWatcher = map[string]bool{}
		w := NewWorld(t, int64(idx)+1, "H", "P", "X")
		defer w.Close()
		h, p, x := w.P[0], w.P[1], w.P[2]
		var oopts []client.ProposalOpts
		if c.Msg.Sit == "app" {
			oopts = append(oopts, client.WithApp(payApp(), payment.Data()))
		}
		chP, chH, err := w.OpenLedgerChannel(p, h, 60, 10, 10, oopts...) // P is participant 0 and may propose sub-channels
		if err != nil {
			note = "setup: " + err.Error()
			return
		}
		ctx, cancel := context.WithCancel(context.Background())
		defer func() { cancel(); w.Quiesce() }()
		parentID := chH.ID()
		var honest *channel.State // the honest next state of the parent in this situation
		subID := channel.ID{0xab, 1}
		isParentUpd := func(e *wire.Envelope) bool {
			m, ok := e.Msg.(*client.ChannelUpdateMsg)
			return ok && m.State.ID == parentID
		}
		openSub := func(keepFunding bool) (subP, subH *client.Channel, held *channel.State, ok bool) {
			sprop, err := client.NewSubChannelProposal(parentID, 60, w.Alloc(3, 3))
			if err != nil {
				return
			}
			done := make(chan *client.Channel, 1)
			go func() { ch, _ := p.C.ProposeChannel(ctx, sprop); done <- ch }()
			w.Quiesce()
			subs := make(chan *client.Channel, 2)
			if keepFunding {
				pump(ctx, w, h, isParentUpd, subs) // everything but P's funding update of the parent
				i := w.Bus.Find(isParentUpd)
				if i < 0 {
					return
				}
				held = w.Bus.Pending[i].Msg.(*client.ChannelUpdateMsg).State.Clone()
				w.Bus.Drop(i)
				return nil, nil, held, true
			}
			pump(ctx, w, h, nil, subs)
			select {
			case subP = <-done:
			default:
				return
			}
			select {
			case subH = <-subs:
			default:
				return
			}
			return subP, subH, nil, subP != nil && subH != nil
		}
		var settleBase [2]int64 // parent balances when the sub-channel was finalised
		var settledID channel.ID
		switch c.Msg.Sit {
		case "funding":
			_, _, held, ok := openSub(true)
			if !ok {
				note = "setup: the honest funding update was not sent"
				return
			}
			honest = held
		case "locked":
			if _, _, _, ok := openSub(false); !ok {
				note = "setup: the sub-channel did not open"
				return
			}
		case "locked2":
			if _, _, _, ok := openSub(false); !ok {
				note = "setup: the first sub-channel did not open"
				return
			}
			if _, _, _, ok := openSub(false); !ok {
				note = "setup: the second sub-channel did not open"
				return
			}
		case "settle", "settle2":
			subP, subH, _, ok := openSub(false)
			if !ok {
				note = "setup: the sub-channel did not open"
				return
			}
			settledID = subH.ID()
			if c.Msg.Sit == "settle2" { // a second sub-channel stays open
				if _, _, _, ok := openSub(false); !ok {
					note = "setup: the second sub-channel did not open"
					return
				}
			}
			upd := func(ch *client.Channel, f func(*channel.State)) bool {
				done := make(chan error, 1)
				go func() { done <- ch.Update(ctx, f) }()
				w.Quiesce()
				pump(ctx, w, h, nil, nil)
				select {
				case err := <-done:
					return err == nil
				default:
					return false
				}
			}
			// the sub-channel is finalised at 2/4
			if !upd(subP, func(s *channel.State) {
				s.Balances[0][0], s.Balances[0][1] = big.NewInt(2), big.NewInt(4)
				s.IsFinal = true
			}) {
				note = "setup: the sub-channel could not be finalised"
				return
			}
			settleBase = [2]int64{7, 7}
			if c.Msg.Sit == "settle2" {
				settleBase = [2]int64{4, 4}
			}
			// then the parent is updated: P pays H 1 (7/7 -> 6/8)
			if !upd(chP, func(s *channel.State) {
				s.Balances[0][0] = new(big.Int).Sub(s.Balances[0][0], big.NewInt(1))
				s.Balances[0][1] = new(big.Int).Add(s.Balances[0][1], big.NewInt(1))
			}) {
				note = "setup: the parent payment failed"
				return
			}
			// H settles the sub-channel: it awaits (and accepts automatically) the parent update that withdraws it
			go func() { _ = subH.Settle(ctx, false) }()
			w.Quiesce()
		}
		w.PMu.Lock()
		var cur *channel.State
		for _, e := range w.PLog {
			if e.Who == "H" && e.Ch == parentID && e.Kind == "enabled" {
				cur = e.Cur.State.Clone()
			}
		}
		w.PMu.Unlock()
		if honest == nil {
			honest = cur.Clone()
			honest.Version++
		}
		if c.Msg.Sit == "settle" || c.Msg.Sit == "settle2" { // honest settlement: the sub-allocation goes, everybody is credited its final sub-channel balance
			if (c.Msg.Sit == "settle") != (len(cur.Locked) == 1) || len(cur.Locked) == 0 {
				note = "setup: unexpected parent state before settlement"
				return
			}
			honest.Locked = nil
			for _, sa := range cur.Clone().Locked {
				if sa.ID != settledID {
					honest.Locked = append(honest.Locked, sa)
				}
			}
			honest.Balances[0][0] = big.NewInt(cur.Balances[0][0].Int64() + 2)
			honest.Balances[0][1] = big.NewInt(cur.Balances[0][1].Int64() + 4)
		}
		// ---- craft ----
		m := c.Msg
		st := honest.Clone()
		st.Version = cur.Version + uint64(m.Ver)
		if !m.ID {
			st.ID[7] ^= 0x33
		}
		pIdx, hIdx := 0, 1
		mv := func(from, to int, amt int64) {
			st.Balances[0][from] = new(big.Int).Sub(st.Balances[0][from], big.NewInt(amt))
			st.Balances[0][to] = new(big.Int).Add(st.Balances[0][to], big.NewInt(amt))
		}
		switch m.Pay {
		case "tome":
			mv(pIdx, hIdx, 1)
		case "topeer":
			mv(hIdx, pIdx, 2)
		}
		switch m.Sum {
		case "plus":
			st.Balances[0][pIdx] = new(big.Int).Add(st.Balances[0][pIdx], big.NewInt(1))
		case "negative":
			st.Balances[0][pIdx] = new(big.Int).Add(st.Balances[0][pIdx], big.NewInt(21-st.Balances[0][pIdx].Int64()-st.Balances[0][hIdx].Int64()+st.Balances[0][hIdx].Int64()))
			st.Balances[0][hIdx] = big.NewInt(-1)
			// keep the sum: p gets everything + 1
			total := int64(20)
			for _, l := range st.Locked {
				total -= l.Bals[0].Int64()
			}
			st.Balances[0][pIdx] = big.NewInt(total + 1)
		}
		switch m.Locked {
		case "id":
			st.Locked[0].ID[3] ^= 0x11
		case "amount":
			st.Locked[0].Bals[0] = new(big.Int).Add(st.Locked[0].Bals[0], big.NewInt(1))
			st.Balances[0][hIdx] = new(big.Int).Sub(st.Balances[0][hIdx], big.NewInt(1))
		case "imapentry":
			st.Locked[0].IndexMap = []channel.Index{1, 0}
		case "imaplen":
			st.Locked[0].IndexMap = []channel.Index{0}
		case "added":
			st.Locked = append(st.Locked, *channel.NewSubAlloc(channel.ID{0xcd, 2}, []channel.Bal{big.NewInt(1)}, nil))
			st.Balances[0][hIdx] = new(big.Int).Sub(st.Balances[0][hIdx], big.NewInt(1))
		case "removed":
			amt := st.Locked[0].Bals[0]
			st.Locked = st.Locked[1:]
			st.Balances[0][pIdx] = new(big.Int).Add(st.Balances[0][pIdx], amt)
		case "dup": // same number of sub-allocations, the second replaced by a copy of the first
			st.Locked[1] = *channel.NewSubAlloc(st.Locked[0].ID, channel.CloneBals(st.Locked[0].Bals), channel.CloneIndexMap(st.Locked[0].IndexMap))
		case "swap":
			st.Locked[0], st.Locked[1] = st.Locked[1], st.Locked[0]
		}
		switch m.Fund { // honest funding: 10/10 -> 7/7 + locked(sub, 6)
		case "onlyme":
			st.Balances[0][pIdx], st.Balances[0][hIdx] = big.NewInt(10), big.NewInt(4)
		case "onlypeer":
			st.Balances[0][pIdx], st.Balances[0][hIdx] = big.NewInt(4), big.NewInt(10)
		case "nobody": // sub-allocation appears, nobody pays (sum grows: refused by the transition rule anyway)
			st.Balances[0][pIdx], st.Balances[0][hIdx] = big.NewInt(10), big.NewInt(10)
		case "otherid":
			st.Locked[0].ID[5] ^= 0x77
		case "otheramount":
			st.Locked[0].Bals[0] = big.NewInt(5)
			st.Balances[0][pIdx] = big.NewInt(8)
		case "withimap":
			st.Locked[0].IndexMap = []channel.Index{1, 0}
		case "stale": // credits added to the parent balances at the time the sub-channel was finalised
			st.Balances[0][pIdx], st.Balances[0][hIdx] = big.NewInt(settleBase[0]+2), big.NewInt(settleBase[1]+4)
		case "swapped":
			st.Balances[0][pIdx] = big.NewInt(cur.Balances[0][pIdx].Int64() + 4)
			st.Balances[0][hIdx] = big.NewInt(cur.Balances[0][hIdx].Int64() + 2)
		case "keeplocked":
			st.Locked = cur.Clone().Locked
		case "skim": // the peer takes one unit more, out of the other sub-channel's sub-allocation
			st.Balances[0][pIdx] = new(big.Int).Add(st.Balances[0][pIdx], big.NewInt(1))
			st.Locked[0].Bals[0] = new(big.Int).Sub(st.Locked[0].Bals[0], big.NewInt(1))
		}
		_ = subID
		actor := channel.Index(pIdx)
		switch m.Actor {
		case "me":
			actor = channel.Index(hIdx)
		case "oob":
			actor = 2
		}
		var sig wallet.Sig
		signWith := func(acc wallet.Account, s *channel.State) wallet.Sig {
			sg, err := channel.Sign(acc, s, channel.TestBackendID)
			if err != nil {
				return bytes.Repeat([]byte{1}, 64)
			}
			return sg
		}
		switch m.Sig {
		case "valid":
			sig = signWith(p.Acc, st)
		case "otherstate":
			o := st.Clone()
			o.Balances[0][pIdx] = new(big.Int).Add(o.Balances[0][pIdx], big.NewInt(1))
			o.Balances[0][hIdx] = new(big.Int).Sub(o.Balances[0][hIdx], big.NewInt(1))
			sig = signWith(p.Acc, o)
		case "otherkey":
			sig = signWith(x.Acc, st)
		default:
			sig = bytes.Repeat([]byte{0x5a}, 64)
		}
		w.Bus.Proto = proto
		msg := &client.ChannelUpdateMsg{ChannelUpdate: client.ChannelUpdate{State: st, ActorIdx: actor}, Sig: sig}
		if err := w.Bus.Inject(&wire.Envelope{Sender: p.WireAddr(), Recipient: h.WireAddr(), Msg: msg}); err != nil {
			note = "undecodable: " + err.Error()
			return
		}
		w.Quiesce()
		// the user's handler accepts whatever it is shown
		if u := h.TakeUpdateFor(parentID); u != nil {
			go func() { _ = u.Resp.Accept(ctx) }()
			w.Quiesce()
		}
		// observable: H published its signature for exactly this update
		for _, e := range w.Bus.Pending {
			if acc, ok := e.Msg.(*client.ChannelUpdateAccMsg); ok && acc.ChannelID == st.ID && acc.Version == st.Version && w.Bus.Info(e).From == "H" {
				if ok, _ := channel.Verify(h.Acc.Address(), st, acc.Sig); ok {
					signed = true
				}
			}
		}
		_ = chP
	})
	return
}

// TestCountersign executes the cases exported by Countersign.tla (VERIF_CASES), both serializers.
func TestCountersign(t *testing.T) {
	path := os.Getenv("VERIF_CASES")
	if path == "" {
		t.Skip()
	}
	res := drv.NewResult("countersign")
	defer func() {
		if err := res.Write(); err != nil {
			t.Fatal(err)
		}
	}()
	cases, err := loadJSONLines(path, func(c *csCase, s string) { c.line = s })
	if err != nil {
		t.Fatal(err)
	}
	sup := newSupervised()
	start := drv.EnvInt("VERIF_START", 0)
	res.Add("cases", len(cases))
	for n := start; n < 2*len(cases); n++ {
		c, proto := cases[n/2], n%2 == 1
		ser := "native"
		if proto {
			ser = "protobuf"
		}
		sup.Begin(n, fmt.Sprintf("%s|%s|%s", c.Msg.Sit, c.Mutant, ser))
		signed, note := runCountersignCase(t, c, proto, n)
		res.Add("evaluations", 1)
		if note != "" {
			res.Add("not_run", 1)
			res.Seen("notrun", c.Msg.Sit+"|"+c.Mutant+"|"+note)
			if len(note) > 6 && note[:6] == "setup:" {
				res.Violate("C07", "conformance", "setup|"+c.Msg.Sit, note, nil)
			}
			continue
		}
		res.Seen("case", fmt.Sprintf("%s|%s|%s|%s|%v", c.Msg.Sit, c.Mutant, ser, c.Expect, signed))
		rp := map[string]any{"driver": "countersign", "serializer": ser, "case": json.RawMessage(c.line)}
		detail := ""
		switch c.Mutant {
		case "locked":
			detail = c.Msg.Locked
		case "fund":
			detail = c.Msg.Fund
		case "sig":
			detail = c.Msg.Sig
		case "actor":
			detail = c.Msg.Actor
		case "sum":
			detail = c.Msg.Sum
		}
		switch {
		case c.Expect == "must-not-sign" && signed:
			what := fmt.Sprintf("situation %q: the client countersigned an update with defect %s/%s (%s serializer)", c.Msg.Sit, c.Mutant, detail, ser)
			sup.Violate("C07", "monitor", "countersigned|"+c.Msg.Sit+"|"+c.Mutant+"|"+detail, what, rp)
			res.Violate("C07", "monitor", "countersigned|"+c.Msg.Sit+"|"+c.Mutant+"|"+detail, what, rp)
		case c.Expect == "may-sign" && !signed:
			res.Violate("C07", "conformance", "acceptable-not-signed|"+c.Msg.Sit+"|"+c.Mutant, fmt.Sprintf("situation %q: an acceptable update (%s) accepted by the handler was not countersigned (%s)", c.Msg.Sit, c.Mutant, ser), rp)
		}
		if n < 2 {
			var v any
			_ = json.Unmarshal([]byte(c.line), &v)
			res.Sample(v)
		}
	}
}
