package cdrv

import (
	"context"
	"errors"
	"fmt"
	"math/big"
	"math/rand"
	"os"
	"runtime"
	"sort"
	"strings"
	"testing"
	"testing/synctest"

	"perun.network/go-perun/channel"
	"perun.network/go-perun/client"
	"perun.network/go-perun/wire"
	"verif/harness/drv"
	"verif/harness/tla"
)

type updCall struct {
	cancel  context.CancelFunc
	b       int
	done    bool
	res     string
	err     error
	checked bool
}

func classifyUpdateErr(err error) string {
	var rej client.PeerRejectedError
	var tmo client.RequestTimedOutError
	switch {
	case err == nil:
		return "ok"
	case errors.As(err, &rej):
		return "rejected"
	case errors.As(err, &tmo):
		return "timeout"
	case strings.Contains(err.Error(), "locking machine mutex"):
		return "lockerr"
	}
	return "error"
}

type updView struct {
	ver, b int
	phase  string
	signed bool
}

// lastView returns the last machine state of a party's channel as recorded by the persister.
func lastView(w *World, who string, id channel.ID) updView {
	w.PMu.Lock()
	defer w.PMu.Unlock()
	v := updView{ver: -1, b: -1}
	for i := len(w.PLog) - 1; i >= 0; i-- {
		e := w.PLog[i]
		if e.Who != who || e.Ch != id || e.Kind == "removed" {
			continue
		}
		v.phase = e.Phase.String()
		if e.Cur.State != nil {
			v.ver, v.b, v.signed = int(e.Cur.Version), int(e.Cur.Balances[0][0].Int64()), e.CurSigned
		}
		break
	}
	return v
}

type updReplay struct {
	Driver   string     `json:"driver"`
	T        int        `json:"T"`
	Channels [][]string `json:"channels"`
}

// updRunner replays one behaviour of Update.tla on one channel of a world.
type updRunner struct {
	w         *World
	res       *drv.Result
	T         int
	beh       []tla.SimStep
	labels    []string
	k         int // next model step
	id        channel.ID
	chs       map[string]*client.Channel
	party     map[string]*Party
	calls     map[string]map[int]*updCall
	cancelled bool
	failed    bool
	tag       string
	viol      func(kind, sig, what string, upto int)
}

func newUpdRunner(w *World, res *drv.Result, beh []tla.SimStep, T int, tag string, viol func(kind, sig, what string, r *updRunner, upto int)) (*updRunner, error) {
	r := &updRunner{w: w, res: res, T: T, beh: beh, tag: tag, party: map[string]*Party{"A": w.P[0], "B": w.P[1]},
		calls: map[string]map[int]*updCall{"A": {}, "B": {}}}
	for _, s := range beh[1:] {
		r.labels = append(r.labels, s.Act.Label)
	}
	r.viol = func(kind, sig, what string, upto int) { r.failed = true; viol(kind, sig, what, r, upto) }
	chA, chB, err := w.OpenLedgerChannel(w.P[0], w.P[1], 60, int64(T/2), int64(T-T/2))
	if err != nil {
		return nil, err
	}
	r.chs = map[string]*client.Channel{"A": chA, "B": chB}
	r.id = chA.ID()
	return r, nil
}

func (r *updRunner) release() {
	for _, m := range r.calls {
		for _, c := range m {
			c.cancel()
		}
	}
}

// checkEnabled: every enabled transaction is fully signed; one state per version unless a request timed out.
func (r *updRunner) checkEnabled(upto int) bool {
	w := r.w
	w.PMu.Lock()
	defer w.PMu.Unlock()
	byVer := map[uint64]string{}
	for _, e := range w.PLog {
		if e.Kind != "enabled" || e.Ch != r.id {
			continue
		}
		if !e.CurSigned {
			r.viol("monitor", "unsigned-current", fmt.Sprintf("%s enabled version %d without every participant's valid signature", e.Who, e.Cur.Version), upto)
			return false
		}
		enc := string(stEnc(e.Cur.State))
		if old, ok := byVer[e.Cur.Version]; ok && old != enc && !r.cancelled {
			r.viol("monitor", "two-states-one-version", fmt.Sprintf("two different states of version %d both obtained both signatures (no request timed out)", e.Cur.Version), upto)
			return false
		}
		byVer[e.Cur.Version] = enc
	}
	return true
}

func (r *updRunner) views() map[string]updView {
	return map[string]updView{"A": lastView(r.w, "A", r.id), "B": lastView(r.w, "B", r.id)}
}

// more reports whether environment steps are left.
func (r *updRunner) more() bool {
	for r.k < len(r.beh)-1 && r.beh[r.k+1].Act.Name == "Proceed" {
		r.k++
	}
	return !r.failed && r.k < len(r.beh)-1
}

// step executes the next environment step, runs the monitors and the conformance comparison.
func (r *updRunner) step() {
	w, k, T := r.w, r.k, r.T
	st := r.beh[k+1]
	a := st.Act
	before := r.views()
	r.res.Add("env_steps", 1)
	switch a.Name {
	case "StartUpdate":
		p, i, b := a.Args[0].(string), a.Args[1].(int), a.Args[2].(int)
		ctx, cancel := context.WithCancel(context.Background())
		c := &updCall{cancel: cancel, b: b}
		r.calls[p][i] = c
		ch := r.chs[p]
		go func() {
			err := ch.Update(ctx, func(s *channel.State) {
				s.Balances[0][0] = big.NewInt(int64(b))
				s.Balances[0][1] = big.NewInt(int64(T - b))
			})
			c.err, c.res, c.done = err, classifyUpdateErr(err), true
		}()
	case "DeliverUpd", "DeliverRes", "DeliverResLate":
		m := a.Args[0].(tla.Rec)
		mt, from, ver := m["t"].(string), m["from"].(string), m["st"].(tla.Rec)["ver"].(int)
		mb := m["st"].(tla.Rec)["b"].(int)
		if a.Name == "DeliverResLate" {
			// the context of the waiting call ends in the instant in which the call has taken the response
			to := "A"
			if from == "A" {
				to = "B"
			}
			mcalls := tla.AsFn(r.beh[k].State["calls"].(tla.Rec)[to])
			for x := range mcalls.K {
				mc := mcalls.V[x].(tla.Rec)
				if c := r.calls[to][mcalls.K[x].(int)]; c != nil && mc["pc"].(string) == "wait" && mc["st"].(tla.Rec)["ver"].(int) == ver {
					fired := false
					updResHook.Store(func() { fired = true; c.cancel() })
					defer func() {
						updResHook.Store(func() {})
						if fired {
							r.res.Add("late_cancellations", 1)
						}
					}()
				}
			}
		}
		i := w.Bus.Find(func(e *wire.Envelope) bool {
			inf := w.Bus.Info(e)
			if inf.Ch != r.id || inf.T != mt || inf.From != from || inf.Ver != ver {
				return false
			}
			if u, ok := e.Msg.(*client.ChannelUpdateMsg); ok && int(u.State.Balances[0][0].Int64()) != mb {
				return false
			}
			return true
		})
		if i < 0 {
			r.viol("conformance", "no-such-envelope|"+mt, fmt.Sprintf("the specification delivers %s but no such envelope is pending: %v", a.Label, r.pendingStr()), k+1)
			return
		}
		w.Bus.Deliver(i)
	case "Answer":
		p, acc := a.Args[0].(string), a.Args[1].(bool)
		u := r.party[p].TakeUpdateFor(r.id)
		if u == nil {
			r.viol("conformance", "no-handler-request", "the specification answers an update request but the handler of "+p+" was not invoked", k+1)
			return
		}
		go func() {
			if acc {
				_ = u.Resp.Accept(context.Background())
			} else {
				_ = u.Resp.Reject(context.Background(), "no")
			}
		}()
	case "Cancel":
		p, i := a.Args[0].(string), a.Args[1].(int)
		r.cancelled = true
		r.calls[p][i].cancel()
	}
	w.Quiesce()
	// ---- property monitors on the real observations (independent of the model) ----
	if !r.checkEnabled(k + 1) {
		return
	}
	after := r.views()
	for _, p := range []string{"A", "B"} {
		for i, c := range r.calls[p] {
			if !c.done || c.checked {
				continue
			}
			c.checked = true
			switch c.res {
			case "ok":
				if after[p].b != c.b || !after[p].signed {
					r.viol("monitor", "ok-not-current", fmt.Sprintf("Update call %d of %s returned success but its current state is (v%d, %d), proposed balance %d", i, p, after[p].ver, after[p].b, c.b), k+1)
					return
				}
			case "rejected":
				otherActive := false
				for j, o := range r.calls[p] {
					if j != i && !o.done {
						otherActive = true // the party's next call may already have staged its update
					}
				}
				if after[p].ver != before[p].ver || after[p].b != before[p].b || (after[p].phase != "Acting" && !otherActive) {
					r.viol("monitor", "rejected-changed", fmt.Sprintf("Update call %d of %s was rejected but its state went from (v%d, %d) to (v%d, %d), phase %s", i, p, before[p].ver, before[p].b, after[p].ver, after[p].b, after[p].phase), k+1)
					return
				}
			}
		}
	}
	if !r.cancelled {
		if d := after["A"].ver - after["B"].ver; d < -1 || d > 1 {
			r.viol("monitor", "versions-apart", fmt.Sprintf("versions %d and %d differ by more than one although no request timed out", after["A"].ver, after["B"].ver), k+1)
			return
		}
	}
	// ---- conformance with the detailed specification at the next quiescent model state ----
	j := k + 1
	for j+1 < len(r.beh) && r.beh[j+1].Act.Name == "Proceed" {
		j++
	}
	ms := r.beh[j].State
	r.k = j
	if j == len(r.beh)-1 && modelBusy(ms) {
		return // the behaviour was cut inside an internal step
	}
	if d := r.compare(ms, after); d != "" {
		r.res.Add("conformance_drift", 1)
		r.viol("conformance", "state|"+a.Name, "after "+a.Label+": "+d, k+1)
	}
}

func (r *updRunner) pendingStr() string {
	var l []string
	for _, inf := range r.w.Bus.PendingInfo() {
		if inf.Ch == r.id {
			l = append(l, fmt.Sprintf("%s/%s/v%d", inf.T, inf.From, inf.Ver))
		}
	}
	sort.Strings(l)
	return strings.Join(l, ",")
}

// closing delivers everything, accepts every pending request and checks agreement at rest.
func (r *updRunner) closing() {
	if r.failed {
		return
	}
	w := r.w
	for round := 0; round < 60; round++ {
		progressed := false
		if i := w.Bus.Find(func(e *wire.Envelope) bool { return w.Bus.Info(e).Ch == r.id }); i >= 0 {
			w.Bus.Deliver(i)
			progressed = true
		} else {
			for _, p := range w.P {
				if u := p.TakeUpdateFor(r.id); u != nil {
					go func() { _ = u.Resp.Accept(context.Background()) }()
					progressed = true
					break
				}
			}
		}
		w.Quiesce()
		if !progressed {
			break
		}
	}
	n := len(r.labels)
	if !r.checkEnabled(n) {
		return
	}
	v := r.views()
	pendingCalls := false
	for _, p := range []string{"A", "B"} {
		for _, c := range r.calls[p] {
			if !c.done {
				pendingCalls = true
			}
		}
	}
	if !r.cancelled && !pendingCalls && (v["A"].ver != v["B"].ver || v["A"].b != v["B"].b) {
		r.viol("monitor", "no-agreement-at-rest", fmt.Sprintf("everything delivered and answered, no time-out, but A holds (v%d, %d) and B holds (v%d, %d)", v["A"].ver, v["A"].b, v["B"].ver, v["B"].b), n)
		return
	}
	if pendingCalls && !r.cancelled {
		r.viol("monitor", "call-never-returns", "everything was delivered and answered but an Update call has not returned", n)
	}
}

// runUpdateBehaviours replays one behaviour per channel (one or two channels of the same client pair,
// their environment steps interleaved) on two real clients.
func runUpdateBehaviours(t *testing.T, res *drv.Result, behs [][]tla.SimStep, T int, idx int) {
	var runners []*updRunner
	report := func(kind, sig, what string, r *updRunner, upto int) {
		rp := updReplay{Driver: "update", T: T}
		for _, x := range runners {
			n := len(x.labels)
			if x == r {
				n = upto
			} else if x.k < n {
				n = x.k
			}
			rp.Channels = append(rp.Channels, x.labels[:n])
		}
		if len(runners) > 1 {
			sig += "|2ch"
		}
		res.Violate("C06", kind, sig, what, rp)
	}
	defer func() {
		if p := recover(); p != nil {
			if f := os.Getenv("VERIF_DEBUG_STACKS"); f != "" {
				buf := make([]byte, 1<<20)
				buf = buf[:runtime.Stack(buf, true)]
				_ = os.WriteFile(f, buf, 0o644)
			}
			report("conformance", "leftover-goroutines", fmt.Sprintf("behaviour ended with: %v (a leak is not what C06 states)", p), nil, 0)
		}
	}()
	synctest.Test(t, func(t *testing.T) {
		w := NewWorld(t, int64(idx)+1, "A", "B")
		defer w.Close()
		defer func() {
			for _, r := range runners {
				r.release()
			}
			w.Quiesce()
		}()
		for c, b := range behs {
			r, err := newUpdRunner(w, res, b, T, fmt.Sprint("ch", c), report)
			if err != nil {
				res.Violate("C06", "monitor", "open", "channel opening failed: "+err.Error(), nil)
				return
			}
			runners = append(runners, r)
		}
		rng := rand.New(rand.NewSource(int64(idx)))
		for {
			var live []*updRunner
			for _, r := range runners {
				if r.more() {
					live = append(live, r)
				}
			}
			if len(live) == 0 {
				break
			}
			live[rng.Intn(len(live))].step()
			for _, r := range runners {
				if r.failed {
					return
				}
			}
		}
		for _, r := range runners {
			r.closing()
		}
	})
}

func modelBusy(ms tla.Rec) bool {
	for _, p := range []string{"A", "B"} {
		q := ms["lockq"].(tla.Rec)[p].(tla.Seq)
		if len(q) == 0 {
			continue
		}
		h := q[0].(tla.Seq)
		if h[0].(string) == "upd" {
			if tla.Index(ms["calls"].(tla.Rec)[p], h[1]).(tla.Rec)["pc"].(string) == "wantLock" {
				return true
			}
		} else if ms["hreq"].(tla.Rec)[p].(tla.Rec)["t"].(string) == "none" {
			return true
		}
	}
	return false
}

// compareUpdate compares the observable state with a quiescent model state.
func (r *updRunner) compare(ms tla.Rec, view map[string]updView) string {
	party, calls := r.party, r.calls
	for _, p := range []string{"A", "B"} {
		mc := ms["cur"].(tla.Rec)[p].(tla.Rec)
		if view[p].ver != mc["ver"].(int) || view[p].b != mc["b"].(int) {
			return fmt.Sprintf("%s holds (v%d, %d), the specification predicts (v%d, %d)", p, view[p].ver, view[p].b, mc["ver"], mc["b"])
		}
		if ph := ms["ph"].(tla.Rec)[p].(string); view[p].phase != ph {
			return fmt.Sprintf("%s is in phase %s, the specification predicts %s", p, view[p].phase, ph)
		}
		wantReq := 0
		if ms["hreq"].(tla.Rec)[p].(tla.Rec)["t"].(string) != "none" {
			wantReq = 1
		}
		if n := party[p].NPendingUpdatesFor(r.id); n != wantReq {
			return fmt.Sprintf("%s has %d unanswered handler requests, the specification predicts %d", p, n, wantReq)
		}
		mcalls := tla.AsFn(ms["calls"].(tla.Rec)[p])
		for x := range mcalls.K {
			i := mcalls.K[x].(int)
			mcall := mcalls.V[x].(tla.Rec)
			c := calls[p][i]
			switch mcall["pc"].(string) {
			case "none":
			case "done":
				if c == nil || !c.done {
					return fmt.Sprintf("Update call %d of %s has not returned, the specification predicts result %s", i, p, mcall["res"])
				}
				if got := c.res; got != mcall["res"].(string) {
					return fmt.Sprintf("Update call %d of %s returned %s (%v), the specification predicts %s", i, p, got, c.err, mcall["res"])
				}
			default:
				if c != nil && c.done {
					return fmt.Sprintf("Update call %d of %s returned (%v), the specification predicts it is still %s", i, p, c.err, mcall["pc"])
				}
			}
		}
	}
	var want []string
	for _, m := range ms["net"].(tla.Set) {
		x := m.(tla.Rec)
		want = append(want, fmt.Sprintf("%s/%s/v%d", x["t"], x["from"], x["st"].(tla.Rec)["ver"]))
	}
	sort.Strings(want)
	if got := r.pendingStr(); strings.Join(want, ",") != got {
		return fmt.Sprintf("envelopes in flight [%s], the specification predicts [%s]", got, strings.Join(want, ","))
	}
	return ""
}

// TestUpdate replays TLC-simulated behaviours of Update.tla (VERIF_SIM_DIR).
func TestUpdate(t *testing.T) {
	dir := os.Getenv("VERIF_SIM_DIR")
	if dir == "" && os.Getenv("VERIF_DOT") == "" {
		t.Skip()
	}
	useHookLogger()
	res := drv.NewResult("update")
	defer func() {
		if err := res.Write(); err != nil {
			t.Fatal(err)
		}
	}()
	T := drv.EnvInt("VERIF_T", 2)
	shard, shards := drv.EnvInt("VERIF_SHARD", 0), drv.EnvInt("VERIF_SHARDS", 1)
	if dot := os.Getenv("VERIF_DOT"); dot != "" {
		// every edge of the (small) exhaustively checked graph: after its shortest path, continued to a state in which
		// nothing is left to do (all calls returned, nothing in flight)
		g, err := tla.LoadDot(dot)
		if err != nil {
			t.Fatal(err)
		}
		if shard == 0 {
			res.Add("graph_states", len(g.Nodes))
			res.Add("graph_edges", g.NEdges)
		}
		compl := g.CompletionTo(func(nd *tla.Node) bool {
			for _, e := range nd.Out {
				if e.Dst != nd {
					return false
				}
			}
			return true
		})
		n := 0
		for _, nd := range g.Nodes {
			path := g.PathTo(nd)
			for _, e := range nd.Out {
				n++
				if n%shards != shard || e.Dst == nd {
					continue
				}
				e.MarkHit()
				b := []tla.SimStep{{State: g.Inits[0].State}}
				for _, pe := range append(append(append([]*tla.Edge{}, path...), e), compl.From(e.Dst)...) {
					b = append(b, tla.SimStep{Act: pe.Act, State: pe.Dst.State})
				}
				res.Add("graph_behaviours", 1)
				res.Add("model_steps", len(b)-1)
				runUpdateBehaviours(t, res, [][]tla.SimStep{b}, T, n)
			}
		}
		hit, _ := g.HitCount()
		res.Add("edges_executed", hit)
		return
	}
	all, err := tla.LoadSimDir(dir)
	if err != nil {
		t.Fatal(err)
	}
	for i, b := range all {
		if i%shards != shard {
			continue
		}
		res.Add("behaviours", 1)
		res.Add("model_steps", len(b)-1)
		behs := [][]tla.SimStep{b}
		if i%3 == 2 { // every third run drives two channels of the same client pair with interleaved steps
			j := (i + 7*shards) % len(all) // another behaviour of this shard (only those are loaded)
			if all[j] == nil {
				j = i
			}
			behs = append(behs, all[j])
			res.Add("two_channel_runs", 1)
		}
		runUpdateBehaviours(t, res, behs, T, i)
		if i < 2 {
			var l []string
			for _, s := range b[1:] {
				l = append(l, s.Act.Label)
			}
			res.Sample(map[string]any{"kind": "TLC-simulated schedule replayed on two real clients", "steps": l})
		}
	}
}
