// Package cdrv contains the client-level drivers: two real go-perun clients
// run inside a synctest bubble against a harness-owned environment - a
// scheduled bus (the driver decides when which envelope is delivered), a strict
// reference ledger and scripted handlers - so that TLC-generated schedules of
// the protocol specifications can be replayed deterministically.
package cdrv

import (
	"bytes"
	"context"
	"fmt"
	"sync"

	"perun.network/go-perun/channel"
	"perun.network/go-perun/client"
	"perun.network/go-perun/wallet"
	"perun.network/go-perun/wire"
	pserializer "perun.network/go-perun/wire/perunio/serializer"
	"perun.network/go-perun/wire/protobuf"
)

// SchedBus is a wire.Bus on which publishing only queues the envelope (after a
// round trip through a real serializer); the driver delivers, drops or
// duplicates queued envelopes explicitly.
type SchedBus struct {
	mu      sync.Mutex
	recvs   map[wire.AddrKey]wire.Consumer
	Pending []*wire.Envelope
	// Auto delivers every envelope immediately (used while setting a scenario up).
	Auto bool
	// Proto selects the protobuf serializer for the round trip.
	Proto bool
	// OnPublish is called (outside the lock) for every published envelope.
	OnPublish func(*wire.Envelope)
	// Names maps wire address keys to party names for logging.
	Names map[wire.AddrKey]string
	// Hold, if set, is asked for every published envelope (after it was queued): if it returns true the
	// publishing goroutine stays inside Publish until Release is called - every Publish is a scheduling point.
	Hold func(*wire.Envelope) bool
	held chan struct{}
	// Unreachable lists addresses that never take a message: Publish to one of them returns only when its context ends
	// (what wire.LocalBus does for a recipient that never subscribes, and a net.Bus whose dialer cannot reach the peer).
	Unreachable map[wire.AddrKey]bool
	// Down lists addresses to which Publish fails at once (connection refused).
	Down map[wire.AddrKey]bool
}

// Release lets a publisher that is held inside Publish continue.
func (b *SchedBus) Release() {
	b.mu.Lock()
	h := b.held
	b.held = nil
	b.mu.Unlock()
	if h != nil {
		close(h)
	}
}

// NewSchedBus creates a bus.
func NewSchedBus() *SchedBus {
	return &SchedBus{recvs: map[wire.AddrKey]wire.Consumer{}, Names: map[wire.AddrKey]string{}}
}

// SubscribeClient implements wire.Bus.
func (b *SchedBus) SubscribeClient(c wire.Consumer, a map[wallet.BackendID]wire.Address) error {
	b.mu.Lock()
	defer b.mu.Unlock()
	b.recvs[wire.Keys(a)] = c
	return nil
}

func (b *SchedBus) roundTrip(e *wire.Envelope) (out *wire.Envelope, err error) {
	defer func() { // a panicking codec is the business of C13/C14; here the envelope simply is not deliverable
		if p := recover(); p != nil {
			out, err = nil, fmt.Errorf("codec panic: %v", p)
		}
	}()
	var buf bytes.Buffer
	var ser wire.EnvelopeSerializer = pserializer.Serializer()
	if b.Proto {
		ser = protobuf.Serializer()
	}
	if err := ser.Encode(&buf, e); err != nil {
		return nil, err
	}
	return ser.Decode(&buf)
}

// Publish implements wire.Bus.
func (b *SchedBus) Publish(ctx context.Context, e *wire.Envelope) error {
	e2, err := b.roundTrip(e)
	if err != nil {
		return err
	}
	b.mu.Lock()
	unreachable := b.Unreachable[wire.Keys(e2.Recipient)]
	down := b.Down[wire.Keys(e2.Recipient)]
	b.mu.Unlock()
	if down {
		return fmt.Errorf("publishing to %s: connection refused", b.Names[wire.Keys(e2.Recipient)])
	}
	if unreachable {
		<-ctx.Done()
		return ctx.Err()
	}
	if b.OnPublish != nil {
		b.OnPublish(e2)
	}
	b.mu.Lock()
	if b.Auto {
		c := b.recvs[wire.Keys(e2.Recipient)]
		b.mu.Unlock()
		if c != nil {
			c.Put(e2)
		}
		return nil
	}
	b.Pending = append(b.Pending, e2)
	var wait chan struct{}
	if b.Hold != nil && b.Hold(e2) {
		wait = make(chan struct{})
		b.held = wait
	}
	b.mu.Unlock()
	if wait != nil {
		<-wait
	}
	return nil
}

// Inject delivers a harness-made envelope (after the serializer round trip:
// only decodable envelopes reach a client). It returns the decode error if any.
func (b *SchedBus) Inject(e *wire.Envelope) error {
	e2, err := b.roundTrip(e)
	if err != nil {
		return err
	}
	b.mu.Lock()
	c := b.recvs[wire.Keys(e2.Recipient)]
	b.mu.Unlock()
	if c == nil {
		return fmt.Errorf("no such recipient")
	}
	c.Put(e2)
	return nil
}

// Find returns the index of the first pending envelope matching pred, or -1.
func (b *SchedBus) Find(pred func(*wire.Envelope) bool) int {
	b.mu.Lock()
	defer b.mu.Unlock()
	for i, e := range b.Pending {
		if pred(e) {
			return i
		}
	}
	return -1
}

// Deliver delivers (and removes) the i-th pending envelope.
func (b *SchedBus) Deliver(i int) {
	b.mu.Lock()
	e := b.Pending[i]
	b.Pending = append(b.Pending[:i:i], b.Pending[i+1:]...)
	c := b.recvs[wire.Keys(e.Recipient)]
	b.mu.Unlock()
	if c != nil {
		c.Put(e)
	}
}

// Drop removes the i-th pending envelope without delivering it.
func (b *SchedBus) Drop(i int) {
	b.mu.Lock()
	b.Pending = append(b.Pending[:i:i], b.Pending[i+1:]...)
	b.mu.Unlock()
}

// Dup delivers a copy of the i-th pending envelope and keeps it pending.
func (b *SchedBus) Dup(i int) {
	b.mu.Lock()
	e := b.Pending[i]
	c := b.recvs[wire.Keys(e.Recipient)]
	b.mu.Unlock()
	if e2, err := b.roundTrip(e); err == nil && c != nil {
		c.Put(e2)
	}
}

// DeliverAll delivers pending envelopes until none is left (quiescing via wait between deliveries).
func (b *SchedBus) DeliverAll(wait func()) {
	for {
		b.mu.Lock()
		n := len(b.Pending)
		b.mu.Unlock()
		if n == 0 {
			return
		}
		b.Deliver(0)
		wait()
	}
}

// MsgInfo is the abstract view of an envelope used by the specifications.
type MsgInfo struct {
	T    string // "upd", "acc", "rej", "prop", "propacc", "proprej", "sync", other type names
	From string
	To   string
	Ver  int
	Ch   channel.ID
}

// Info abstracts an envelope.
func (b *SchedBus) Info(e *wire.Envelope) MsgInfo {
	m := MsgInfo{From: b.Names[wire.Keys(e.Sender)], To: b.Names[wire.Keys(e.Recipient)], Ver: -1}
	switch x := e.Msg.(type) {
	case *client.ChannelUpdateMsg:
		m.T, m.Ver, m.Ch = "upd", int(x.State.Version), x.State.ID
	case *client.VirtualChannelFundingProposalMsg:
		m.T, m.Ver, m.Ch = "vfund", int(x.State.Version), x.State.ID
	case *client.VirtualChannelSettlementProposalMsg:
		m.T, m.Ver, m.Ch = "vsettle", int(x.State.Version), x.State.ID
	case *client.ChannelUpdateAccMsg:
		m.T, m.Ver, m.Ch = "acc", int(x.Version), x.ChannelID
	case *client.ChannelUpdateRejMsg:
		m.T, m.Ver, m.Ch = "rej", int(x.Version), x.ChannelID
	case *client.LedgerChannelProposalMsg, *client.SubChannelProposalMsg, *client.VirtualChannelProposalMsg:
		m.T = "prop"
	case *client.LedgerChannelProposalAccMsg, *client.SubChannelProposalAccMsg, *client.VirtualChannelProposalAccMsg:
		m.T = "propacc"
	case *client.ChannelProposalRejMsg:
		m.T = "proprej"
	case *client.ChannelSyncMsg:
		m.T = "sync"
	default:
		m.T = fmt.Sprintf("%T", e.Msg)
	}
	return m
}

// PendingInfo lists the abstract view of all pending envelopes.
func (b *SchedBus) PendingInfo() []MsgInfo {
	b.mu.Lock()
	defer b.mu.Unlock()
	var l []MsgInfo
	for _, e := range b.Pending {
		l = append(l, b.Info(e))
	}
	return l
}
