package cdrv

import (
	"bytes"
	"context"
	"errors"
	"fmt"
	"math/big"
	"sync"
	"time"

	"perun.network/go-perun/channel"
	"perun.network/go-perun/wallet"
)

// StrictLedger is a reference asset holder + adjudicator that does what the
// Perun contracts do (and what client/test.MockBackend does not): it verifies
// every signature, enforces versions, time-outs and registered states, and
// keeps integer accounts. Time is the bubble's virtual clock.
type StrictLedger struct {
	mu    sync.Mutex
	chs   map[channel.ID]*lChan
	accts map[string]map[string]*big.Int // account address -> asset -> balance
	Log   []LedgerEvent
	// Hook, if set, is called (without the lock) after a registration was
	// accepted and before its event is emitted.
	Hook func(who, ev string, id channel.ID, ver uint64)
	// FundGate, if set, is asked when a Fund call is about to report success: a non-nil channel holds the call
	// until it is closed.
	FundGate func(who string, id channel.ID) <-chan struct{}
}

// LedgerEvent is one logged ledger call / effect.
type LedgerEvent struct {
	Op   string // fund, register, register-refused, conclude, payout, withdraw-refused
	Who  string
	Ch   channel.ID
	Ver  int
	Subs []int
	Time int64
	Amt  []int64
	Why  string
}

type lChan struct {
	params    *channel.Params
	held      channel.Balances
	funded    []bool
	fundedCh  chan struct{}
	reg       *channel.State
	regSigs   []wallet.Sig
	timeout   time.Time
	concluded bool
	subs      []*lSub
	// ConcludedVer is the version the channel was concluded with.
	concludedVer int
}

type lSub struct {
	ev     chan channel.AdjudicatorEvent
	closed chan struct{}
	once   sync.Once
}

func (s *lSub) Next() channel.AdjudicatorEvent {
	select {
	case e := <-s.ev:
		return e
	case <-s.closed:
		return nil
	}
}
func (s *lSub) Err() error   { return nil }
func (s *lSub) Close() error { s.once.Do(func() { close(s.closed) }); return nil }

// vTimeout is a channel.Timeout on the virtual clock.
type vTimeout struct{ at time.Time }

func (t *vTimeout) IsElapsed(context.Context) bool { return !time.Now().Before(t.at) }
func (t *vTimeout) Wait(ctx context.Context) error {
	d := time.Until(t.at)
	if d <= 0 {
		return nil
	}
	select {
	case <-time.After(d):
		return nil
	case <-ctx.Done():
		return ctx.Err()
	}
}
func (t *vTimeout) String() string { return fmt.Sprintf("<timeout at %d>", t.at.Unix()) }

// NewStrictLedger creates an empty ledger.
func NewStrictLedger() *StrictLedger {
	return &StrictLedger{chs: map[channel.ID]*lChan{}, accts: map[string]map[string]*big.Int{}}
}

func addrKey(a wallet.Address) string { b, _ := a.MarshalBinary(); return string(b) }
func assetKey(a channel.Asset) string { b, _ := a.MarshalBinary(); return string(b) }

// Deposit credits an account.
func (l *StrictLedger) Deposit(a wallet.Address, asset channel.Asset, amt int64) {
	l.mu.Lock()
	defer l.mu.Unlock()
	l.acct(a, asset).Add(l.acct(a, asset), big.NewInt(amt))
}

func (l *StrictLedger) acct(a wallet.Address, asset channel.Asset) *big.Int {
	m := l.accts[addrKey(a)]
	if m == nil {
		m = map[string]*big.Int{}
		l.accts[addrKey(a)] = m
	}
	if m[assetKey(asset)] == nil {
		m[assetKey(asset)] = new(big.Int)
	}
	return m[assetKey(asset)]
}

// Balance returns an account balance.
func (l *StrictLedger) Balance(a wallet.Address, asset channel.Asset) int64 {
	l.mu.Lock()
	defer l.mu.Unlock()
	return l.acct(a, asset).Int64()
}

// Held returns what the ledger holds for a channel (asset 0), per participant, and whether the channel is known.
func (l *StrictLedger) Held(id channel.ID) ([]int64, bool) {
	l.mu.Lock()
	defer l.mu.Unlock()
	c := l.chs[id]
	if c == nil || c.held == nil {
		return nil, false
	}
	var h []int64
	for _, b := range c.held[0] {
		h = append(h, b.Int64())
	}
	return h, true
}

// Registered returns the registered version (-1 if none), whether concluded and the time-out.
func (l *StrictLedger) Registered(id channel.ID) (ver int, concluded bool, timeout time.Time) {
	l.mu.Lock()
	defer l.mu.Unlock()
	c := l.chs[id]
	if c == nil || c.reg == nil {
		return -1, false, time.Time{}
	}
	return int(c.reg.Version), c.concluded, c.timeout
}

func (l *StrictLedger) get(id channel.ID) *lChan {
	c := l.chs[id]
	if c == nil {
		c = &lChan{fundedCh: make(chan struct{}), concludedVer: -1}
		l.chs[id] = c
	}
	return c
}

func (l *StrictLedger) logev(e LedgerEvent) {
	e.Time = time.Now().Unix()
	l.Log = append(l.Log, e)
}

func verifyAll(p *channel.Params, s *channel.State, sigs []wallet.Sig) error {
	if s == nil {
		return errors.New("no state")
	}
	if s.ID != p.ID() {
		return errors.New("state id does not match the parameters")
	}
	if len(sigs) != len(p.Parts) {
		return fmt.Errorf("%d signatures for %d participants", len(sigs), len(p.Parts))
	}
	for i, part := range p.Parts {
		if sigs[i] == nil {
			return fmt.Errorf("signature %d missing", i)
		}
		for _, a := range part {
			ok, err := channel.Verify(a, s, sigs[i])
			if err != nil || !ok {
				return fmt.Errorf("invalid signature %d", i)
			}
		}
	}
	return nil
}

func stEnc(s *channel.State) []byte {
	var b bytes.Buffer
	_ = s.Encode(&b)
	return b.Bytes()
}

func (l *StrictLedger) emit(c *lChan, e channel.AdjudicatorEvent) {
	for _, s := range c.subs {
		select {
		case s.ev <- e:
		case <-s.closed:
		}
	}
}

// Backend is the funder / adjudicator / register-subscriber of one account.
type Backend struct {
	L    *StrictLedger
	Acc  wallet.Address
	Name string
}

// NewBackend creates the per-account view of the ledger.
func (l *StrictLedger) NewBackend(name string, acc wallet.Address) *Backend {
	return &Backend{L: l, Acc: acc, Name: name}
}

// Fund implements channel.Funder.
func (b *Backend) Fund(ctx context.Context, req channel.FundingReq) error {
	l := b.L
	l.mu.Lock()
	c := l.get(req.Params.ID())
	if c.held == nil {
		c.params = req.Params
		c.held = channel.MakeBalances(len(req.State.Assets), len(req.Params.Parts))
		c.funded = make([]bool, len(req.Params.Parts))
	}
	var amts []int64
	if !c.funded[req.Idx] {
		for a := range req.State.Assets {
			amt := req.Agreement[a][req.Idx]
			acct := l.acct(b.Acc, req.State.Assets[a])
			if acct.Cmp(amt) < 0 {
				l.logev(LedgerEvent{Op: "fund-refused", Who: b.Name, Ch: req.Params.ID(), Why: "insufficient account balance"})
				l.mu.Unlock()
				return errors.New("insufficient funds")
			}
			acct.Sub(acct, amt)
			c.held[a][req.Idx].Add(c.held[a][req.Idx], amt)
			amts = append(amts, amt.Int64())
		}
		c.funded[req.Idx] = true
		all := true
		for _, f := range c.funded {
			all = all && f
		}
		if all {
			close(c.fundedCh)
		}
		l.logev(LedgerEvent{Op: "fund", Who: b.Name, Ch: req.Params.ID(), Amt: amts})
	}
	l.mu.Unlock()
	select {
	case <-c.fundedCh:
		if g := l.FundGate; g != nil { // a scheduling point: the funding is complete, this caller learns it later
			if ch := g(b.Name, req.Params.ID()); ch != nil {
				select {
				case <-ch:
				case <-ctx.Done():
					return ctx.Err()
				}
			}
		}
		return nil
	case <-time.After(time.Duration(req.Params.ChallengeDuration) * time.Second):
		return channel.NewFundingTimeoutError([]*channel.AssetFundingError{{Asset: 0, TimedOutPeers: []channel.Index{req.Idx ^ 1}}})
	case <-ctx.Done():
		return ctx.Err()
	}
}

// registerOne applies the registration rules to one channel. The lock is held.
func (l *StrictLedger) registerOne(who string, p *channel.Params, s *channel.State, sigs []wallet.Sig) (changed bool, err error) {
	c := l.get(p.ID())
	if c.params == nil {
		c.params = p
	}
	if c.concluded {
		return false, nil
	}
	if c.reg != nil {
		if bytes.Equal(stEnc(c.reg), stEnc(s)) {
			return false, nil
		}
		if s.Version <= c.reg.Version {
			return false, fmt.Errorf("version %d is not higher than the registered version %d", s.Version, c.reg.Version)
		}
		if !time.Now().Before(c.timeout) {
			return false, errors.New("refutation period has ended")
		}
	}
	c.reg, c.regSigs = s.Clone(), wallet.CloneSigs(sigs)
	c.timeout = time.Now().Add(time.Duration(p.ChallengeDuration) * time.Second)
	return true, nil
}

// Register implements channel.Adjudicator / channel.Registerer.
func (b *Backend) Register(_ context.Context, req channel.AdjudicatorReq, subs []channel.SignedState) error {
	l := b.L
	l.mu.Lock()
	refuse := func(why string) error {
		l.logev(LedgerEvent{Op: "register-refused", Who: b.Name, Ch: req.Params.ID(), Ver: int(req.Tx.Version), Why: why})
		l.mu.Unlock()
		return errors.New("register: " + why)
	}
	if err := verifyAll(req.Params, req.Tx.State, req.Tx.Sigs); err != nil {
		return refuse(err.Error())
	}
	if len(subs) != len(req.Tx.Locked) {
		return refuse(fmt.Sprintf("%d sub-channel states for %d locked sub-allocations", len(subs), len(req.Tx.Locked)))
	}
	var subVers []int
	for i, s := range subs {
		if s.State == nil || s.Params == nil {
			return refuse(fmt.Sprintf("sub-channel state %d missing", i))
		}
		if err := verifyAll(s.Params, s.State, s.Sigs); err != nil {
			return refuse(fmt.Sprintf("sub-channel %d: %v", i, err))
		}
		if s.State.ID != req.Tx.Locked[i].ID {
			return refuse(fmt.Sprintf("sub-channel state %d is not for the %d-th locked sub-allocation", i, i))
		}
		sum := s.State.Allocation.Sum()
		for a := range sum {
			if a >= len(req.Tx.Locked[i].Bals) || sum[a].Cmp(req.Tx.Locked[i].Bals[a]) != 0 {
				return refuse(fmt.Sprintf("outcome of sub-channel %d does not equal its locked funds", i))
			}
		}
		subVers = append(subVers, int(s.State.Version))
	}
	type emitted struct {
		c *lChan
		e channel.AdjudicatorEvent
	}
	var evs []emitted
	changed, err := l.registerOne(b.Name, req.Params, req.Tx.State, req.Tx.Sigs)
	if err != nil {
		return refuse(err.Error())
	}
	if changed {
		c := l.get(req.Params.ID())
		evs = append(evs, emitted{c, channel.NewRegisteredEvent(req.Params.ID(), &vTimeout{c.timeout}, req.Tx.Version, c.reg, c.regSigs)})
	}
	for _, s := range subs {
		ch, err := l.registerOne(b.Name, s.Params, s.State, s.Sigs)
		if err != nil {
			continue // an older sub-channel state than the registered one does not undo the parent's registration
		}
		if ch {
			c := l.get(s.Params.ID())
			evs = append(evs, emitted{c, channel.NewRegisteredEvent(s.Params.ID(), &vTimeout{c.timeout}, s.State.Version, c.reg, c.regSigs)})
		}
	}
	l.logev(LedgerEvent{Op: "register", Who: b.Name, Ch: req.Params.ID(), Ver: int(req.Tx.Version), Subs: subVers})
	hook := l.Hook
	l.mu.Unlock()
	if hook != nil {
		hook(b.Name, "registered", req.Params.ID(), req.Tx.Version)
	}
	l.mu.Lock()
	for _, e := range evs {
		l.emit(e.c, e.e)
	}
	l.mu.Unlock()
	return nil
}

// Progress implements channel.Adjudicator (force-execution is not part of the scenarios).
func (b *Backend) Progress(context.Context, channel.ProgressReq) error {
	return errors.New("progress: not supported by the reference ledger")
}

// Withdraw implements channel.Adjudicator.
func (b *Backend) Withdraw(ctx context.Context, req channel.AdjudicatorReq, subStates channel.StateMap) error {
	l := b.L
	l.mu.Lock()
	c := l.get(req.Params.ID())
	refuse := func(why string) error {
		l.logev(LedgerEvent{Op: "withdraw-refused", Who: b.Name, Ch: req.Params.ID(), Ver: int(req.Tx.Version), Why: why})
		l.mu.Unlock()
		return errors.New("withdraw: " + why)
	}
	if c.held == nil {
		return refuse("channel was never funded")
	}
	if !c.concluded {
		final := req.Tx.IsFinal && len(req.Tx.Locked) == 0
		if final && (c.reg == nil || c.reg.Version <= req.Tx.Version) {
			if err := verifyAll(req.Params, req.Tx.State, req.Tx.Sigs); err != nil {
				return refuse(err.Error())
			}
			c.reg, c.regSigs = req.Tx.State.Clone(), req.Tx.Sigs
		} else {
			if c.reg == nil {
				return refuse("no state registered and the state is not final")
			}
			if !bytes.Equal(stEnc(c.reg), stEnc(req.Tx.State)) {
				return refuse(fmt.Sprintf("state v%d is not the registered state v%d", req.Tx.Version, c.reg.Version))
			}
			for _, la := range c.reg.Locked {
				sc := l.chs[la.ID]
				st, ok := subStates[la.ID]
				if sc == nil || sc.reg == nil || !ok || !bytes.Equal(stEnc(sc.reg), stEnc(st)) {
					return refuse("a locked sub-channel's state is not the registered one")
				}
			}
			to := c.timeout
			for _, la := range c.reg.Locked {
				if t := l.chs[la.ID].timeout; t.After(to) {
					to = t
				}
			}
			if d := time.Until(to); d > 0 {
				l.mu.Unlock()
				select {
				case <-time.After(d):
				case <-ctx.Done():
					return ctx.Err()
				}
				l.mu.Lock()
				// a refutation may have arrived meanwhile
				if !c.concluded && !bytes.Equal(stEnc(c.reg), stEnc(req.Tx.State)) {
					return refuse(fmt.Sprintf("state v%d was refuted by v%d", req.Tx.Version, c.reg.Version))
				}
			}
		}
		if !c.concluded {
			c.concluded = true
			c.concludedVer = int(c.reg.Version)
			outcome := c.reg.Balances.Clone()
			for _, la := range c.reg.Locked {
				sub := l.chs[la.ID].reg
				l.chs[la.ID].concluded = true
				for a := range sub.Balances {
					for i, bal := range sub.Balances[a] {
						p := i
						if len(la.IndexMap) > i {
							p = int(la.IndexMap[i])
						}
						outcome[a][p].Add(outcome[a][p], bal)
					}
				}
			}
			for a := range c.held {
				sumHeld, sumOut := new(big.Int), new(big.Int)
				for i := range c.held[a] {
					sumHeld.Add(sumHeld, c.held[a][i])
					sumOut.Add(sumOut, outcome[a][i])
				}
				if sumHeld.Cmp(sumOut) >= 0 { // otherwise the asset is not redistributed (under-funded)
					for i := range c.held[a] {
						c.held[a][i].Set(outcome[a][i])
					}
				}
			}
			l.logev(LedgerEvent{Op: "conclude", Who: b.Name, Ch: req.Params.ID(), Ver: int(c.reg.Version)})
			l.emit(c, channel.NewConcludedEvent(req.Params.ID(), &channel.ElapsedTimeout{}, c.reg.Version))
		}
	}
	var amts []int64
	for a := range c.held {
		amt := new(big.Int).Set(c.held[a][req.Idx])
		acct := l.acct(b.Acc, c.reg.Assets[a])
		acct.Add(acct, amt)
		c.held[a][req.Idx].SetInt64(0)
		amts = append(amts, amt.Int64())
	}
	l.logev(LedgerEvent{Op: "payout", Who: b.Name, Ch: req.Params.ID(), Ver: int(c.reg.Version), Amt: amts})
	l.mu.Unlock()
	return nil
}

// Subscribe implements channel.Adjudicator / channel.RegisterSubscriber.
func (b *Backend) Subscribe(ctx context.Context, id channel.ID) (channel.AdjudicatorSubscription, error) {
	l := b.L
	l.mu.Lock()
	defer l.mu.Unlock()
	c := l.get(id)
	s := &lSub{ev: make(chan channel.AdjudicatorEvent, 64), closed: make(chan struct{})}
	if ctx.Done() != nil { // the subscription lives as long as the context it was made with
		go func() {
			select {
			case <-ctx.Done():
				_ = s.Close()
			case <-s.closed:
			}
		}()
	}
	c.subs = append(c.subs, s)
	if c.concluded && c.reg != nil {
		s.ev <- channel.NewConcludedEvent(id, &channel.ElapsedTimeout{}, c.reg.Version)
	} else if c.reg != nil {
		s.ev <- channel.NewRegisteredEvent(id, &vTimeout{c.timeout}, c.reg.Version, c.reg, c.regSigs)
	}
	return s, nil
}
