package cdrv

import (
	"context"
	"fmt"
	"math/big"
	"os"
	"testing"
	"testing/synctest"

	"perun.network/go-perun/channel"
)

// TestSmoke opens a channel, performs one update with explicit delivery and settles (VERIF_SMOKE=1).
func TestSmoke(t *testing.T) {
	if os.Getenv("VERIF_SMOKE") == "" {
		t.Skip()
	}
	synctest.Test(t, func(t *testing.T) {
		w := NewWorld(t, 1, "A", "B")
		defer w.Close()
		chA, chB, err := w.OpenLedgerChannel(w.P[0], w.P[1], 60, 10, 10)
		if err != nil {
			t.Fatal(err)
		}
		go chA.Watch(w.P[0])
		go chB.Watch(w.P[1])
		w.Quiesce()
		ctx := context.Background()
		done := make(chan error, 1)
		go func() {
			done <- chA.Update(ctx, func(s *channel.State) {
				s.Balances[0][0].Sub(s.Balances[0][0], big.NewInt(3))
				s.Balances[0][1].Add(s.Balances[0][1], big.NewInt(3))
			})
		}()
		w.Quiesce()
		fmt.Println("pending after Update start:", w.Bus.PendingInfo())
		w.Bus.Deliver(0)
		w.Quiesce()
		u := w.P[1].TakeUpdate()
		fmt.Println("B handler got update v", u.Upd.State.Version)
		go u.Resp.Accept(ctx)
		w.Quiesce()
		fmt.Println("pending after accept:", w.Bus.PendingInfo())
		w.Bus.Deliver(0)
		w.Quiesce()
		fmt.Println("A.Update returned:", <-done, " versions:", chA.State().Version, chB.State().Version)
		if err := chA.Settle(ctx, false); err != nil {
			t.Fatal("settle A:", err)
		}
		if err := chB.Settle(ctx, false); err != nil {
			t.Fatal("settle B:", err)
		}
		fmt.Println("accounts:", w.Ledger.Balance(w.P[0].Acc.Address(), w.Asset), w.Ledger.Balance(w.P[1].Acc.Address(), w.Asset))
		for _, e := range w.Ledger.Log {
			fmt.Printf("  ledger: %s %s v%d t=%d %v %s\n", e.Op, e.Who, e.Ver, e.Time, e.Amt, e.Why)
		}
		fmt.Println("persist events:", len(w.PLog))
		chA.Close()
		chB.Close()
	})
}
