package cdrv

import (
	"bufio"
	"context"
	"encoding/json"
	"fmt"
	"math/big"
	"os"
	"runtime"
	"sort"
	"strconv"
	"strings"
	"sync/atomic"
	"testing"
	"testing/synctest"
	"time"

	simchannel "perun.network/go-perun/backend/sim/channel"
	"perun.network/go-perun/channel"
	"perun.network/go-perun/client"
	"perun.network/go-perun/wallet"
	"perun.network/go-perun/wire"
	"verif/harness/drv"
)

type propAbs struct {
	Kind      string `json:"kind"`
	Sender    string `json:"sender"`
	CD        int    `json:"cd"`
	Cols      int    `json:"cols"`
	Bals      string `json:"bals"`
	Locked    bool   `json:"locked"`
	LockedAmt int    `json:"lockedamt"`
	Peers     string `json:"peers"`
	Parent    string `json:"parent"`
	Assets    string `json:"assets"`
	Funds     string `json:"funds"`
	FA        string `json:"fa"`
	Parents   string `json:"parents"`
	IMaps     string `json:"imaps"`
	Busy      bool   `json:"busy"`
}

type propCase struct {
	Prop      propAbs `json:"prop"`
	Mutant    string  `json:"mutant"`
	HasParent bool    `json:"hasParent"`
	Expect    string  `json:"expect"`
	line      string
}

func loadJSONLines[T any](path string, set func(*T, string)) ([]*T, error) {
	f, err := os.Open(path)
	if err != nil {
		return nil, err
	}
	defer f.Close()
	var out []*T
	sc := bufio.NewScanner(f)
	sc.Buffer(make([]byte, 1<<20), 1<<26)
	for sc.Scan() {
		ln := sc.Text()
		if !strings.HasPrefix(ln, "\"{") {
			continue
		}
		js, err := strconv.Unquote(ln)
		if err != nil {
			return nil, err
		}
		c := new(T)
		if err := json.Unmarshal([]byte(js), c); err != nil {
			return nil, err
		}
		set(c, js)
		out = append(out, c)
	}
	return out, sc.Err()
}

// Supervised helps running cases in a process that may be killed by a panic of
// go-perun in a goroutine: progress and violations are written immediately.
type Supervised struct {
	progress string
	viol     *os.File
	// watchdog (real time): goroutines blocked on a sync.Mutex / RWMutex are not "durably blocked" for synctest, so a
	// mutex deadlock inside go-perun makes synctest.Wait - and with it the driver - wait for ever. If a case takes
	// longer than the limit, OnHang is called with the case and all stacks, and the process exits (the supervisor
	// restarts the driver behind the case).
	deadline atomic.Int64
	current  atomic.Value // string
	OnHang   func(s *Supervised, desc, stacks string)
}

func newSupervised() *Supervised {
	s := &Supervised{progress: os.Getenv("VERIF_PROGRESS")}
	if p := os.Getenv("VERIF_VIOL_LOG"); p != "" {
		s.viol, _ = os.OpenFile(p, os.O_APPEND|os.O_CREATE|os.O_WRONLY, 0o644)
	}
	limit := time.Duration(drv.EnvInt("VERIF_CASE_LIMIT_S", 60)) * time.Second
	go func() {
		for {
			time.Sleep(time.Second)
			d := s.deadline.Load()
			if d == 0 || time.Now().UnixNano() < d {
				continue
			}
			buf := make([]byte, 8<<20)
			buf = buf[:runtime.Stack(buf, true)]
			desc, _ := s.current.Load().(string)
			if s.OnHang != nil {
				s.OnHang(s, desc, string(buf))
			}
			fmt.Printf("VERIF-WATCHDOG: case %q did not finish within %v of real time\n", desc, limit)
			os.Exit(3)
		}
	}()
	return s
}

// Begin records the case about to run and re-arms the watchdog.
func (s *Supervised) Begin(i int, what string) {
	if s.progress != "" {
		_ = os.WriteFile(s.progress, []byte(fmt.Sprintf("%d\t%s", i, what)), 0o644)
	}
	s.current.Store(what)
	s.deadline.Store(time.Now().Add(time.Duration(drv.EnvInt("VERIF_CASE_LIMIT_S", 60)) * time.Second).UnixNano())
}

// mutexBlocked lists the go-perun call chains of goroutines that wait for a sync.Mutex / RWMutex (from a dump of all stacks).
func mutexBlocked(stacks string) []string {
	var out []string
	for _, g := range strings.Split(stacks, "\n\n") {
		if !strings.Contains(g, "sync.(*RWMutex)") && !strings.Contains(g, "sync.(*Mutex)") && !strings.Contains(g, "sync.runtime_Semacquire") {
			continue
		}
		var chain []string
		for _, ln := range strings.Split(g, "\n") {
			if strings.HasPrefix(ln, "perun.network/go-perun/") {
				f := strings.TrimPrefix(ln, "perun.network/go-perun/")
				if i := strings.LastIndex(f, "("); i > 0 {
					f = f[:i]
				}
				chain = append(chain, f)
			}
		}
		if len(chain) > 0 {
			if len(chain) > 4 {
				chain = chain[:4]
			}
			out = append(out, strings.Join(chain, " < "))
		}
	}
	sort.Strings(out)
	return out
}

// Violate records a violation durably.
func (s *Supervised) Violate(prop, kind, sig, what string, replay any) {
	if s.viol == nil {
		return
	}
	b, _ := json.Marshal(map[string]any{"property": prop, "kind": kind, "sig": sig, "what": what, "replay_obj": replay})
	_, _ = s.viol.Write(append(b, '\n'))
	_ = s.viol.Sync()
}

// buildProposal crafts the concrete proposal message of an abstract one.
func buildProposal(w *World, a propAbs, h, i, s *Party, parentID channel.ID, other channel.Asset) (wire.Msg, map[wallet.BackendID]wire.Address) {
	// allocation
	al := &channel.Allocation{}
	assets := []channel.Asset{w.Asset}
	switch a.Assets {
	case "other":
		assets = []channel.Asset{other}
	case "extra":
		assets = []channel.Asset{w.Asset, other}
	}
	if (a.Bals == "ragged" || a.Bals == "raggedlong") && len(assets) == 1 {
		assets = append(assets, other)
	}
	// the receiver's parent holds I 9 / H 5 (I 4 / H 10 once the pending update of a busy parent is through); in a virtual
	// channel H stands in for the first end point (index map [1 0])
	b0, b1 := int64(3), int64(2)
	switch a.Funds {
	case "exceed":
		b0, b1 = 11, 1
	case "exceedmapped":
		b0, b1 = 8, 2
	case "taken":
		b0, b1 = 6, 1
		if a.Kind == "virtual" {
			b0, b1 = 3, 6
		}
	}
	if a.Bals == "negative" {
		b0, b1 = -1, 6
	}
	for x, as := range assets {
		row := []channel.Bal{big.NewInt(b0), big.NewInt(b1)}
		switch a.Cols {
		case 1:
			row = row[:1]
		case 3:
			row = append(row, big.NewInt(0))
		}
		if a.Bals == "ragged" && x == 1 {
			row = row[:len(row)-1]
		}
		if a.Bals == "raggedlong" && x == 1 {
			row = append(row, big.NewInt(0))
		}
		al.Assets = append(al.Assets, as)
		bid := wallet.BackendID(channel.TestBackendID)
		if a.Assets == "backend" {
			bid = 1
		}
		al.Backends = append(al.Backends, bid)
		al.Balances = append(al.Balances, row)
	}
	if a.Bals == "noassets" {
		al.Assets, al.Backends, al.Balances = nil, nil, nil
	}
	if a.Locked {
		bs := make([]channel.Bal, len(al.Assets))
		for x := range bs {
			bs[x] = big.NewInt(int64(a.LockedAmt))
		}
		al.Locked = []channel.SubAlloc{*channel.NewSubAlloc(channel.ID{9, 9}, bs, nil)}
	}
	fa := al.Balances.Clone()
	if a.FA == "shifted" && len(fa) > 0 && len(fa[0]) >= 2 {
		fa[0][0] = new(big.Int).Add(fa[0][0], big.NewInt(1))
		fa[0][1] = new(big.Int).Sub(fa[0][1], big.NewInt(1))
	}
	if a.FA == "small" {
		for x := range fa {
			for y := range fa[x] {
				fa[x][y] = big.NewInt(1)
			}
		}
	}
	base := client.BaseChannelProposal{ChallengeDuration: uint64(a.CD), App: channel.NoApp(), InitData: channel.NoData(), InitBals: al, FundingAgreement: fa}
	base.ProposalID[0], base.ProposalID[1] = 7, byte(len(a.Kind))
	base.NonceShare[0] = 1
	sender := s
	if a.Sender == "I" {
		sender = i
	}
	S, R, X := sender.WireAddr(), h.WireAddr(), s.WireAddr()
	if a.Sender != "I" {
		X = i.WireAddr()
	}
	var peers []map[wallet.BackendID]wire.Address
	switch a.Peers {
	case "SR":
		peers = []map[wallet.BackendID]wire.Address{S, R}
	case "RS":
		peers = []map[wallet.BackendID]wire.Address{R, S}
	case "SX":
		peers = []map[wallet.BackendID]wire.Address{S, X}
	case "XR":
		peers = []map[wallet.BackendID]wire.Address{X, R}
	case "S":
		peers = []map[wallet.BackendID]wire.Address{S}
	case "SRX":
		peers = []map[wallet.BackendID]wire.Address{S, R, X}
	case "ER":
		peers = []map[wallet.BackendID]wire.Address{{}, R}
	case "SE":
		peers = []map[wallet.BackendID]wire.Address{S, {}}
	}
	rnd := func(n byte) channel.ID { return channel.ID{0xee, n, 3} }
	switch a.Kind {
	case "ledger":
		return &client.LedgerChannelProposalMsg{BaseChannelProposal: base, Participant: sender.WalletAddr(), Peers: peers}, S
	case "sub":
		p := parentID
		if a.Parent == "unknown" {
			p = rnd(1)
		}
		return &client.SubChannelProposalMsg{BaseChannelProposal: base, Parent: p}, S
	default:
		var parents []channel.ID
		switch a.Parents {
		case "ok":
			parents = []channel.ID{rnd(1), parentID}
		case "none":
			parents = []channel.ID{}
		case "one":
			parents = []channel.ID{parentID}
		case "three":
			parents = []channel.ID{rnd(1), parentID, rnd(2)}
		case "unknown":
			parents = []channel.ID{rnd(1), rnd(2)}
		}
		var im [][]channel.Index
		switch a.IMaps {
		case "ok":
			im = [][]channel.Index{{0, 1}, {1, 0}}
		case "one":
			im = [][]channel.Index{{0, 1}}
		case "three":
			im = [][]channel.Index{{0, 1}, {1, 0}, {0, 1}}
		case "entry2":
			im = [][]channel.Index{{0, 1}, {2, 0}}
		case "long":
			im = [][]channel.Index{{0, 1}, {1, 0, 1}}
		case "dup0":
			im = [][]channel.Index{{0, 1}, {0, 0}}
		case "dup1":
			im = [][]channel.Index{{0, 1}, {1, 1}}
		}
		return &client.VirtualChannelProposalMsg{BaseChannelProposal: base, Proposer: sender.WalletAddr(), Peers: peers, Parents: parents, IndexMaps: im}, S
	}
}

var proposalLeftovers int

// runProposalCase delivers one crafted proposal to a real client and reports whether the handler ran.
func runProposalCase(t *testing.T, c *propCase, proto bool, idx int) (invoked bool, nchans int, undecodable string) {
	defer func() {
		if p := recover(); p != nil { // goroutines left over at the end of the bubble: a leak, not what C08 states
			proposalLeftovers++
		}
	}()
	synctest.Test(t, func(t *testing.T) {
		NoWatcher = map[string]bool{}
		w := NewWorld(t, int64(idx)+1, "H", "I", "S")
		defer w.Close()
		h, i, s := w.P[0], w.P[1], w.P[2]
		var parentID channel.ID
		if c.HasParent {
			chI, chH, err := w.OpenLedgerChannel(i, h, 60, 9, 5) // I proposes: only the parent's proposer can propose sub-channels
			if err != nil {
				undecodable = "setup: " + err.Error()
				return
			}
			parentID = chH.ID()
			if c.Prop.Busy { // an update by which I pays 5 waits for H's user
				uctx, ucancel := context.WithCancel(context.Background())
				defer func() { ucancel(); w.Quiesce() }()
				go func() {
					_ = chI.Update(uctx, func(s *channel.State) {
						s.Balances[0][0] = new(big.Int).Sub(s.Balances[0][0], big.NewInt(5))
						s.Balances[0][1] = new(big.Int).Add(s.Balances[0][1], big.NewInt(5))
					})
				}()
				w.Quiesce()
				if k := w.Bus.Find(func(e *wire.Envelope) bool { return w.Bus.Info(e).T == "upd" }); k >= 0 {
					w.Bus.Deliver(k)
					w.Quiesce()
				}
				if h.NPendingUpdatesFor(parentID) != 1 {
					undecodable = "setup: the parent update did not reach H's handler"
					return
				}
			}
		}
		created := 0
		h.C.OnNewChannel(func(*client.Channel) { created++ })
		other := simchannel.NewRandomAsset(w.Rng)
		msg, sender := buildProposal(w, c.Prop, h, i, s, parentID, other)
		w.Bus.Proto = proto
		if err := w.Bus.Inject(&wire.Envelope{Sender: sender, Recipient: h.WireAddr(), Msg: msg}); err != nil {
			undecodable = err.Error()
			return
		}
		w.Quiesce()
		if u := h.TakeUpdateFor(parentID); u != nil && c.Prop.Busy { // the user now accepts the pending parent update
			go func() { _ = u.Resp.Accept(context.Background()) }()
			w.Quiesce()
			if k := w.Bus.Find(func(e *wire.Envelope) bool { return w.Bus.Info(e).T == "acc" }); k >= 0 {
				w.Bus.Deliver(k)
				w.Quiesce()
			}
		}
		if p := h.TakeProposal(); p != nil {
			invoked = true
			go func() { _ = p.Resp.Reject(context.Background(), "no") }()
			w.Quiesce()
		}
		nchans = created
	})
	return
}

// TestProposalCases executes the cases exported by Proposal.tla (VERIF_CASES), both serializers.
func TestProposalCases(t *testing.T) {
	path := os.Getenv("VERIF_CASES")
	if path == "" {
		t.Skip()
	}
	res := drv.NewResult("proposal")
	defer func() {
		if err := res.Write(); err != nil {
			t.Fatal(err)
		}
	}()
	cases, err := loadJSONLines(path, func(c *propCase, s string) { c.line = s })
	if err != nil {
		t.Fatal(err)
	}
	sup := newSupervised()
	start := drv.EnvInt("VERIF_START", 0)
	res.Add("cases", len(cases))
	defer func() { res.Add("leftover_goroutines", proposalLeftovers) }()
	for n := start; n < 2*len(cases); n++ {
		c, proto := cases[n/2], n%2 == 1
		ser := "native"
		if proto {
			ser = "protobuf"
		}
		sup.Begin(n, fmt.Sprintf("%s|%s|%s", c.Prop.Kind, c.Mutant, ser))
		invoked, nchans, undec := runProposalCase(t, c, proto, n)
		res.Add("evaluations", 1)
		if undec != "" {
			res.Add("not_decodable", 1)
			res.Seen("undecodable", c.Prop.Kind+"|"+c.Mutant+"|"+ser)
			continue
		}
		res.Seen("case", fmt.Sprintf("%s|%s|%v|%s|%s", c.Prop.Kind, c.Mutant, c.HasParent, ser, c.Expect))
		rp := map[string]any{"driver": "proposal", "serializer": ser, "case": json.RawMessage(c.line)}
		switch {
		case c.Expect == "dropped" && invoked:
			sup.Violate("C08", "monitor", "handler-ran|"+c.Prop.Kind+"|"+c.Mutant, fmt.Sprintf("a %s proposal with defect %q (receiver has parent channel: %v, %s serializer) reached the user's proposal handler", c.Prop.Kind, c.Mutant, c.HasParent, ser), rp)
			res.Violate("C08", "monitor", "handler-ran|"+c.Prop.Kind+"|"+c.Mutant, fmt.Sprintf("a %s proposal with defect %q (receiver has parent channel: %v, %s serializer) reached the user's proposal handler", c.Prop.Kind, c.Mutant, c.HasParent, ser), rp)
		case c.Expect == "handler" && !invoked:
			res.Violate("C08", "conformance", "wellformed-dropped|"+c.Prop.Kind+"|"+c.Mutant, fmt.Sprintf("a well-formed %s proposal (%q, parent %v, %s) did not reach the handler", c.Prop.Kind, c.Mutant, c.HasParent, ser), rp)
		}
		if nchans != 0 {
			res.Violate("C08", "monitor", "channel-created|"+c.Prop.Kind+"|"+c.Mutant, "a rejected / dropped proposal created a channel", rp)
		}
		if n < 3 {
			var v any
			_ = json.Unmarshal([]byte(c.line), &v)
			res.Sample(v)
		}
	}
}
