package cdrv

import (
	"context"
	"fmt"
	"math/big"
	"math/rand"
	"sync"
	"testing"
	"testing/synctest"
	"time"

	_ "perun.network/go-perun/backend/sim" // backend init
	simchannel "perun.network/go-perun/backend/sim/channel"
	"perun.network/go-perun/channel"
	"perun.network/go-perun/channel/persistence"
	"perun.network/go-perun/client"
	"perun.network/go-perun/wallet"
	wtest "perun.network/go-perun/wallet/test"
	"perun.network/go-perun/watcher"
	"perun.network/go-perun/watcher/local"
	"perun.network/go-perun/wire"
	wiretest "perun.network/go-perun/wire/test"
)

// PersistEvent is one call of the recording persister (made under the
// channel's machine mutex, i.e. at the linearisation points of the machine).
type PersistEvent struct {
	Who   string
	Kind  string // created, staged, sigadded, enabled, phase, removed
	Ch    channel.ID
	Phase channel.Phase
	Cur   channel.Transaction
	Stg   channel.Transaction
	// CurSigned: every participant's signature on the current transaction verified by the harness.
	CurSigned bool
}

// RecPersister records every persister call; it persists nothing.
type RecPersister struct {
	persistence.PersistRestorer
	Who string
	mu  *sync.Mutex
	log *[]PersistEvent
	on  *func(who, kind string, id channel.ID) // World.OnPersist: called after every recorded call (a natural gate: go-perun
	// persists under the channel's mutex right after the machine operation)
}

func (r *RecPersister) rec(kind string, s channel.Source) {
	ev := PersistEvent{Who: r.Who, Kind: kind, Ch: s.ID(), Phase: s.Phase(), Cur: s.CurrentTX().Clone(), Stg: s.StagingTX().Clone()}
	if ev.Cur.State != nil {
		ev.CurSigned = verifyAll(s.Params(), ev.Cur.State, ev.Cur.Sigs) == nil
	}
	r.mu.Lock()
	*r.log = append(*r.log, ev)
	r.mu.Unlock()
	if r.on != nil && *r.on != nil {
		(*r.on)(r.Who, kind, ev.Ch)
	}
}

func (r *RecPersister) ChannelCreated(_ context.Context, s channel.Source, _ []map[wallet.BackendID]wire.Address, _ *channel.ID) error {
	r.rec("created", s)
	return nil
}
func (r *RecPersister) ChannelRemoved(_ context.Context, id channel.ID) error {
	r.mu.Lock()
	*r.log = append(*r.log, PersistEvent{Who: r.Who, Kind: "removed", Ch: id})
	r.mu.Unlock()
	return nil
}
func (r *RecPersister) Staged(_ context.Context, s channel.Source) error {
	r.rec("staged", s)
	return nil
}
func (r *RecPersister) SigAdded(_ context.Context, s channel.Source, _ channel.Index) error {
	r.rec("sigadded", s)
	return nil
}
func (r *RecPersister) Enabled(_ context.Context, s channel.Source) error {
	r.rec("enabled", s)
	return nil
}
func (r *RecPersister) PhaseChanged(_ context.Context, s channel.Source) error {
	r.rec("phase", s)
	return nil
}
func (r *RecPersister) Close() error { return nil }

// PendingUpdate is an update request handed to the scripted update handler and not yet answered.
type PendingUpdate struct {
	Cur  *channel.State
	Upd  client.ChannelUpdate
	Resp *client.UpdateResponder
}

// PendingProposal is a proposal handed to the scripted proposal handler and not yet answered.
type PendingProposal struct {
	Prop client.ChannelProposal
	Resp *client.ProposalResponder
}

// Party is one real client with its environment.
type Party struct {
	Name    string
	Idx     int
	C       *client.Client
	Wallet  wtest.Wallet
	Acc     wallet.Account
	WireAcc map[wallet.BackendID]wire.Account
	Backend *Backend

	mu        sync.Mutex
	Updates   []*PendingUpdate
	Proposals []*PendingProposal
	Events    []channel.AdjudicatorEvent
}

// WireAddr returns the party's wire address map.
func (p *Party) WireAddr() map[wallet.BackendID]wire.Address {
	return wire.AddressMapfromAccountMap(p.WireAcc)
}

// WalletAddr returns the party's wallet address map.
func (p *Party) WalletAddr() map[wallet.BackendID]wallet.Address {
	return map[wallet.BackendID]wallet.Address{channel.TestBackendID: p.Acc.Address()}
}

// HandleAdjudicatorEvent implements client.AdjudicatorEventHandler.
func (p *Party) HandleAdjudicatorEvent(e channel.AdjudicatorEvent) {
	p.mu.Lock()
	p.Events = append(p.Events, e)
	p.mu.Unlock()
}

// TakeUpdate removes and returns the oldest unanswered update request (nil if none).
func (p *Party) TakeUpdate() *PendingUpdate {
	p.mu.Lock()
	defer p.mu.Unlock()
	if len(p.Updates) == 0 {
		return nil
	}
	u := p.Updates[0]
	p.Updates = p.Updates[1:]
	return u
}

// TakeUpdateFor removes and returns the oldest unanswered update request for channel id.
func (p *Party) TakeUpdateFor(id channel.ID) *PendingUpdate {
	p.mu.Lock()
	defer p.mu.Unlock()
	for i, u := range p.Updates {
		if u.Upd.State.ID == id {
			p.Updates = append(p.Updates[:i:i], p.Updates[i+1:]...)
			return u
		}
	}
	return nil
}

// NPendingUpdatesFor returns the number of unanswered update requests for channel id.
func (p *Party) NPendingUpdatesFor(id channel.ID) int {
	p.mu.Lock()
	defer p.mu.Unlock()
	n := 0
	for _, u := range p.Updates {
		if u.Upd.State.ID == id {
			n++
		}
	}
	return n
}

// NPendingUpdates returns the number of unanswered update requests.
func (p *Party) NPendingUpdates() int {
	p.mu.Lock()
	defer p.mu.Unlock()
	return len(p.Updates)
}

// TakeProposal removes and returns the oldest unanswered proposal (nil if none).
func (p *Party) TakeProposal() *PendingProposal {
	p.mu.Lock()
	defer p.mu.Unlock()
	if len(p.Proposals) == 0 {
		return nil
	}
	u := p.Proposals[0]
	p.Proposals = p.Proposals[1:]
	return u
}

// World is the complete environment of one scenario.
type World struct {
	T      *testing.T
	Rng    *rand.Rand
	Bus    *SchedBus
	Ledger *StrictLedger
	Asset  channel.Asset
	P      []*Party

	PMu  sync.Mutex
	PLog []PersistEvent
	// OnPersist, if set, is called after every persister call of every client.
	OnPersist func(who, kind string, id channel.ID)
}

// dummyWatcher is a watcher that never reacts (used for a party that is not supposed to refute).
type dummyWatcher struct{}
type dummyPub struct{}
type dummySub struct{ ch chan channel.AdjudicatorEvent }

func (dummyPub) Publish(context.Context, channel.Transaction) error { return nil }
func (s dummySub) EventStream() <-chan channel.AdjudicatorEvent     { return s.ch }
func (dummySub) Err() error                                         { return nil }
func (dummyWatcher) StopWatching(context.Context, channel.ID) error { return nil }
func (dummyWatcher) StartWatchingLedgerChannel(context.Context, channel.SignedState) (watcher.StatesPub, watcher.AdjudicatorSub, error) {
	return dummyPub{}, dummySub{make(chan channel.AdjudicatorEvent)}, nil
}
func (dummyWatcher) StartWatchingSubChannel(context.Context, channel.ID, channel.SignedState) (watcher.StatesPub, watcher.AdjudicatorSub, error) {
	return dummyPub{}, dummySub{make(chan channel.AdjudicatorEvent)}, nil
}

// NoWatcher names the parties that get a watcher that never reacts (set before NewWorld).
var NoWatcher = map[string]bool{}

// InitialDeposit is what every party owns on the ledger at the start.
const InitialDeposit = 100

// NewWorld creates n parties (real clients) around a scheduled bus and a strict ledger.
func NewWorld(t *testing.T, seed int64, names ...string) *World {
	w := &World{T: t, Rng: rand.New(rand.NewSource(seed)), Bus: NewSchedBus(), Ledger: NewStrictLedger()}
	w.Asset = simchannel.NewRandomAsset(w.Rng)
	for i, n := range names {
		p := &Party{Name: n, Idx: i}
		p.Wallet = wtest.NewWallet(channel.TestBackendID)
		p.Acc = p.Wallet.NewRandomAccount(w.Rng)
		p.WireAcc = wiretest.NewRandomAccountMap(w.Rng, channel.TestBackendID)
		p.Backend = w.Ledger.NewBackend(n, p.Acc.Address())
		w.Ledger.Deposit(p.Acc.Address(), w.Asset, InitialDeposit)
		var wt watcher.Watcher = dummyWatcher{}
		if !NoWatcher[n] {
			lw, err := local.NewWatcher(p.Backend)
			if err != nil {
				t.Fatal(err)
			}
			wt = lw
		}
		c, err := client.New(p.WireAddr(), w.Bus, p.Backend, p.Backend, map[wallet.BackendID]wallet.Wallet{channel.TestBackendID: p.Wallet}, wt)
		if err != nil {
			t.Fatal(err)
		}
		c.EnablePersistence(&RecPersister{PersistRestorer: persistence.NonPersistRestorer, Who: n, mu: &w.PMu, log: &w.PLog, on: &w.OnPersist})
		p.C = c
		w.Bus.Names[wire.Keys(p.WireAddr())] = n
		ph := client.ProposalHandlerFunc(func(prop client.ChannelProposal, r *client.ProposalResponder) {
			p.mu.Lock()
			p.Proposals = append(p.Proposals, &PendingProposal{prop, r})
			p.mu.Unlock()
		})
		uh := client.UpdateHandlerFunc(func(cur *channel.State, u client.ChannelUpdate, r *client.UpdateResponder) {
			p.mu.Lock()
			p.Updates = append(p.Updates, &PendingUpdate{cur, u, r})
			p.mu.Unlock()
		})
		go c.Handle(ph, uh)
		w.P = append(w.P, p)
	}
	return w
}

// Quiesce waits until every goroutine of the bubble is durably blocked.
func (w *World) Quiesce() { synctest.Wait() }

// Sleep advances the virtual clock and quiesces.
func (w *World) Sleep(d time.Duration) {
	time.Sleep(d)
	synctest.Wait()
}

// Close shuts all clients down and releases everything the harness holds.
func (w *World) Close() {
	w.Bus.mu.Lock()
	w.Bus.Auto = true
	w.Bus.Pending = nil
	w.Bus.mu.Unlock()
	for round := 0; round < 20; round++ {
		answered := false
		for _, p := range w.P {
			for u := p.TakeUpdate(); u != nil; u = p.TakeUpdate() {
				ctx, cancel := context.WithCancel(context.Background())
				cancel()
				r := u.Resp
				go func() { _ = r.Reject(ctx, "shutdown") }()
				answered = true
			}
			for u := p.TakeProposal(); u != nil; u = p.TakeProposal() {
				ctx, cancel := context.WithCancel(context.Background())
				cancel()
				r := u.Resp
				go func() { _ = r.Reject(ctx, "shutdown") }()
				answered = true
			}
		}
		synctest.Wait()
		if !answered {
			break
		}
	}
	for _, p := range w.P {
		_ = p.C.Close()
	}
	synctest.Wait()
	time.Sleep(2 * time.Minute) // let every pending time-out of go-perun fire
	synctest.Wait()
}

// Alloc builds a one-asset allocation with the given balances.
func (w *World) Alloc(bals ...int64) *channel.Allocation {
	al := channel.NewAllocation(len(bals), []wallet.BackendID{channel.TestBackendID}, w.Asset)
	bs := make([]channel.Bal, len(bals))
	for i, b := range bals {
		bs[i] = big.NewInt(b)
	}
	al.SetAssetBalances(w.Asset, bs)
	return al
}

// OpenLedgerChannel opens a ledger channel between parties a (proposer) and b
// with the real proposal protocol, delivering everything immediately. It
// returns both parties' channel objects.
func (w *World) OpenLedgerChannel(a, b *Party, challenge uint64, balA, balB int64, opts ...client.ProposalOpts) (*client.Channel, *client.Channel, error) {
	w.Bus.mu.Lock()
	auto := w.Bus.Auto
	w.Bus.Auto = true
	w.Bus.mu.Unlock()
	defer func() {
		w.Bus.mu.Lock()
		w.Bus.Auto = auto
		w.Bus.mu.Unlock()
	}()
	prop, err := client.NewLedgerChannelProposal(challenge, a.WalletAddr(), w.Alloc(balA, balB),
		[]map[wallet.BackendID]wire.Address{a.WireAddr(), b.WireAddr()}, opts...)
	if err != nil {
		return nil, nil, err
	}
	type res struct {
		ch  *client.Channel
		err error
	}
	ra, rb := make(chan res, 1), make(chan res, 1)
	ctx := context.Background()
	go func() {
		ch, err := a.C.ProposeChannel(ctx, prop)
		ra <- res{ch, err}
	}()
	synctest.Wait()
	pp := b.TakeProposal()
	if pp == nil {
		return nil, nil, fmt.Errorf("proposal did not reach %s's handler", b.Name)
	}
	go func() {
		lp := pp.Prop.(*client.LedgerChannelProposalMsg)
		ch, err := pp.Resp.Accept(ctx, lp.Accept(b.WalletAddr(), client.WithRandomNonce()))
		rb <- res{ch, err}
	}()
	synctest.Wait()
	select {
	case x := <-ra:
		if x.err != nil {
			return nil, nil, x.err
		}
		y := <-rb
		if y.err != nil {
			return nil, nil, y.err
		}
		return x.ch, y.ch, nil
	default:
		return nil, nil, fmt.Errorf("channel opening did not complete")
	}
}
