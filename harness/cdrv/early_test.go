package cdrv

import (
	"context"
	"errors"
	"fmt"
	"math/big"
	"os"
	"sync"
	"testing"
	"testing/synctest"

	"perun.network/go-perun/channel"
	"perun.network/go-perun/client"
	"perun.network/go-perun/wallet"
	"perun.network/go-perun/wire"
	"verif/harness/drv"
	"verif/harness/tla"
)

type earlyReplay struct {
	Driver string     `json:"driver"`
	Steps  []tla.Step `json:"steps"`
}

// runEarlyPath replays one path of Early.tla on two real clients.
func runEarlyPath(t *testing.T, res *drv.Result, path []*tla.Edge, idx int) {
	viol := func(kind, sig, what string, upto int) {
		res.Violate("C06", kind, "early|"+sig, what, earlyReplay{Driver: "early", Steps: tla.Steps(path[:upto])})
	}
	defer func() {
		if p := recover(); p != nil {
			viol("conformance", "leftover-goroutines", fmt.Sprintf("behaviour ended with: %v", p), len(path))
		}
	}()
	synctest.Test(t, func(t *testing.T) {
		NoWatcher = map[string]bool{}
		w := NewWorld(t, int64(idx)+1, "A", "B")
		defer w.Close()
		ctx, cancel := context.WithCancel(context.Background())
		a, b := w.P[0], w.P[1]
		w.Bus.mu.Lock()
		w.Bus.Auto = true
		w.Bus.mu.Unlock()
		// B's funding calls are held until the model finishes the opening
		var gmu sync.Mutex
		gates := map[channel.ID]chan struct{}{}
		w.Ledger.FundGate = func(who string, id channel.ID) <-chan struct{} {
			if who != "B" {
				return nil
			}
			gmu.Lock()
			defer gmu.Unlock()
			if gates[id] == nil {
				gates[id] = make(chan struct{})
			}
			return gates[id]
		}
		defer func() {
			gmu.Lock()
			for id, g := range gates {
				select {
				case <-g:
				default:
					close(g)
				}
				delete(gates, id)
			}
			w.Ledger.FundGate = nil
			gmu.Unlock()
			cancel()
			w.Quiesce()
		}()
		chA := map[int]*client.Channel{}
		chB := map[int]chan *client.Channel{}
		updDone := map[int]chan error{}
		answered := map[int]bool{} // the model's answer per channel (accept?)
		calls := map[int]int{}
		idOf := func(c int) channel.ID { return chA[c].ID() }
		newestAt := func(who string, id channel.ID) (ver int) {
			w.PMu.Lock()
			defer w.PMu.Unlock()
			ver = -1
			for _, e := range w.PLog {
				if e.Who == who && e.Ch == id && e.Kind == "enabled" && e.Cur.State != nil && int(e.Cur.Version) > ver {
					ver = int(e.Cur.Version)
				}
			}
			return
		}
		pay := func(s *channel.State) {
			s.Balances[0][0] = new(big.Int).Sub(s.Balances[0][0], big.NewInt(1))
			s.Balances[0][1] = new(big.Int).Add(s.Balances[0][1], big.NewInt(1))
		}
		for k, e := range path {
			res.Add("env_steps", 1)
			act := e.Act
			c := act.Args[0].(int)
			switch act.Name {
			case "StartOpen":
				prop, err := client.NewLedgerChannelProposal(60, a.WalletAddr(), w.Alloc(5, 5),
					[]map[wallet.BackendID]wire.Address{a.WireAddr(), b.WireAddr()}, client.WithRandomNonce())
				if err != nil {
					t.Fatal(err)
				}
				ra := make(chan *client.Channel, 1)
				go func() { ch, _ := a.C.ProposeChannel(ctx, prop); ra <- ch }()
				w.Quiesce()
				pp := b.TakeProposal()
				if pp == nil {
					viol("conformance", "no-proposal", "the proposal did not reach B's handler", k+1)
					return
				}
				rb := make(chan *client.Channel, 1)
				chB[c] = rb
				go func() {
					ch, _ := pp.Resp.Accept(ctx, pp.Prop.(*client.LedgerChannelProposalMsg).Accept(b.WalletAddr(), client.WithRandomNonce()))
					rb <- ch
				}()
				w.Quiesce()
				select {
				case ch := <-ra:
					if ch == nil {
						viol("conformance", "open-fails", "A's ProposeChannel failed", k+1)
						return
					}
					chA[c] = ch
				default:
					viol("conformance", "open-hangs", "A's ProposeChannel has not returned although the funding is complete", k+1)
					return
				}
			case "EarlyUpdate", "Update":
				done := make(chan error, 1)
				updDone[c] = done
				ch := chA[c]
				go func() { done <- ch.Update(ctx, pay) }()
				w.Quiesce()
			case "FinishOpen":
				gmu.Lock()
				g := gates[idOf(c)]
				gmu.Unlock()
				if g == nil {
					viol("conformance", "no-gate", "B's funding call is not held", k+1)
					return
				}
				close(g)
				w.Quiesce()
				select {
				case ch := <-chB[c]:
					if ch == nil {
						viol("monitor", "accept-fails", fmt.Sprintf("%s: B's acceptance of the channel failed after the funding completed", act.Label), k+1)
						return
					}
				default:
					viol("conformance", "accept-hangs", "B's Accept has not returned after its funding call returned", k+1)
					return
				}
			case "Answer":
				acc := act.Args[1].(bool)
				u := b.TakeUpdateFor(idOf(c))
				if u == nil {
					viol("conformance", "no-handler", fmt.Sprintf("%s: B's update handler has no request for the channel", act.Label), k+1)
					return
				}
				answered[c] = acc
				go func() {
					if acc {
						_ = u.Resp.Accept(ctx)
					} else {
						_ = u.Resp.Reject(ctx, "no")
					}
				}()
				w.Quiesce()
			}
			// handler invocations so far (answered ones + pending ones)
			for cc, ch := range chA {
				n := b.NPendingUpdatesFor(ch.ID())
				if _, ok := answered[cc]; ok {
					n++
				}
				if n > calls[cc] {
					calls[cc] = n
				}
				want := tla.AsFn(e.Dst.State["calls"])
				for i := range want.K {
					if want.K[i].(int) == cc && want.V[i].(int) != calls[cc] {
						res.Add("conformance_drift", 1)
						viol("conformance", "handler-calls", fmt.Sprintf("after %s: B's handler was invoked %d time(s) for channel %d, the specification says %d", act.Label, calls[cc], cc, want.V[i]), k+1)
					}
				}
			}
		}
		// everything the model left open is finished: openings complete, every request at the handler is answered. A request
		// that shows up AGAIN is answered the other way round (the user is free to decide each time it is asked).
		gmu.Lock()
		for _, g := range gates {
			select {
			case <-g:
			default:
				close(g)
			}
		}
		gmu.Unlock()
		w.Quiesce()
		for round := 0; round < 4; round++ {
			for cc, ch := range chA {
				for u := b.TakeUpdateFor(ch.ID()); u != nil; u = b.TakeUpdateFor(ch.ID()) {
					prev, again := answered[cc]
					acc := true
					if again {
						acc = !prev
						res.Add("repeated_handler_invocations", 1)
					}
					answered[cc] = acc
					r := u.Resp
					go func() {
						if acc {
							_ = r.Accept(ctx)
						} else {
							_ = r.Reject(ctx, "no")
						}
					}()
					w.Quiesce()
				}
			}
		}
		// ---- C06 on the real observations ----
		for cc, done := range updDone {
			id := idOf(cc)
			var err error
			select {
			case err = <-done:
			default:
				viol("monitor", "update-hangs", fmt.Sprintf("A's Update on channel %d has not returned although its request was answered", cc), len(path))
				return
			}
			va, vb := newestAt("A", id), newestAt("B", id)
			var rej client.PeerRejectedError
			switch {
			case err == nil && (va != 1 || vb != 1):
				viol("monitor", "ok-but-not-current", fmt.Sprintf("A's Update on channel %d returned success; newest enabled versions: A v%d, B v%d", cc, va, vb), len(path))
				return
			case errors.As(err, &rej) && (va != 0 || vb != 0):
				viol("monitor", "rejected-changed", fmt.Sprintf("A's Update on channel %d was rejected, but the newest enabled versions are A v%d, B v%d", cc, va, vb), len(path))
				return
			}
		}
		// both are ready for further updates on every channel
		for cc, ch := range chA {
			if _, ok := updDone[cc]; !ok {
				continue
			}
			done := make(chan error, 1)
			cch := ch
			go func() { done <- cch.Update(ctx, pay) }()
			w.Quiesce()
			if u := b.TakeUpdateFor(ch.ID()); u != nil {
				r := u.Resp
				go func() { _ = r.Accept(ctx) }()
				w.Quiesce()
			}
			select {
			case err := <-done:
				if err != nil {
					viol("monitor", "not-ready", fmt.Sprintf("a further update on channel %d fails: %v", cc, err), len(path))
					return
				}
			default:
				viol("monitor", "not-ready", fmt.Sprintf("a further update on channel %d does not complete", cc), len(path))
				return
			}
			if va, vb := newestAt("A", ch.ID()), newestAt("B", ch.ID()); va != vb {
				viol("monitor", "diverged", fmt.Sprintf("after a further accepted update on channel %d: A v%d, B v%d", cc, va, vb), len(path))
				return
			}
		}
	})
}

// TestEarly replays every maximal path of the Early.tla graph.
func TestEarly(t *testing.T) {
	dot := os.Getenv("VERIF_DOT")
	if dot == "" {
		t.Skip()
	}
	res := drv.NewResult("early")
	defer func() {
		if err := res.Write(); err != nil {
			t.Fatal(err)
		}
	}()
	g, err := tla.LoadDot(dot)
	if err != nil {
		t.Fatal(err)
	}
	res.Add("graph_states", len(g.Nodes))
	res.Add("graph_edges", g.NEdges)
	var paths [][]*tla.Edge
	var rec func(n *tla.Node, p []*tla.Edge)
	rec = func(n *tla.Node, p []*tla.Edge) {
		if len(n.Out) == 0 {
			paths = append(paths, append([]*tla.Edge{}, p...))
			return
		}
		for _, e := range n.Out {
			rec(e.Dst, append(p, e))
		}
	}
	rec(g.Inits[0], nil)
	shard, shards := drv.EnvInt("VERIF_SHARD", 0), drv.EnvInt("VERIF_SHARDS", 1)
	for i, p := range paths {
		if i%shards != shard {
			continue
		}
		for _, e := range p {
			e.MarkHit()
		}
		res.Add("behaviours", 1)
		runEarlyPath(t, res, p, i)
		if i < 2 {
			res.Sample(map[string]any{"kind": "opening / early update schedule", "steps": tla.Steps(p)})
		}
	}
	res.Add("paths", len(paths))
	hit, _ := g.HitCount()
	res.Add("edges_executed", hit)
}
