package cdrv

import (
	"context"
	"encoding/json"
	"fmt"
	"math/big"
	"os"
	"strings"
	"testing"
	"testing/synctest"
	"time"

	"perun.network/go-perun/channel"
	"perun.network/go-perun/client"
	"verif/harness/drv"
	"verif/harness/tla"
)

type subCfg struct {
	P0, CD, Deposit int
	Adversary       bool
	Hon             string
	Ballast         bool // L carries another, idle sub-channel from the start (S is the second locked sub-allocation)
}

type subReplay struct {
	Driver string   `json:"driver"`
	Cfg    subCfg   `json:"cfg"`
	Steps  []string `json:"steps"`
}

type subRun struct {
	w     *World
	cfg   subCfg
	par   map[string]*client.Channel // L per party
	sub   map[string]*client.Channel // S per party
	bal   map[string]*client.Channel // the ballast sub-channel per party (if any)
	pvOff int                        // real version of L = model version + pvOff (the ballast's funding update comes first)
	fund  int64                      // what each party put into L
	party map[string]*Party
	pid   channel.ID
	sid   channel.ID
	paid  map[string]bool
	ctx   context.Context
}

func (r *subRun) acct(p string) int64 {
	return r.w.Ledger.Balance(r.party[p].Acc.Address(), r.w.Asset)
}

// enabledTx returns the fully signed transaction of version v of channel id as enabled at who.
func (r *subRun) enabledTx(who string, id channel.ID, v int) *channel.Transaction {
	r.w.PMu.Lock()
	defer r.w.PMu.Unlock()
	for i := range r.w.PLog {
		e := r.w.PLog[i]
		if e.Who == who && e.Ch == id && e.Kind == "enabled" && e.Cur.State != nil && int(e.Cur.Version) == v {
			tx := e.Cur.Clone()
			return &tx
		}
	}
	return nil
}

// newest returns the newest state of channel id enabled at who (nil if none).
func (r *subRun) newest(who string, id channel.ID) *channel.State {
	r.w.PMu.Lock()
	defer r.w.PMu.Unlock()
	var st *channel.State
	for _, e := range r.w.PLog {
		if e.Who == who && e.Ch == id && e.Kind == "enabled" && e.Cur.State != nil && (st == nil || e.Cur.Version > st.Version) {
			st = e.Cur.State
		}
	}
	return st
}

// lastAgreed returns the newest state of channel id that carries both signatures at either client ("the last state both signed").
func (r *subRun) lastAgreed(id channel.ID) *channel.State {
	a, b := r.newest("A", id), r.newest("B", id)
	if a == nil || (b != nil && b.Version > a.Version) {
		return b
	}
	return a
}

func (r *subRun) worth(who string, ps *channel.State, subState func(channel.ID) *channel.State) (total int64, pv, sv int) {
	idx := 0
	if who == "B" {
		idx = 1
	}
	total, pv, sv = ps.Balances[0][idx].Int64(), int(ps.Version)-r.pvOff, -1
	for _, la := range ps.Locked {
		ss := subState(la.ID)
		total += ss.Balances[0][idx].Int64()
		if la.ID == r.sid {
			sv = int(ss.Version)
		}
	}
	return
}

// own returns what who owns according to the last states both signed: its balance in L plus, if L has S locked, its balance in S.
func (r *subRun) own(who string) (total int64, pv, sv int) {
	return r.worth(who, r.lastAgreed(r.pid), r.lastAgreed)
}

// ownAt is the same according to the newest states enabled at who itself (what an honest party defends against an adversary).
func (r *subRun) ownAt(who string) (total int64, pv, sv int) {
	return r.worth(who, r.newest(who, r.pid), func(id channel.ID) *channel.State { return r.newest(who, id) })
}

// update runs a complete update of ch proposed by p: proposal, answer by the peer's handler, response.
func (r *subRun) update(ch map[string]*client.Channel, p string, amt int, final, accept bool) (completed bool, err error) {
	done := r.start(ch, p, amt, final)
	r.w.Quiesce()
	if !r.answer(ch, peerOf(p), accept) {
		return false, fmt.Errorf("the update did not reach the handler of %s", peerOf(p))
	}
	select {
	case err := <-done:
		return true, err
	default:
		return false, nil
	}
}

func (r *subRun) start(ch map[string]*client.Channel, p string, amt int, final bool) chan error {
	done := make(chan error, 1)
	me := 0
	if p == "B" {
		me = 1
	}
	c := ch[p]
	go func() {
		done <- c.Update(r.ctx, func(s *channel.State) {
			s.Balances[0][me].Sub(s.Balances[0][me], big.NewInt(int64(amt)))
			s.Balances[0][1-me].Add(s.Balances[0][1-me], big.NewInt(int64(amt)))
			s.IsFinal = final
		})
	}()
	return done
}

func (r *subRun) answer(ch map[string]*client.Channel, p string, accept bool) bool {
	u := r.party[p].TakeUpdateFor(ch[p].ID())
	if u == nil {
		return false
	}
	go func() {
		if accept {
			_ = u.Resp.Accept(r.ctx)
		} else {
			_ = u.Resp.Reject(r.ctx, "no")
		}
	}()
	r.w.Quiesce()
	return true
}

// runSubSettleBehaviour replays one behaviour of SubSettle.tla on two real clients.
func runSubSettleBehaviour(t *testing.T, res *drv.Result, cfg subCfg, steps []wStepS, idx int) {
	prop := "C03"
	if cfg.Adversary {
		prop = "C04"
	}
	var labels []string
	for _, s := range steps {
		labels = append(labels, s.act.Label)
	}
	viol := func(kind, sig, what string, upto int) {
		res.Violate(prop, kind, "sub|"+sig, what, subReplay{Driver: "subsettle", Cfg: cfg, Steps: labels[:upto]})
	}
	var leftover string
	defer func() {
		if p := recover(); p != nil { // goroutines left over after the clean shutdown: a leak, not what C03 / C04 state
			res.Add("leftover_goroutines", 1)
			viol("conformance", "leftover-goroutines", fmt.Sprintf("behaviour ended with: %v; %s", p, leftover), len(labels))
		}
	}()
	synctest.Test(t, func(t *testing.T) {
		hon, adv := cfg.Hon, peerOf(cfg.Hon)
		NoWatcher = map[string]bool{}
		if cfg.Adversary {
			NoWatcher[adv] = true
		}
		w := NewWorld(t, int64(idx)+1, "A", "B")
		defer func() { leftover = blockedGoroutines() }()
		defer w.Close()
		ctx, cancelAll := context.WithCancel(context.Background())
		r := &subRun{w: w, cfg: cfg, party: map[string]*Party{"A": w.P[0], "B": w.P[1]}, paid: map[string]bool{}, ctx: ctx}
		defer func() { // as an application does: sub-channels are closed before their parent
			cancelAll()
			w.Quiesce()
			for _, c := range r.sub {
				_ = c.Close()
			}
			for _, c := range r.bal {
				_ = c.Close()
			}
			w.Quiesce()
		}()
		r.fund = int64(cfg.P0)
		if cfg.Ballast {
			r.fund++
		}
		chA, chB, err := w.OpenLedgerChannel(w.P[0], w.P[1], uint64(cfg.CD)*uint64(tick/time.Second), r.fund, r.fund)
		if err != nil {
			viol("monitor", "open", "channel opening failed: "+err.Error(), 0)
			return
		}
		w.Bus.mu.Lock()
		w.Bus.Auto = true // envelopes are delivered at once; scheduling points are the handlers and the ledger
		w.Bus.mu.Unlock()
		r.par, r.pid = map[string]*client.Channel{"A": chA, "B": chB}, chA.ID()
		go func() { _ = chA.Watch(w.P[0]) }()
		go func() { _ = chB.Watch(w.P[1]) }()
		w.Quiesce()
		// openSub opens a sub-channel of L (1 + 1) with the real protocol; both parties watch it
		openSub := func() (map[string]*client.Channel, string) {
			sprop, err := client.NewSubChannelProposal(r.pid, uint64(cfg.CD)*uint64(tick/time.Second), w.Alloc(1, 1))
			if err != nil {
				return nil, err.Error()
			}
			type cres struct {
				ch  *client.Channel
				err error
			}
			ra, rb := make(chan cres, 1), make(chan cres, 1)
			go func() { ch, err := w.P[0].C.ProposeChannel(ctx, sprop); ra <- cres{ch, err} }()
			w.Quiesce()
			pp := w.P[1].TakeProposal()
			if pp == nil {
				return nil, "the sub-channel proposal did not reach B's handler"
			}
			go func() {
				ch, err := pp.Resp.Accept(ctx, pp.Prop.(*client.SubChannelProposalMsg).Accept(client.WithRandomNonce()))
				rb <- cres{ch, err}
			}()
			w.Quiesce()
			var xa, xb cres
			select {
			case xa = <-ra:
			default:
			}
			select {
			case xb = <-rb:
			default:
			}
			if xa.ch == nil || xb.ch == nil {
				return nil, fmt.Sprintf("honest sub-channel opening failed: proposer %v, proposee %v", xa.err, xb.err)
			}
			go func() { _ = xa.ch.Watch(w.P[0]) }()
			go func() { _ = xb.ch.Watch(w.P[1]) }()
			w.Quiesce()
			return map[string]*client.Channel{"A": xa.ch, "B": xb.ch}, ""
		}
		if cfg.Ballast {
			bal, why := openSub()
			if bal == nil {
				viol("monitor", "opensub-fails", "ballast sub-channel: "+why, 0)
				return
			}
			r.bal, r.pvOff = bal, 1
		}
		total := int64(2 * InitialDeposit)
		var holdDone chan error
		start := time.Now()
		for k, st := range steps {
			a := st.act
			res.Add("env_steps", 1)
			switch a.Name {
			case "PayP", "PayS", "FinalizeP", "FinalizeS":
				ch := r.par
				if a.Name == "PayS" || a.Name == "FinalizeS" {
					ch = r.sub
				}
				p := a.Args[0].(string)
				amt, acc, final := 1, true, false
				if a.Name[:3] == "Pay" {
					acc = a.Args[1].(bool)
				} else {
					amt, final = a.Args[1].(int), true
				}
				completed, err := r.update(ch, p, amt, final, acc)
				if !completed || (err == nil) != acc {
					viol("conformance", "update|"+a.Name, fmt.Sprintf("%s: completed=%v, Update returned %v", a.Label, completed, err), k+1)
					return
				}
			case "OpenSub":
				sub, why := openSub()
				if sub == nil {
					viol("monitor", "opensub-fails", a.Label+": "+why, k+1)
					return
				}
				r.sub, r.sid = sub, sub["A"].ID()
			case "HoldS":
				holdDone = r.start(r.sub, a.Args[0].(string), 1, false)
				w.Quiesce()
				if r.party[peerOf(a.Args[0].(string))].NPendingUpdatesFor(r.sid) != 1 {
					viol("conformance", "holds", "the sub-channel update did not reach the peer's handler", k+1)
					return
				}
			case "AnswerS":
				by := st.pre["hold"].(string)
				acc := a.Args[0].(bool)
				if !r.answer(r.sub, peerOf(by), acc) {
					viol("conformance", "answers", "no pending sub-channel update to answer", k+1)
					return
				}
				select { // (the run goes on after a deviation: what decides are the money monitors on the real ledger)
				case err := <-holdDone:
					if (err == nil) != acc {
						viol("conformance", "update|AnswerS", fmt.Sprintf("%s: Update returned %v", a.Label, err), k+1)
					}
				default:
					viol("conformance", "update|AnswerS", a.Label+": the held update did not complete", k+1)
				}
			case "SettleTimeout":
				q := a.Args[0].(string)
				done := make(chan error, 1)
				go func() {
					sctx, c2 := context.WithTimeout(ctx, 30*time.Second)
					defer c2()
					done <- r.par[q].Settle(sctx, false)
				}()
				w.Sleep(31 * time.Second)
				start = start.Add(31 * time.Second)
				select {
				case err := <-done:
					if err == nil {
						viol("conformance", "settle-timeout", a.Label+": Settle succeeded although the sub-channel is busy", k+1)
						return
					}
				default:
					viol("monitor", "settle-ctx-ignored", a.Label+": Settle with a 30 s context has not returned after 31 s", k+1)
					return
				}
			case "SettleS":
				da, db := make(chan error, 1), make(chan error, 1)
				go func() { da <- r.sub["A"].Settle(ctx, false) }()
				go func() { db <- r.sub["B"].Settle(ctx, false) }()
				w.Quiesce()
				var ea, eb error = fmt.Errorf("not returned"), fmt.Errorf("not returned")
				select {
				case ea = <-da:
				default:
				}
				select {
				case eb = <-db:
				default:
				}
				if ea != nil || eb != nil {
					viol("monitor", "settle-sub-fails", fmt.Sprintf("%s: settling the final sub-channel: proposer %v, proposee %v", a.Label, ea, eb), k+1)
					return
				}
				_ = r.sub["A"].Close()
				_ = r.sub["B"].Close()
				w.Quiesce()
			case "AdvRegister", "AdvRegisterEchoS", "AdvConclude":
				advIdx := channel.Index(0)
				if adv == "B" {
					advIdx = 1
				}
				var tx *channel.Transaction
				wv := -2 // -2: the registered version of S
				var echoDone chan error
				echoFired := false
				if a.Name == "AdvRegisterEchoS" { // the adversary's payment in S waits for the honest user, who answers inside the refutation
					echoDone = r.start(r.sub, adv, 1, false)
					w.Quiesce()
					w.Ledger.Hook = func(who, ev string, _ channel.ID, _ uint64) {
						if who == hon && !echoFired { // the honest watcher's refutation was accepted; its events are not emitted yet
							echoFired = true
							r.answer(r.sub, hon, true)
						}
					}
				}
				if a.Name != "AdvConclude" {
					v := a.Args[0].(int)
					wv = a.Args[1].(int)
					tx = r.enabledTx(adv, r.pid, v+r.pvOff)
				} else {
					regv, _, _ := w.Ledger.Registered(r.pid)
					tx = r.enabledTx(adv, r.pid, regv)
				}
				if tx == nil {
					viol("conformance", "adv-no-tx", "the adversary does not hold the fully signed version of the ledger channel it wants to use", k+1)
					return
				}
				// one state per locked sub-allocation, in their order: S with the chosen / registered version, the ballast with its only one
				var subs []channel.SignedState
				subStates := channel.StateMap{}
				for _, la := range tx.Locked {
					ver, ch := 0, r.bal
					if la.ID == r.sid {
						ch = r.sub
						ver = wv
						if wv == -2 {
							ver, _, _ = w.Ledger.Registered(r.sid)
						}
					} else if wv == -2 {
						ver, _, _ = w.Ledger.Registered(la.ID)
					}
					stx := r.enabledTx(adv, la.ID, ver)
					if stx == nil {
						viol("conformance", "adv-no-tx", fmt.Sprintf("the adversary holds no fully signed version %d of a locked sub-channel", ver), k+1)
						return
					}
					subs = append(subs, channel.SignedState{Params: ch[adv].Params(), State: stx.State, Sigs: stx.Sigs})
					subStates[la.ID] = stx.State
				}
				req := channel.AdjudicatorReq{Params: r.par[adv].Params(), Idx: advIdx, Tx: *tx}
				if a.Name != "AdvConclude" {
					err := r.party[adv].Backend.Register(context.Background(), req, subs)
					if echoDone != nil {
						w.Sleep(100 * time.Millisecond)
						w.Ledger.Hook = nil
						select {
						case <-echoDone:
						default:
						}
						if !echoFired {
							viol("conformance", "adv-register-echo", "the honest watcher's refutation was not observed", k+1)
							return
						}
					}
					if err != nil {
						viol("conformance", "adv-register-refused", fmt.Sprintf("the ledger refused the adversary's registration %s: %v", a.Label, err), k+1)
						return
					}
				} else {
					if err := r.party[adv].Backend.Withdraw(context.Background(), req, subStates); err != nil {
						viol("conformance", "adv-conclude-refused", fmt.Sprintf("the ledger refused the adversary's conclusion: %v", err), k+1)
						return
					}
					r.paid[adv] = true
				}
				w.Sleep(100 * time.Millisecond)
			case "Tick":
			case "SettleP":
				p := a.Args[0].(string)
				done := make(chan error, 1)
				ch := r.par[p]
				// the party that settles second says so (the documented use of the flag), honest runs only
				secondary := !cfg.Adversary && st.pre["paid"].(tla.Rec)[peerOf(p)].(bool)
				go func() { done <- ch.Settle(context.Background(), secondary) }()
				w.Quiesce()
				deadline := start.Add(time.Duration(st.post["now"].(int)) * tick).Add(time.Second)
				if d := time.Until(deadline); d > 0 {
					w.Sleep(d)
				}
				select {
				case err := <-done:
					if err != nil {
						viol("monitor", "settle-fails", fmt.Sprintf("%s: Settle returned %v", a.Label, err), k+1)
						return
					}
					r.paid[p] = true
				default:
					viol("monitor", "settle-hangs", a.Label+": Settle has not returned after the challenge period(s); "+blockedGoroutines(), k+1)
					return
				}
			}
			if d := time.Until(start.Add(time.Duration(st.post["now"].(int)) * tick)); d > 0 {
				w.Sleep(d)
			}
			w.Quiesce()
			// ---- monitors (real observations only) ----
			held, _ := w.Ledger.Held(r.pid)
			var hsum int64
			for _, h := range held {
				hsum += h
			}
			if r.acct("A")+r.acct("B")+hsum != total {
				viol("monitor", "conservation", fmt.Sprintf("after %s: accounts %d + %d + held %d != %d", a.Label, r.acct("A"), r.acct("B"), hsum, total), k+1)
				return
			}
			if cfg.Adversary && r.paid[hon] {
				own, pv, sv := r.ownAt(hon)
				regv, concluded, _ := w.Ledger.Registered(r.pid)
				want := int64(InitialDeposit) - r.fund + own
				if !concluded || r.acct(hon) < want {
					sigr := "honest-robbed"
					for _, lb := range labels[:k+1] {
						if strings.HasPrefix(lb, "AdvRegisterEchoS") {
							sigr = "honest-robbed|accepted-during-refutation"
						}
					}
					viol("monitor", sigr, fmt.Sprintf("after %s: %s's newest agreed states are ledger channel v%d / sub-channel v%d, worth %d to it; the ledger concluded v%d and %s owns %d (< %d)", a.Label, hon, pv, sv, own, regv, hon, r.acct(hon), want), k+1)
					return
				}
			}
			if !cfg.Adversary && r.paid["A"] && r.paid["B"] {
				oa, pva, sva := r.own("A")
				ob, pvb, svb := r.own("B")
				wantA, wantB := int64(InitialDeposit)-r.fund+oa, int64(InitialDeposit)-r.fund+ob
				if r.acct("A") != wantA || r.acct("B") != wantB || hsum != 0 {
					viol("monitor", "honest-payout", fmt.Sprintf("both settled: the last states both signed (L v%d, S v%d / seen from B: L v%d, S v%d) are worth (%d, %d); accounts are (%d, %d), expected (%d, %d); still held %d", pva, sva, pvb, svb, oa, ob, r.acct("A"), r.acct("B"), wantA, wantB, hsum), k+1)
					return
				}
			}
			// ---- conformance with the model's ledger view ----
			ms := st.post
			regv, _, _ := w.Ledger.Registered(r.pid)
			if regv >= 0 {
				regv -= r.pvOff
			}
			macct := ms["acct"].(tla.Rec)
			adj := func(p string) int64 { // the ballast's unit comes back with the pay-out
				if cfg.Ballast && !r.paid[p] {
					return 1
				}
				return 0
			}
			if regv != ms["reg"].(tla.Rec)["p"].(int) || r.acct("A")+adj("A") != int64(macct["A"].(int)) || r.acct("B")+adj("B") != int64(macct["B"].(int)) {
				res.Add("conformance_drift", 1)
				viol("conformance", "ledger|"+a.Name, fmt.Sprintf("after %s: registered v%d, accounts (%d, %d); the specification predicts v%d, (%d, %d)", a.Label, regv, r.acct("A"), r.acct("B"), ms["reg"].(tla.Rec)["p"], macct["A"], macct["B"]), k+1)
			}
		}
		select {
		case <-holdDone:
		default:
		}
		if os.Getenv("VERIF_DEBUG") != "" {
			for _, e := range w.Ledger.Log {
				fmt.Fprintf(os.Stderr, "LEDGER %+v\n", e)
			}
		}
	})
}

// TestSubSettle replays the SubSettle.tla graph (every edge after its shortest path) and simulated behaviours.
func TestSubSettle(t *testing.T) {
	dot, sim := os.Getenv("VERIF_DOT"), os.Getenv("VERIF_SIM_DIR")
	if dot == "" && sim == "" {
		t.Skip()
	}
	cfg := subCfg{P0: drv.EnvInt("VERIF_P0", 2), CD: drv.EnvInt("VERIF_CD", 1), Deposit: InitialDeposit,
		Adversary: os.Getenv("VERIF_ADVERSARY") == "1", Hon: os.Getenv("VERIF_HON"), Ballast: os.Getenv("VERIF_BALLAST") == "1"}
	if cfg.Hon == "" {
		cfg.Hon = "A"
	}
	res := drv.NewResult("subsettle")
	defer func() {
		if err := res.Write(); err != nil {
			t.Fatal(err)
		}
	}()
	shard, shards := drv.EnvInt("VERIF_SHARD", 0), drv.EnvInt("VERIF_SHARDS", 1)
	stride := drv.EnvInt("VERIF_STRIDE", 1) // quick tier: every stride-th edge, offset chosen by the seed
	offset := int(drv.Seed()) % stride
	n := 0
	if rp := os.Getenv("VERIF_REPLAY_STEPS"); rp != "" && dot != "" { // replay of one recorded behaviour: follow its labels through the graph
		var rec subReplay
		b, err := os.ReadFile(rp)
		if err == nil {
			err = json.Unmarshal(b, &rec)
		}
		if err != nil {
			t.Fatal(err)
		}
		g, err := tla.LoadDot(dot)
		if err != nil {
			t.Fatal(err)
		}
		var cur *tla.Node
		for _, nd := range g.Nodes {
			if nd.Init {
				cur = nd
			}
		}
		var steps []wStepS
		for _, lb := range rec.Steps {
			var next *tla.Edge
			for _, e := range cur.Out {
				if e.Act.Label == lb {
					next = e
				}
			}
			if next == nil {
				t.Fatalf("the graph has no edge %s here", lb)
			}
			steps = append(steps, wStepS{next.Act, next.Src.State, next.Dst.State})
			cur = next.Dst
		}
		res.Add("behaviours", 1)
		runSubSettleBehaviour(t, res, cfg, steps, 1)
		return
	}
	if dot != "" {
		g, err := tla.LoadDot(dot)
		if err != nil {
			t.Fatal(err)
		}
		if shard == 0 {
			res.Add("graph_states", len(g.Nodes))
			res.Add("graph_edges", g.NEdges)
		}
		// every edge is executed after its shortest path and followed by a shortest continuation to a state in which the
		// money can be judged (the honest party / both parties have settled): what a step costs shows at settlement
		compl := g.CompletionTo(func(nd *tla.Node) bool {
			paid := nd.State["paid"].(tla.Rec)
			if cfg.Adversary {
				return paid[cfg.Hon].(bool)
			}
			return paid["A"].(bool) && paid["B"].(bool)
		})
		for _, nd := range g.Nodes {
			path := g.PathTo(nd)
			for _, e := range nd.Out {
				n++
				if n%stride != offset || (n/stride)%shards != shard {
					continue
				}
				e.MarkHit()
				var steps []wStepS
				for _, pe := range append(append(append([]*tla.Edge{}, path...), e), compl.From(e.Dst)...) {
					steps = append(steps, wStepS{pe.Act, pe.Src.State, pe.Dst.State})
				}
				res.Add("behaviours", 1)
				runSubSettleBehaviour(t, res, cfg, steps, n)
				if n < 2*shards {
					res.Sample(map[string]any{"kind": "sub-channel history", "adversary": cfg.Adversary, "steps": tla.Steps(append(append([]*tla.Edge{}, path...), e))})
				}
			}
		}
		hit, _ := g.HitCount()
		res.Add("edges_executed", hit)
	}
	if sim != "" {
		all, err := tla.LoadSimDir(sim)
		if err != nil {
			t.Fatal(err)
		}
		for i, b := range all {
			if i%shards != shard {
				continue
			}
			var steps []wStepS
			for k := 1; k < len(b); k++ {
				steps = append(steps, wStepS{b[k].Act, b[k-1].State, b[k].State})
			}
			res.Add("behaviours", 1)
			res.Add("walks", 1)
			runSubSettleBehaviour(t, res, cfg, steps, i)
		}
	}
}
