package cdrv

import (
	"context"
	"encoding/json"
	"fmt"
	"math/big"
	"os"
	"runtime"
	"testing"
	"testing/synctest"
	"time"

	"perun.network/go-perun/channel"
	"perun.network/go-perun/client"
	"perun.network/go-perun/wire"
	"verif/harness/drv"
	"verif/harness/tla"
)

const tick = 10 * time.Second

type settleCfg struct {
	A0, B0, CD, FShift, Deposit int
	Adversary                   bool
}

type settleReplay struct {
	Driver string    `json:"driver"`
	Cfg    settleCfg `json:"cfg"`
	Steps  []string  `json:"steps"`
}

type settleRun struct {
	w         *World
	cfg       settleCfg
	chs       map[string]*client.Channel
	party     map[string]*Party
	id        channel.ID
	paid      map[string]bool
	settleErr map[string]error
	ctx       context.Context // cancelled when the behaviour ends: releases calls the harness left in flight
}

// enabledTx returns the fully signed transaction of version v as enabled at party who (nil if none).
func (r *settleRun) enabledTx(who string, v int) *channel.Transaction {
	r.w.PMu.Lock()
	defer r.w.PMu.Unlock()
	for i := range r.w.PLog {
		e := r.w.PLog[i]
		if e.Who == who && e.Ch == r.id && e.Kind == "enabled" && e.Cur.State != nil && int(e.Cur.Version) == v {
			tx := e.Cur.Clone()
			return &tx
		}
	}
	return nil
}

// newestEnabled returns the highest version enabled at who and A's balance in it.
func (r *settleRun) newestEnabled(who string) (ver int, balA, balB int64) {
	r.w.PMu.Lock()
	defer r.w.PMu.Unlock()
	ver = -1
	for _, e := range r.w.PLog {
		if e.Who == who && e.Ch == r.id && e.Kind == "enabled" && e.Cur.State != nil && int(e.Cur.Version) > ver {
			ver, balA, balB = int(e.Cur.Version), e.Cur.Balances[0][0].Int64(), e.Cur.Balances[0][1].Int64()
		}
	}
	return
}

func (r *settleRun) acct(p string) int64 {
	return r.w.Ledger.Balance(r.party[p].Acc.Address(), r.w.Asset)
}

// update performs proposal -> (delivery) -> answer -> (delivery) with explicit control.
func (r *settleRun) startUpdate(p string, amt int, final bool) chan error {
	return r.startUpdateCtx(r.ctx, p, amt, final)
}

func (r *settleRun) startUpdateCtx(ctx context.Context, p string, amt int, final bool) chan error {
	done := make(chan error, 1)
	ch := r.chs[p]
	me := 0
	if p == "B" {
		me = 1
	}
	go func() {
		done <- ch.Update(ctx, func(s *channel.State) {
			s.Balances[0][me].Sub(s.Balances[0][me], big.NewInt(int64(amt)))
			s.Balances[0][1-me].Add(s.Balances[0][1-me], big.NewInt(int64(amt)))
			s.IsFinal = final
		})
	}()
	return done
}

func (r *settleRun) deliverOne(t string) bool {
	i := r.w.Bus.Find(func(e *wire.Envelope) bool { inf := r.w.Bus.Info(e); return inf.Ch == r.id && inf.T == t })
	if i < 0 {
		return false
	}
	r.w.Bus.Deliver(i)
	r.w.Quiesce()
	return true
}

func (r *settleRun) answer(p string, accept bool) bool {
	return r.answerCtx(context.Background(), p, accept)
}

func (r *settleRun) answerCtx(ctx context.Context, p string, accept bool) bool {
	u := r.party[p].TakeUpdateFor(r.id)
	if u == nil {
		return false
	}
	go func() {
		if accept {
			_ = u.Resp.Accept(ctx)
		} else {
			_ = u.Resp.Reject(context.Background(), "no")
		}
	}()
	r.w.Quiesce()
	return true
}

func peerOf(p string) string {
	if p == "A" {
		return "B"
	}
	return "A"
}

// runSettleBehaviour replays one behaviour of Settle.tla.
func runSettleBehaviour(t *testing.T, res *drv.Result, cfg settleCfg, steps []wStepS, idx int) {
	prop := "C03"
	if cfg.Adversary {
		prop = "C04"
	}
	var labels []string
	for _, s := range steps {
		labels = append(labels, s.act.Label)
	}
	viol := func(kind, sig, what string, upto int) {
		res.Violate(prop, kind, sig, what, settleReplay{Driver: "settle", Cfg: cfg, Steps: labels[:upto]})
	}
	defer func() {
		if p := recover(); p != nil {
			if f := os.Getenv("VERIF_DEBUG_STACKS"); f != "" {
				buf := make([]byte, 1<<20)
				buf = buf[:runtime.Stack(buf, true)]
				_ = os.WriteFile(f, buf, 0o644)
			}
			viol("conformance", "leftover-goroutines", fmt.Sprintf("behaviour ended with: %v (a leak is not what C03 / C04 state)", p), len(labels))
		}
	}()
	synctest.Test(t, func(t *testing.T) {
		NoWatcher = map[string]bool{"B": cfg.Adversary}
		w := NewWorld(t, int64(idx)+1, "A", "B")
		defer w.Close()
		ctx, cancelAll := context.WithCancel(context.Background())
		defer func() { cancelAll(); w.Quiesce() }()
		r := &settleRun{w: w, cfg: cfg, party: map[string]*Party{"A": w.P[0], "B": w.P[1]}, paid: map[string]bool{}, settleErr: map[string]error{}, ctx: ctx}
		var opts []client.ProposalOpts
		if cfg.FShift != 0 {
			opts = append(opts, client.WithFundingAgreement(w.Alloc(int64(cfg.A0+cfg.FShift), int64(cfg.B0-cfg.FShift)).Balances))
		}
		chA, chB, err := w.OpenLedgerChannel(w.P[0], w.P[1], uint64(cfg.CD)*uint64(tick/time.Second), int64(cfg.A0), int64(cfg.B0), opts...)
		if err != nil {
			viol("monitor", "open", "channel opening failed: "+err.Error(), 0)
			return
		}
		r.chs, r.id = map[string]*client.Channel{"A": chA, "B": chB}, chA.ID()
		go func() { _ = chA.Watch(w.P[0]) }()
		if os.Getenv("VERIF_NOWATCH") != "B" || cfg.Adversary { // honest runs also with a party that never calls Watch
			go func() { _ = chB.Watch(w.P[1]) }()
		}
		w.Quiesce()
		total := int64(2 * InitialDeposit)
		// funding takes exactly the agreed amounts
		if a, b := r.acct("A"), r.acct("B"); a != int64(InitialDeposit-cfg.A0-cfg.FShift) || b != int64(InitialDeposit-cfg.B0+cfg.FShift) {
			viol("monitor", "funding-amount", fmt.Sprintf("funding took %d from A and %d from B, agreed were %d and %d", int64(InitialDeposit)-a, int64(InitialDeposit)-b, cfg.A0+cfg.FShift, cfg.B0-cfg.FShift), 0)
			return
		}
		var flightDone chan error
		start := time.Now()
		advDuringOwnFlight := false // the adversary registered while an update proposed by A was in flight
		for k, st := range steps {
			a := st.act
			res.Add("env_steps", 1)
			switch a.Name {
			case "Pay", "Finalize":
				p := a.Args[0].(string)
				amt, acc, final := a.Args[1].(int), true, a.Name == "Finalize"
				if !final {
					acc = a.Args[2].(bool)
				}
				done := r.startUpdate(p, amt, final)
				w.Quiesce()
				ok := r.deliverOne("upd") && r.answer(peerOf(p), acc)
				if acc {
					ok = ok && r.deliverOne("acc")
				} else {
					ok = ok && r.deliverOne("rej")
				}
				w.Quiesce()
				select {
				case err := <-done:
					if ok && (err == nil) != acc {
						viol("conformance", "update-result|"+a.Name, fmt.Sprintf("%s: Update returned %v", a.Label, err), k+1)
						return
					}
				default:
					viol("conformance", "update-hangs|"+a.Name, a.Label+": the update did not complete", k+1)
					return
				}
			case "PayCut":
				// the contexts of Update (proposer) and Accept (responder) end when the new state is enabled at that client:
				// the persister call is the gate (go-perun persists right after the machine operation, before it goes on)
				p := a.Args[0].(string)
				ctxs, cancels := map[string]context.Context{}, map[string]context.CancelFunc{}
				for _, q := range []string{"A", "B"} {
					ctxs[q], cancels[q] = context.WithCancel(ctx)
				}
				w.OnPersist = func(who, kind string, id channel.ID) {
					if kind == "enabled" && id == r.id {
						cancels[who]()
					}
				}
				done := r.startUpdateCtx(ctxs[p], p, a.Args[1].(int), false)
				w.Quiesce()
				ok := r.deliverOne("upd") && r.answerCtx(ctxs[peerOf(p)], peerOf(p), true)
				ok = ok && r.deliverOne("acc")
				w.Quiesce()
				w.OnPersist = nil
				cancels["A"]()
				cancels["B"]()
				select {
				case <-done: // whatever the call returns: the state is enabled at both clients (checked against the model below)
				default:
					viol("conformance", "update-hangs|PayCut", a.Label+": the update did not complete", k+1)
					return
				}
				if !ok {
					viol("conformance", "paycut", a.Label+": the update could not be delivered and accepted", k+1)
					return
				}
			case "Propose":
				flightDone = r.startUpdate(a.Args[0].(string), a.Args[1].(int), false)
				w.Quiesce()
			case "AcceptInFlight":
				by := st.pre["flight"].(tla.Rec)["by"].(string)
				if !(r.deliverOne("upd") && r.answer(peerOf(by), true)) {
					viol("conformance", "accept-in-flight", "the update in flight could not be delivered and accepted", k+1)
					return
				}
			case "DeliverAcc":
				r.deliverOne("acc")
				w.Quiesce()
				select {
				case <-flightDone:
				default:
				}
			case "AdvRegisterEcho":
				v := a.Args[0].(int)
				tx := r.enabledTx("B", v)
				if tx == nil {
					viol("conformance", "adv-no-tx", fmt.Sprintf("the adversary holds no fully signed version %d", v), k+1)
					return
				}
				fired := false
				w.Ledger.Hook = func(who, ev string, _ channel.ID, _ uint64) {
					if who == "A" && !fired { // A's refutation was accepted; its event is not emitted yet
						fired = true
						r.deliverOne("acc")
					}
				}
				err := w.P[1].Backend.Register(context.Background(), channel.AdjudicatorReq{Params: chB.Params(), Idx: 1, Tx: *tx}, nil)
				w.Sleep(100 * time.Millisecond)
				w.Ledger.Hook = nil
				if err != nil || !fired {
					viol("conformance", "adv-register-echo", fmt.Sprintf("registration of version %d: err=%v, refutation observed=%v", v, err, fired), k+1)
					return
				}
				select {
				case <-flightDone:
				default:
				}
			case "AdvRegister":
				if fl := st.pre["flight"].(tla.Rec); fl["k"].(string) != "none" && fl["by"].(string) == "A" {
					advDuringOwnFlight = true
				}
				v := a.Args[0].(int)
				tx := r.enabledTx("B", v)
				if tx == nil {
					viol("conformance", "adv-no-tx", fmt.Sprintf("the adversary holds no fully signed version %d", v), k+1)
					return
				}
				req := channel.AdjudicatorReq{Params: chB.Params(), Idx: 1, Tx: *tx}
				if err := w.P[1].Backend.Register(context.Background(), req, nil); err != nil {
					viol("conformance", "adv-register-refused", fmt.Sprintf("the ledger refused the adversary's registration of version %d: %v", v, err), k+1)
					return
				}
				w.Sleep(100 * time.Millisecond) // watcher drain timers
			case "AdvConclude":
				regv, _, _ := w.Ledger.Registered(r.id)
				tx := r.enabledTx("B", regv)
				if tx == nil {
					viol("conformance", "adv-no-tx", fmt.Sprintf("the adversary holds no fully signed version %d", regv), k+1)
					return
				}
				if err := w.P[1].Backend.Withdraw(context.Background(), channel.AdjudicatorReq{Params: chB.Params(), Idx: 1, Tx: *tx}, nil); err != nil {
					viol("conformance", "adv-conclude-refused", fmt.Sprintf("the ledger refused the adversary's conclusion of version %d: %v", regv, err), k+1)
					return
				}
				w.Sleep(100 * time.Millisecond)
			case "Tick":
			case "Settle":
				p := a.Args[0].(string)
				done := make(chan error, 1)
				ch := r.chs[p]
				// the party that settles second says so (the documented use of the flag), honest runs only
				secondary := !cfg.Adversary && st.pre["paid"].(tla.Rec)[peerOf(p)].(bool)
				go func() { done <- ch.Settle(context.Background(), secondary) }()
				w.Quiesce()
				deadline := start.Add(time.Duration(st.post["now"].(int)) * tick).Add(time.Second)
				if d := time.Until(deadline); d > 0 {
					w.Sleep(d)
				}
				select {
				case err := <-done:
					r.settleErr[p] = err
					if err != nil {
						viol("monitor", "settle-fails", fmt.Sprintf("%s: Settle returned %v", a.Label, err), k+1)
						return
					}
					r.paid[p] = true
				default:
					viol("monitor", "settle-hangs", a.Label+": Settle has not returned after the challenge period", k+1)
					return
				}
			}
			// align the virtual clock with the model's
			if d := time.Until(start.Add(time.Duration(st.post["now"].(int)) * tick)); d > 0 {
				w.Sleep(d)
			}
			w.Quiesce()
			// ---- monitors (real observations only) ----
			held, _ := w.Ledger.Held(r.id)
			var hsum int64
			for _, h := range held {
				hsum += h
			}
			if r.acct("A")+r.acct("B")+hsum != total {
				viol("monitor", "conservation", fmt.Sprintf("after %s: accounts %d + %d + held %d != %d", a.Label, r.acct("A"), r.acct("B"), hsum, total), k+1)
				return
			}
			if cfg.Adversary && r.paid["A"] {
				nv, balA, _ := r.newestEnabled("A")
				_, concluded, _ := w.Ledger.Registered(r.id)
				regv, _, _ := w.Ledger.Registered(r.id)
				want := int64(InitialDeposit-cfg.A0-cfg.FShift) + balA
				if !concluded || r.acct("A") < want {
					cls := "other"
					if advDuringOwnFlight {
						cls = "registered-while-own-update-in-flight"
					}
					viol("monitor", "honest-robbed|"+cls, fmt.Sprintf("after %s: A's newest agreed state is v%d with balance %d, but the ledger concluded v%d and A owns %d (< %d)", a.Label, nv, balA, regv, r.acct("A"), want), k+1)
					return
				}
				if regv < nv {
					res.Add("registered_below_newest_without_loss", 1)
				}
			}
			if !cfg.Adversary && r.paid["A"] && r.paid["B"] {
				va, balA, balB := r.newestEnabled("A")
				vb, _, _ := r.newestEnabled("B")
				wantA := int64(InitialDeposit-cfg.A0-cfg.FShift) + balA
				wantB := int64(InitialDeposit-cfg.B0+cfg.FShift) + balB
				if va != vb || r.acct("A") != wantA || r.acct("B") != wantB || hsum != 0 {
					viol("monitor", "honest-payout", fmt.Sprintf("both settled: last agreed state v%d/v%d pays (%d, %d); accounts are (%d, %d), expected (%d, %d); still held %d", va, vb, balA, balB, r.acct("A"), r.acct("B"), wantA, wantB, hsum), k+1)
					return
				}
			}
			// ---- conformance with the model's ledger view ----
			ms := st.post
			regv, _, _ := w.Ledger.Registered(r.id)
			macct := ms["acct"].(tla.Rec)
			if regv != ms["reg"].(int) || r.acct("A") != int64(macct["A"].(int)) || r.acct("B") != int64(macct["B"].(int)) {
				// the run goes on: what decides the property are the monitors on the real ledger
				res.Add("conformance_drift", 1)
				viol("conformance", "ledger|"+a.Name, fmt.Sprintf("after %s: registered v%d, accounts (%d, %d); the specification predicts v%d, (%d, %d)", a.Label, regv, r.acct("A"), r.acct("B"), ms["reg"], macct["A"], macct["B"]), k+1)
			}
		}
		select {
		case <-flightDone:
		default:
		}
	})
}

type wStepS struct {
	act  *tla.Action
	pre  tla.Rec
	post tla.Rec
}

// TestSettle replays the Settle.tla graph (every edge after its shortest path) and simulated behaviours.
func TestSettle(t *testing.T) {
	dot, sim := os.Getenv("VERIF_DOT"), os.Getenv("VERIF_SIM_DIR")
	if dot == "" && sim == "" {
		t.Skip()
	}
	cfg := settleCfg{A0: drv.EnvInt("VERIF_A0", 2), B0: drv.EnvInt("VERIF_B0", 2), CD: drv.EnvInt("VERIF_CD", 2), FShift: drv.EnvInt("VERIF_FSHIFT", 0),
		Deposit: InitialDeposit, Adversary: os.Getenv("VERIF_ADVERSARY") == "1"}
	res := drv.NewResult("settle")
	defer func() {
		if err := res.Write(); err != nil {
			t.Fatal(err)
		}
	}()
	shard, shards := drv.EnvInt("VERIF_SHARD", 0), drv.EnvInt("VERIF_SHARDS", 1)
	n := 0
	if rp := os.Getenv("VERIF_REPLAY_STEPS"); rp != "" && dot != "" { // replay of one recorded behaviour: follow its labels through the graph
		var rec settleReplay
		b, err := os.ReadFile(rp)
		if err == nil {
			err = json.Unmarshal(b, &rec)
		}
		if err != nil {
			t.Fatal(err)
		}
		g, err := tla.LoadDot(dot)
		if err != nil {
			t.Fatal(err)
		}
		cur := g.Inits[0]
		var steps []wStepS
		for _, lb := range rec.Steps {
			var next *tla.Edge
			for _, e := range cur.Out {
				if e.Act.Label == lb {
					next = e
				}
			}
			if next == nil {
				t.Fatalf("the graph has no edge %s here", lb)
			}
			steps = append(steps, wStepS{next.Act, next.Src.State, next.Dst.State})
			cur = next.Dst
		}
		res.Add("behaviours", 1)
		runSettleBehaviour(t, res, cfg, steps, 1)
		return
	}
	if dot != "" {
		g, err := tla.LoadDot(dot)
		if err != nil {
			t.Fatal(err)
		}
		res.Add("graph_states", len(g.Nodes))
		res.Add("graph_edges", g.NEdges)
		// every edge is executed after its shortest path and followed by a shortest continuation to a state in which the
		// money can be judged (the honest party / both parties have settled): what a step costs shows at settlement
		compl := g.CompletionTo(func(nd *tla.Node) bool {
			paid := nd.State["paid"].(tla.Rec)
			if cfg.Adversary {
				return paid["A"].(bool)
			}
			return paid["A"].(bool) && paid["B"].(bool)
		})
		for _, nd := range g.Nodes {
			path := g.PathTo(nd)
			for _, e := range nd.Out {
				n++
				if n%shards != shard {
					continue
				}
				e.MarkHit()
				var steps []wStepS
				for _, pe := range append(append(append([]*tla.Edge{}, path...), e), compl.From(e.Dst)...) {
					steps = append(steps, wStepS{pe.Act, pe.Src.State, pe.Dst.State})
				}
				res.Add("behaviours", 1)
				runSettleBehaviour(t, res, cfg, steps, n)
				if n < 3*shards {
					res.Sample(map[string]any{"kind": "history", "adversary": cfg.Adversary, "steps": tla.Steps(append(append([]*tla.Edge{}, path...), e))})
				}
			}
		}
		hit, _ := g.HitCount()
		res.Add("edges_executed", hit)
	}
	if sim != "" {
		all, err := tla.LoadSimDir(sim)
		if err != nil {
			t.Fatal(err)
		}
		for i, b := range all {
			if i%shards != shard {
				continue
			}
			var steps []wStepS
			for k := 1; k < len(b); k++ {
				steps = append(steps, wStepS{b[k].Act, b[k-1].State, b[k].State})
			}
			res.Add("behaviours", 1)
			res.Add("walks", 1)
			runSettleBehaviour(t, res, cfg, steps, i)
		}
	}
}
