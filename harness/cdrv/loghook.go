package cdrv

import (
	"strings"
	"sync/atomic"

	plog "perun.network/go-perun/log"
)

// hookLogger is a silent go-perun logger that calls a hook when a client logs that it took an update response from its
// receiver (client/update.go, updateGeneric): the one point between the receipt of a response and the return of
// Channel.Update at which the environment can act (DeliverResLate in Update.tla ends the call's context there).
type hookLogger struct{ plog.Logger }

var updResHook atomic.Value // func()

func (l hookLogger) Tracef(format string, _ ...interface{}) {
	if strings.HasPrefix(format, "Received update response") {
		if f, ok := updResHook.Load().(func()); ok && f != nil {
			f()
		}
	}
}
func (l hookLogger) WithField(string, interface{}) plog.Logger { return l }
func (l hookLogger) WithFields(plog.Fields) plog.Logger        { return l }
func (l hookLogger) WithError(error) plog.Logger               { return l }

// useHookLogger installs the logger for the whole process; it must be called before the clients are created.
func useHookLogger() {
	updResHook.Store(func() {})
	plog.Set(hookLogger{plog.Default()})
}
