package cdrv

import (
	"bytes"
	"context"
	"errors"
	"fmt"
	"math/big"
	"math/rand"
	"os"
	"runtime"
	"strings"
	"testing"
	"testing/synctest"
	"time"

	"perun.network/go-perun/channel"
	"perun.network/go-perun/client"
	"perun.network/go-perun/wallet"
	"perun.network/go-perun/wire"
	wiretest "perun.network/go-perun/wire/test"
	"verif/harness/drv"
)

type advCase struct {
	Point string   `json:"point"`
	Seq   []string `json:"seq"`
	Dep   bool     `json:"dep"` // a pair of two point-specific classes: always run
	Net   string   `json:"net"` // "ok" | "down" | "stall": the network towards the adversary's addresses during the sequence
	line  string
}

// advWorld is the situation of one adversarial run.
type advWorld struct {
	w        *World
	h, p, x  *Party
	chH, chP *client.Channel
	parentID channel.ID
	cur      *channel.State // H's current state of the H-P channel
	curTx    channel.Transaction
	inflight *channel.State     // H's own update in flight (point "inflight")
	pending  *client.ProposalID // H's own proposal in flight (point "proposing")
	subID    channel.ID         // the sub-channel of points "subopen" / "subsettled"
	subCur   *channel.State     // H's current state of it
	hasSub   bool
	// point "hub": H is the hub of the funded virtual channel vparams between P and X
	hubW     *vWorld
	xid      channel.ID
	vparams  *channel.Params
	vparams2 *channel.Params
}

func (a *advWorld) refresh() {
	a.w.PMu.Lock()
	defer a.w.PMu.Unlock()
	for _, e := range a.w.PLog {
		if e.Who == "H" && e.Ch == a.parentID && e.Kind == "enabled" {
			a.cur = e.Cur.State.Clone()
			a.curTx = e.Cur.Clone()
		}
		if a.hasSub && e.Who == "H" && e.Ch == a.subID && e.Kind == "enabled" {
			a.subCur = e.Cur.State.Clone()
		}
	}
}

// curOf returns H's current state of channel id (nil if none).
func (a *advWorld) curOf(id channel.ID) *channel.State {
	a.w.PMu.Lock()
	defer a.w.PMu.Unlock()
	var st *channel.State
	for _, e := range a.w.PLog {
		if e.Who == "H" && e.Ch == id && e.Kind == "enabled" && e.Cur.State != nil {
			st = e.Cur.State.Clone()
		}
	}
	return st
}

func orEmpty(m map[wire.AddrKey]bool) map[wire.AddrKey]bool {
	if m == nil {
		return map[wire.AddrKey]bool{}
	}
	return m
}

func sign(acc wallet.Account, s *channel.State) wallet.Sig {
	sg, err := channel.Sign(acc, s, channel.TestBackendID)
	if err != nil {
		return bytes.Repeat([]byte{1}, 64)
	}
	return sg
}

// craft materialises one message class. It returns the message and the sender's wire address (nil message: class not applicable).
func (a *advWorld) craft(class string, n int) (wire.Msg, map[wallet.BackendID]wire.Address) {
	w, h, p, x := a.w, a.h, a.p, a.x
	S, P := x.WireAddr(), p.WireAddr()
	if strings.HasPrefix(class, "u-") { // the same message as the "s-" / "p-" class, from an address that never takes a message
		inner := map[string]string{"u-sync-known": "s-sync-known", "u-sync-current": "p-sync-current",
			"u-update-known-badsig": "s-update-known-badsig", "u-subprop-foreign": "s-subprop-foreign"}[class]
		m, _ := a.craft(inner, n)
		u := wiretest.NewRandomAddressesMap(w.Rng, 1)[0]
		w.Bus.mu.Lock()
		if w.Bus.Unreachable == nil {
			w.Bus.Unreachable = map[wire.AddrKey]bool{}
		}
		w.Bus.Unreachable[wire.Keys(u)] = true
		w.Bus.mu.Unlock()
		return m, u
	}
	rnd := channel.ID{0xde, 0xad, byte(n)}
	known := a.parentID
	if a.cur == nil {
		known = rnd
	}
	next := func(dv uint64) *channel.State { // a valid successor candidate of H's current state
		var st *channel.State
		if a.cur != nil {
			st = a.cur.Clone()
		} else {
			st = &channel.State{ID: rnd, App: channel.NoApp(), Data: channel.NoData(), Allocation: *w.Alloc(10, 10)}
		}
		st.Version += dv
		return st
	}
	upd := func(st *channel.State, actor channel.Index, sig wallet.Sig) *client.ChannelUpdateMsg {
		return &client.ChannelUpdateMsg{ChannelUpdate: client.ChannelUpdate{State: st, ActorIdx: actor}, Sig: sig}
	}
	vparams := func(virtual bool) *channel.Params {
		parts := []map[wallet.BackendID]wallet.Address{p.WalletAddr(), x.WalletAddr()}
		return channel.NewParamsUnsafe(60, parts, channel.NoApp(), big.NewInt(int64(777+n)), false, virtual, channel.ZeroAux)
	}
	vfund := func(kind string) wire.Msg {
		vp := vparams(kind != "junk")
		vs := &channel.State{ID: vp.ID(), App: channel.NoApp(), Data: channel.NoData(), Allocation: *w.Alloc(1, 1)}
		if kind == "junk" {
			vs.ID[0] ^= 0xff
		}
		im := []channel.Index{0, 1}
		if kind == "badimap" {
			im = []channel.Index{0, 5}
		}
		sigs := []wallet.Sig{sign(p.Acc, vs), sign(x.Acc, vs)}
		if kind == "manysigs" {
			sigs = append(sigs, sign(x.Acc, vs))
		}
		st := next(1)
		st.Balances[0][0] = new(big.Int).Sub(st.Balances[0][0], big.NewInt(1))
		st.Balances[0][1] = new(big.Int).Sub(st.Balances[0][1], big.NewInt(1))
		st.Locked = append(st.Locked, *channel.NewSubAlloc(vp.ID(), []channel.Bal{big.NewInt(2)}, im))
		return &client.VirtualChannelFundingProposalMsg{ChannelUpdateMsg: *upd(st, 0, sign(p.Acc, st)),
			Initial: channel.SignedState{Params: vp, State: vs, Sigs: sigs}, IndexMap: im}
	}
	vsettle := func(kind string) wire.Msg {
		vp := vparams(true)
		vs := &channel.State{ID: vp.ID(), App: channel.NoApp(), Data: channel.NoData(), Allocation: *w.Alloc(1, 1), IsFinal: true, Version: 1}
		if kind == "junk" {
			vs.ID[0] ^= 0xff
		}
		sigs := []wallet.Sig{sign(p.Acc, vs), sign(x.Acc, vs)}
		if kind == "manysigs" {
			sigs = append(sigs, sign(x.Acc, vs))
		}
		st := next(1)
		return &client.VirtualChannelSettlementProposalMsg{ChannelUpdateMsg: *upd(st, 0, sign(p.Acc, st)),
			Final: channel.SignedState{Params: vp, State: vs, Sigs: sigs}}
	}
	prop := func(abs propAbs, sender *Party) wire.Msg {
		other := cloneAsset(w)
		m, _ := buildProposal(w, abs, h, p, sender, a.parentID, other)
		return m
	}
	baseProp := func(kind string) propAbs {
		return propAbs{Kind: kind, Sender: "S", CD: 60, Cols: 2, Bals: "ok", Peers: "SR", Parent: "known", Assets: "same", Funds: "within", FA: "equal", Parents: "ok", IMaps: "ok"}
	}
	switch class {
	// ---- stranger ----
	case "s-ledgerprop-ok":
		return prop(baseProp("ledger"), x), S
	case "s-subprop-unknown":
		b := baseProp("sub")
		b.Parent = "unknown"
		return prop(b, x), S
	case "s-subprop-foreign":
		return prop(baseProp("sub"), x), S
	case "s-virtprop-noparents":
		b := baseProp("virtual")
		b.Parents = "none"
		return prop(b, x), S
	case "s-virtprop-oneparent":
		b := baseProp("virtual")
		b.Parents = "one"
		return prop(b, x), S
	case "s-virtprop-foreign":
		return prop(baseProp("virtual"), x), S
	case "s-update-unknown":
		st := next(1)
		st.ID = rnd
		return upd(st, 0, sign(x.Acc, st)), S
	case "s-update-known-badsig":
		st := next(1)
		return upd(st, 0, sign(x.Acc, st)), S
	case "s-acc-unknown":
		return &client.ChannelUpdateAccMsg{ChannelID: rnd, Version: 1, Sig: bytes.Repeat([]byte{3}, 64)}, S
	case "s-rej-unknown":
		return &client.ChannelUpdateRejMsg{ChannelID: rnd, Version: 1, Reason: "x"}, S
	case "s-acc-known-future":
		return &client.ChannelUpdateAccMsg{ChannelID: known, Version: 99, Sig: bytes.Repeat([]byte{3}, 64)}, S
	case "s-sync-empty":
		return &client.ChannelSyncMsg{Phase: channel.Acting}, S
	case "s-sync-known":
		st := next(0)
		return &client.ChannelSyncMsg{Phase: channel.Acting, CurrentTX: channel.Transaction{State: st, Sigs: make([]wallet.Sig, 2)}}, S
	case "s-propacc-unknown":
		return &client.LedgerChannelProposalAccMsg{BaseChannelProposalAcc: client.BaseChannelProposalAcc{ProposalID: client.ProposalID{1, 2, 3}}, Participant: x.WalletAddr()}, S
	case "s-proprej-unknown":
		return &client.ChannelProposalRejMsg{ProposalID: client.ProposalID{1, 2, 3}, Reason: "no"}, S
	case "s-ping":
		return wire.NewPingMsg(), S
	case "s-pong":
		return wire.NewPongMsg(), S
	case "s-shutdown":
		return &wire.ShutdownMsg{Reason: "bye"}, S
	case "s-authresponse":
		m, err := wire.NewAuthResponseMsg(x.WireAcc, channel.TestBackendID)
		if err != nil {
			return nil, nil
		}
		return m, S
	case "s-vfund-unknown":
		m := vfund("junk").(*client.VirtualChannelFundingProposalMsg)
		m.State.ID = rnd
		return m, S
	case "s-vsettle-unknown":
		m := vsettle("junk").(*client.VirtualChannelSettlementProposalMsg)
		m.State.ID = rnd
		return m, S
	// ---- counterparty with a valid key ----
	case "p-update-valid":
		st := next(1)
		st.Balances[0][0] = new(big.Int).Sub(st.Balances[0][0], big.NewInt(1))
		st.Balances[0][1] = new(big.Int).Add(st.Balances[0][1], big.NewInt(1))
		return upd(st, 0, sign(p.Acc, st)), P
	case "p-update-old":
		st := next(0)
		return upd(st, 0, sign(p.Acc, st)), P
	case "p-update-future":
		st := next(2)
		return upd(st, 0, sign(p.Acc, st)), P
	case "p-update-wrongactor":
		st := next(1)
		return upd(st, 1, sign(p.Acc, st)), P
	case "p-update-3cols":
		st := next(1)
		st.Balances[0] = append(st.Balances[0], big.NewInt(0))
		return upd(st, 0, sign(p.Acc, st)), P
	case "p-update-lockedadded":
		st := next(1)
		st.Balances[0][1] = new(big.Int).Sub(st.Balances[0][1], big.NewInt(1))
		st.Locked = append(st.Locked, *channel.NewSubAlloc(rnd, []channel.Bal{big.NewInt(1)}, nil))
		return upd(st, 0, sign(p.Acc, st)), P
	case "p-update-badsig":
		st := next(1)
		return upd(st, 0, bytes.Repeat([]byte{9}, 64)), P
	case "p-vfund-junk":
		return vfund("junk"), P
	case "p-vfund-manysigs":
		return vfund("manysigs"), P
	case "p-vfund-badimap":
		return vfund("badimap"), P
	case "p-vfund-valid-unmatched":
		return vfund("valid"), P
	case "p-vsettle-junk":
		return vsettle("junk"), P
	case "p-vsettle-manysigs":
		return vsettle("manysigs"), P
	case "p-sync-empty":
		return &client.ChannelSyncMsg{Phase: channel.Acting}, P
	case "p-sync-current":
		return &client.ChannelSyncMsg{Phase: channel.Acting, CurrentTX: a.curTx.Clone()}, P
	case "p-sync-newer-unsigned":
		st := next(3)
		return &client.ChannelSyncMsg{Phase: channel.Acting, CurrentTX: channel.Transaction{State: st, Sigs: []wallet.Sig{bytes.Repeat([]byte{1}, 64), bytes.Repeat([]byte{2}, 64)}}}, P
	case "p-acc-wrongsig":
		v := a.cur.Version + 1
		return &client.ChannelUpdateAccMsg{ChannelID: known, Version: v, Sig: sign(p.Acc, next(5))}, P
	case "p-acc-future":
		return &client.ChannelUpdateAccMsg{ChannelID: known, Version: a.cur.Version + 7, Sig: sign(p.Acc, next(7))}, P
	case "p-rej-current":
		return &client.ChannelUpdateRejMsg{ChannelID: known, Version: a.cur.Version + 1, Reason: "no"}, P
	case "p-subprop-valid", "p-subprop-twice":
		b := baseProp("sub")
		b.Sender = "I"
		return prop(b, x), P
	case "p-subprop-exceed":
		b := baseProp("sub")
		b.Sender, b.Funds = "I", "exceed"
		return prop(b, x), P
	case "p-propacc-unknown":
		return &client.SubChannelProposalAccMsg{BaseChannelProposalAcc: client.BaseChannelProposalAcc{ProposalID: client.ProposalID{4, 5}}}, P
	case "p-ledgerprop-again":
		b := baseProp("ledger")
		b.Sender = "I"
		return prop(b, x), P
	}
	// ---- H is the hub of a virtual channel between P and X ----
	if a.hubW != nil {
		hm := vfMsg{Arrive: "both", Side: "-", PSig: "valid", Ver: 1, Amount: "exact", IMap: "ok", VSigs: "both", VState: "same", VFlag: true, VParts: "ab", Move: "exact"}
		side, sender := "A", P
		if strings.HasPrefix(class, "x-") {
			side, sender = "B", S
		}
		if strings.HasSuffix(class, "-short") { // the index map of this proposal is one entry short
			hm.Side, hm.IMap = side, "short"
		}
		switch strings.TrimSuffix(strings.TrimSuffix(strings.TrimSuffix(class[2:], "-late"), "-lone"), "-short") {
		case "vsettle": // the final state 3 / 1 of the funded virtual channel, signed by both end points
			hm.Sit, hm.VFinal = "vsettle", true
			return a.hubW.proposal(hm, side, false, a.vparams, a.hubW.vState(hm, a.vparams, 3, 1, 1, true, "-")), sender
		case "vfund2": // a second virtual channel 1 / 1
			hm.Sit = "vfund"
			return a.hubW.proposal(hm, side, true, a.vparams2, a.hubW.vState(hm, a.vparams2, 1, 1, 0, false, "-")), sender
		case "vchan-update": // the funded virtual channel 2 / 2 itself: its next state, the sender pays the other end point 1
			ss := a.hubW.vState(hm, a.vparams, 2, 2, 0, false, "-")
			st := ss.State.Clone()
			st.Version = 1
			me, signer := 0, p
			if side == "B" {
				me, signer = 1, x
			}
			st.Balances[0][me] = big.NewInt(1)
			st.Balances[0][1-me] = big.NewInt(3)
			return upd(st, channel.Index(me), sign(signer.Acc, st)), sender
		case "vfund2z": // a second virtual channel 2 / 0: X owns nothing in it
			hm.Sit = "vfund"
			return a.hubW.proposal(hm, side, true, a.vparams2, a.hubW.vState(hm, a.vparams2, 2, 0, 0, false, "-")), sender
		}
	}
	// ---- responses to H's own proposal in flight ----
	if a.pending != nil {
		acc := client.BaseChannelProposalAcc{ProposalID: *a.pending}
		acc.NonceShare[0] = 5
		switch class {
		case "p-propacc-match-sub":
			return &client.SubChannelProposalAccMsg{BaseChannelProposalAcc: acc}, P
		case "s-propacc-match-sub":
			return &client.SubChannelProposalAccMsg{BaseChannelProposalAcc: acc}, S
		case "p-propacc-match-virtual":
			return &client.VirtualChannelProposalAccMsg{BaseChannelProposalAcc: acc, Responder: p.WalletAddr()}, P
		case "p-propacc-match-ledger":
			return &client.LedgerChannelProposalAccMsg{BaseChannelProposalAcc: acc, Participant: p.WalletAddr()}, P
		case "p-propacc-match-ledger-nopart":
			return &client.LedgerChannelProposalAccMsg{BaseChannelProposalAcc: acc, Participant: map[wallet.BackendID]wallet.Address{}}, P
		case "p-proprej-match":
			return &client.ChannelProposalRejMsg{ProposalID: *a.pending, Reason: "no"}, P
		case "s-proprej-match":
			return &client.ChannelProposalRejMsg{ProposalID: *a.pending, Reason: "no"}, S
		}
	}
	// ---- the channel has (had) a sub-channel ----
	if a.hasSub && a.subCur != nil {
		subNext := func() *channel.State {
			st := a.subCur.Clone()
			st.Version++
			return st
		}
		move := func(st *channel.State, d0, d1 int64) {
			st.Balances[0][0] = new(big.Int).Add(st.Balances[0][0], big.NewInt(d0))
			st.Balances[0][1] = new(big.Int).Add(st.Balances[0][1], big.NewInt(d1))
		}
		subAlloc := func() channel.SubAlloc { return *channel.NewSubAlloc(a.subID, []channel.Bal{big.NewInt(6)}, nil) }
		switch class {
		case "p-update-withdraw-early": // the sub-allocation is paid out although the sub-channel is not final
			st := next(1)
			st.Locked = nil
			move(st, 3, 3)
			return upd(st, 0, sign(p.Acc, st)), P
		case "p-update-fund-again": // the funding update once more
			st := next(1)
			move(st, -3, -3)
			st.Locked = append(st.Locked, subAlloc())
			return upd(st, 0, sign(p.Acc, st)), P
		case "p-update-refund-sub": // the settled sub-channel is funded again: the shape of the original funding update
			st := next(1)
			move(st, -3, -3)
			st.Locked = []channel.SubAlloc{subAlloc()}
			return upd(st, 0, sign(p.Acc, st)), P
		case "p-update-withdraw-again": // the shape of the settlement update once more
			st := next(1)
			st.Locked = nil
			move(st, 2, 4)
			return upd(st, 0, sign(p.Acc, st)), P
		case "p-subupdate-valid", "p-subupdate-settled":
			st := subNext()
			if !st.IsFinal {
				move(st, -1, 1)
			}
			return upd(st, 0, sign(p.Acc, st)), P
		case "p-subupdate-badsig":
			st := subNext()
			move(st, 1, -1)
			return upd(st, 0, bytes.Repeat([]byte{7}, 64)), P
		}
	}
	return nil, nil
}

func cloneAsset(w *World) channel.Asset {
	return w.Asset
}

// runAdversaryCase runs one adversarial sequence; it returns a violation description ("" if none).
func runAdversaryCase(t *testing.T, c *advCase, proto bool, idx int) (what, class string) {
	var leftover string
	defer func() {
		// after the clean tear-down of the harness every goroutine that is still blocked belongs to go-perun. One that sits
		// in handleUpdateReq holds its channel's mutex for ever: a locked channel. Any other one is a leak, outside C12.
		if p := recover(); p != nil && what == "" {
			if strings.Contains(leftover, "handleUpdateReq") {
				what, class = "after the sequence, the honest probes and the shutdown of the client a goroutine of go-perun is still blocked inside the update handler, holding its channel's mutex: "+leftover, "handler-blocked-forever"
			} else {
				what, class = "goroutine leak (no channel lock involved): "+leftover, "leak"
			}
		}
	}()
	synctest.Test(t, func(t *testing.T) {
		NoWatcher = map[string]bool{}
		w := NewWorld(t, int64(idx)+1, "H", "P", "X")
		defer func() { leftover = blockedGoroutines() }()
		defer w.Close()
		ctx, cancel := context.WithCancel(context.Background())
		defer func() { cancel(); w.Quiesce() }()
		a := &advWorld{w: w, h: w.P[0], p: w.P[1], x: w.P[2]}
		h, p := a.h, a.p
		var ownUpdate, proposeDone chan error
		var cancelOwn context.CancelFunc
		call := func(f func() error) bool { // an honest call during set-up, every message delivered, H's handlers accepting
			done := make(chan error, 1)
			go func() { done <- f() }()
			w.Quiesce()
			pump(ctx, w, h, nil, nil)
			select {
			case err := <-done:
				return err == nil
			default:
				return false
			}
		}
		if c.Point != "nochannel" {
			chP, chH, err := w.OpenLedgerChannel(p, h, 60, 10, 10)
			if err != nil {
				what, class = "setup: "+err.Error(), "setup"
				return
			}
			a.chH, a.chP, a.parentID = chH, chP, chH.ID()
			a.refresh()
			switch c.Point {
			case "inflight": // H's own update waits for the response; the request stays on the bus
				ownUpdate = make(chan error, 1)
				var octx context.Context
				octx, cancelOwn = context.WithCancel(ctx)
				go func() {
					ownUpdate <- chH.Update(octx, func(s *channel.State) {
						s.Balances[0][1] = new(big.Int).Sub(s.Balances[0][1], big.NewInt(1))
						s.Balances[0][0] = new(big.Int).Add(s.Balances[0][0], big.NewInt(1))
					})
				}()
				w.Quiesce()
			case "proposing": // H has proposed a second channel to P; P holds the proposal (knows its id) and answers as it likes
				prop, err := client.NewLedgerChannelProposal(60, h.WalletAddr(), w.Alloc(4, 4),
					[]map[wallet.BackendID]wire.Address{h.WireAddr(), p.WireAddr()})
				if err != nil {
					what, class = "setup: "+err.Error(), "setup"
					return
				}
				id := prop.ProposalID
				a.pending = &id
				proposeDone = make(chan error, 1)
				go func() {
					pctx, c2 := context.WithTimeout(ctx, 40*time.Second)
					defer c2()
					_, err := h.C.ProposeChannel(pctx, prop)
					proposeDone <- err
				}()
				w.Quiesce()
				w.Bus.mu.Lock()
				w.Bus.Pending = nil
				w.Bus.mu.Unlock()
			case "subopen", "subsettled":
				sprop, err := client.NewSubChannelProposal(a.parentID, 60, w.Alloc(3, 3))
				if err != nil {
					what, class = "setup: "+err.Error(), "setup"
					return
				}
				var subP *client.Channel
				subs := make(chan *client.Channel, 2)
				done := make(chan *client.Channel, 1)
				go func() { ch, _ := p.C.ProposeChannel(ctx, sprop); done <- ch }()
				w.Quiesce()
				pump(ctx, w, h, nil, subs)
				var subH *client.Channel
				select {
				case subP = <-done:
				default:
				}
				select {
				case subH = <-subs:
				default:
				}
				if subP == nil || subH == nil {
					what, class = "setup: the sub-channel did not open", "setup"
					return
				}
				a.subID, a.hasSub = subH.ID(), true
				if c.Point == "subsettled" {
					if !call(func() error {
						return subP.Update(ctx, func(s *channel.State) {
							s.Balances[0][0], s.Balances[0][1] = big.NewInt(2), big.NewInt(4)
							s.IsFinal = true
						})
					}) {
						what, class = "setup: the sub-channel could not be finalised", "setup"
						return
					}
					hs := make(chan error, 1)
					go func() { hs <- subH.Settle(ctx, false) }()
					if !call(func() error { return subP.Settle(ctx, false) }) {
						what, class = "setup: the sub-channel could not be settled by its proposer", "setup"
						return
					}
					select {
					case err := <-hs:
						if err != nil {
							what, class = "setup: H's settlement of the sub-channel: "+err.Error(), "setup"
							return
						}
					default:
						what, class = "setup: H's settlement of the sub-channel did not return", "setup"
						return
					}
				}
				a.refresh()
				if a.subCur == nil || (c.Point == "subsettled") != (len(a.cur.Locked) == 0) {
					what, class = "setup: unexpected parent state", "setup"
					return
				}
			case "hub":
				_, chHX, err := w.OpenLedgerChannel(a.x, h, 60, 10, 10)
				if err != nil {
					what, class = "setup: "+err.Error(), "setup"
					return
				}
				a.xid = chHX.ID()
				v := &vWorld{w: w, h: h, a: p, b: a.x, x: a.x, pid: map[string]channel.ID{"A": a.parentID, "B": a.xid}}
				mk := func(n int64) *channel.Params {
					return channel.NewParamsUnsafe(60, []map[wallet.BackendID]wallet.Address{p.WalletAddr(), a.x.WalletAddr()},
						channel.NoApp(), big.NewInt(9000+n+int64(idx)), false, true, channel.ZeroAux)
				}
				a.vparams, a.vparams2 = mk(1), mk(2)
				hm := vfMsg{Sit: "vfund", Arrive: "both", Side: "-", PSig: "valid", Ver: 1, Amount: "exact", IMap: "ok", VSigs: "both", VState: "same", VFlag: true, VParts: "ab", Move: "exact"}
				ss := v.vState(hm, a.vparams, 2, 2, 0, false, "-")
				pa, pb := v.proposal(hm, "A", true, a.vparams, ss), v.proposal(hm, "B", true, a.vparams, ss)
				_ = w.Bus.Inject(&wire.Envelope{Sender: p.WireAddr(), Recipient: h.WireAddr(), Msg: pa})
				w.Quiesce()
				_ = w.Bus.Inject(&wire.Envelope{Sender: a.x.WireAddr(), Recipient: h.WireAddr(), Msg: pb})
				w.Sleep(time.Second)
				if !v.signedByHub(pa) || !v.signedByHub(pb) {
					what, class = "setup: the hub did not accept the honest funding of the virtual channel", "setup"
					return
				}
				a.hubW = v
				a.refresh()
				w.Bus.mu.Lock()
				w.Bus.Pending = nil
				w.Bus.mu.Unlock()
			case "handling": // an honest update of P is with H's handler, not answered yet
				go func() {
					_ = chP.Update(ctx, func(s *channel.State) {
						s.Balances[0][0] = new(big.Int).Sub(s.Balances[0][0], big.NewInt(1))
						s.Balances[0][1] = new(big.Int).Add(s.Balances[0][1], big.NewInt(1))
					})
				}()
				w.Quiesce()
				if i := w.Bus.Find(func(e *wire.Envelope) bool { return w.Bus.Info(e).T == "upd" }); i >= 0 {
					w.Bus.Deliver(i)
					w.Quiesce()
				}
			}
		}
		// ---- the adversarial sequence ----
		setNet := func(on bool) {
			if c.Net != "down" && c.Net != "stall" {
				return
			}
			w.Bus.mu.Lock()
			defer w.Bus.mu.Unlock()
			if w.Bus.Down == nil {
				w.Bus.Down, w.Bus.Unreachable = map[wire.AddrKey]bool{}, orEmpty(w.Bus.Unreachable)
			}
			for _, q := range []*Party{a.p, a.x} {
				k := wire.Keys(q.WireAddr())
				if c.Net == "down" {
					w.Bus.Down[k] = on
				} else {
					w.Bus.Unreachable[k] = on
				}
			}
		}
		setNet(true)
		// the user answers with a bounded context (an unbounded one would make the user, not go-perun, hold the channel)
		userCtx := func() context.Context {
			uc, cancelU := context.WithTimeout(ctx, 10*time.Second)
			_ = cancelU
			return uc
		}
		w.Bus.Proto = proto
		for n, cl := range c.Seq {
			if strings.HasSuffix(cl, "-late") { // sent only after the hub's matching time-out (10 s) has fired
				w.Sleep(11 * time.Second)
			}
			times := 1
			if strings.HasSuffix(cl, "-x20") { // the same message twenty times in a row: more than a receiver buffers
				cl, times = strings.TrimSuffix(cl, "-x20"), 20
			}
			var msg wire.Msg
			var sender map[wallet.BackendID]wire.Address
			if strings.HasPrefix(cl, "p-open-") {
				// P accepts H's proposal; H publishes its signature of the new channel's initial state; P's answer to THAT
				acc, from := a.craft("p-propacc-match-ledger", n)
				if acc == nil || w.Bus.Inject(&wire.Envelope{Sender: from, Recipient: h.WireAddr(), Msg: acc}) != nil {
					continue
				}
				w.Quiesce()
				var newID *channel.ID
				for _, e := range w.Bus.Pending {
					if m, ok := e.Msg.(*client.ChannelUpdateAccMsg); ok && m.Version == 0 && w.Bus.Info(e).From == "H" {
						id := m.ChannelID
						newID = &id
					}
				}
				if newID == nil {
					continue
				}
				switch cl {
				case "p-open-rej-v0":
					msg = &client.ChannelUpdateRejMsg{ChannelID: *newID, Version: 0, Reason: "no"}
				case "p-open-accbad-v0":
					msg = &client.ChannelUpdateAccMsg{ChannelID: *newID, Version: 0, Sig: bytes.Repeat([]byte{9}, 64)}
				default:
					msg = &client.ChannelUpdateAccMsg{ChannelID: *newID, Version: 1, Sig: bytes.Repeat([]byte{9}, 64)}
				}
				sender = from
			} else {
				msg, sender = a.craft(cl, n)
			}
			if msg == nil {
				continue
			}
			undec := false
			if times == 1 {
				undec = w.Bus.Inject(&wire.Envelope{Sender: sender, Recipient: h.WireAddr(), Msg: msg}) != nil
			} else {
				// back to back from one goroutine, as the reader of a connection delivers what has arrived: a delivery
				// that finds a full receiver stays in Put
				go func() {
					for k := 0; k < times; k++ {
						_ = w.Bus.Inject(&wire.Envelope{Sender: sender, Recipient: h.WireAddr(), Msg: msg})
					}
				}()
			}
			if undec {
				continue // not decodable: outside the property
			}
			w.Quiesce()
			if times > 1 {
				// every copy may keep a handler busy until its time-out (10 s) - one after the other under the channel's
				// mutex (61 s per copy: also for time-outs that a change of the library makes longer); the property speaks about
				// the time AFTER the messages have been handled
				w.Sleep(time.Duration(times) * 61 * time.Second)
			}
			w.Sleep(500 * time.Millisecond)
			// proposals and updates that reach the user's handlers are refused by the (honest) user
			for pp := h.TakeProposal(); pp != nil; pp = h.TakeProposal() {
				r := pp.Resp
				go func() { _ = r.Reject(userCtx(), "no") }()
				w.Quiesce()
			}
			if c.Point != "handling" {
				for u := h.TakeUpdate(); u != nil; u = h.TakeUpdate() {
					r := u.Resp
					if c.Net == "down" || c.Net == "stall" || strings.Contains(cl, "vchan-update") {
						// with the network gone the user ACCEPTS what it is shown: the response cannot be sent, the update
						// has to be rolled back and the channel must stay usable
						go func() { _ = r.Accept(userCtx()) }()
					} else {
						go func() { _ = r.Reject(userCtx(), "no") }()
					}
					w.Quiesce()
				}
			}
		}
		w.Bus.Proto = false
		w.Sleep(25 * time.Second) // every 10 s time-out of the handlers has fired
		setNet(false)
		if proposeDone != nil { // H's own proposal call (40 s context) returns, whatever the answer was
			w.Sleep(40 * time.Second)
			select {
			case <-proposeDone:
			default:
				what, class = "H's ProposeChannel call (40 s context) has not returned 65 s after the response(s)", "propose-hangs"
				return
			}
		}
		if c.Point == "nochannel" {
			// probe: an honest channel opening must still work
			done := make(chan error, 1)
			go func() {
				pctx, c2 := context.WithTimeout(ctx, 60*time.Second)
				defer c2()
				w.Bus.mu.Lock()
				w.Bus.Pending = nil
				w.Bus.mu.Unlock()
				_, _, err := w.OpenLedgerChannel(p, h, 60, 5, 5)
				_ = pctx
				done <- err
			}()
			w.Sleep(61 * time.Second)
			select {
			case err := <-done:
				if err != nil {
					what, class = "after the sequence an honest channel opening fails: "+err.Error(), "probe-open-fails"
				}
			default:
				what, class = "after the sequence an honest channel opening does not complete within 60 s", "probe-open-hangs"
			}
			return
		}
		// release what the situation left open: H's own update in flight gets no answer from the (adversarial) peer
		if cancelOwn != nil {
			cancelOwn()
			w.Quiesce()
		}
		for u := h.TakeUpdate(); u != nil; u = h.TakeUpdate() { // point "handling": the user finally answers
			r := u.Resp
			go func() { _ = r.Reject(ctx, "no") }()
			w.Quiesce()
		}
		for _, cl := range c.Seq { // copies that waited for what the situation had left open are handled only now
			if strings.HasSuffix(cl, "-x20") {
				w.Sleep(20 * 61 * time.Second)
			}
		}
		w.Bus.mu.Lock()
		w.Bus.Pending = nil
		w.Bus.mu.Unlock()
		// ---- probe 1: an honest request of the counterparty, consistent with H's state, is handled in bounded time ----
		probeIn := func(id channel.ID, peer *Party, name string) bool {
			cur := a.curOf(id)
			if cur == nil || cur.IsFinal {
				return true
			}
			st := cur.Clone()
			st.Version++
			st.Balances[0][0] = new(big.Int).Sub(st.Balances[0][0], big.NewInt(1))
			st.Balances[0][1] = new(big.Int).Add(st.Balances[0][1], big.NewInt(1))
			probeMsg := &client.ChannelUpdateMsg{ChannelUpdate: client.ChannelUpdate{State: st, ActorIdx: 0}, Sig: sign(peer.Acc, st)}
			_ = w.Bus.Inject(&wire.Envelope{Sender: peer.WireAddr(), Recipient: h.WireAddr(), Msg: probeMsg})
			w.Quiesce()
			u := h.TakeUpdateFor(id)
			if u == nil {
				w.Sleep(61 * time.Second)
				u = h.TakeUpdateFor(id)
			}
			if u == nil {
				what, class = "after the sequence an honest, valid update request of the counterparty"+name+" does not reach H's handler within 60 s: the channel is locked", "probe-in-locked"
				return false
			}
			go func() { _ = u.Resp.Accept(ctx) }()
			w.Quiesce()
			isAcc := func(e *wire.Envelope) bool {
				acc, ok := e.Msg.(*client.ChannelUpdateAccMsg)
				return ok && acc.ChannelID == id && acc.Version == st.Version
			}
			answered := w.Bus.Find(isAcc) >= 0
			if !answered {
				w.Sleep(61 * time.Second)
				answered = w.Bus.Find(isAcc) >= 0
			}
			if !answered {
				what, class = "after the sequence H does not answer an honest, valid update request"+name+" it accepted within 60 s", "probe-in-unanswered"
				return false
			}
			return true
		}
		a.refresh()
		if !probeIn(a.parentID, p, "") {
			return
		}
		if a.hubW != nil && !probeIn(a.xid, a.x, " (second end point of the virtual channel)") {
			return
		}
		// ---- probe 2: H's own API call returns in bounded time and does not find the channel locked ----
		done := make(chan error, 1)
		go func() {
			pctx, c2 := context.WithTimeout(ctx, 30*time.Second)
			defer c2()
			done <- a.chH.Update(pctx, func(s *channel.State) {
				s.Balances[0][1] = new(big.Int).Sub(s.Balances[0][1], big.NewInt(1))
				s.Balances[0][0] = new(big.Int).Add(s.Balances[0][0], big.NewInt(1))
			})
		}()
		w.Sleep(61 * time.Second)
		select {
		case err := <-done:
			if err != nil && containsStr(err.Error(), "locking machine mutex") {
				what, class = "after the sequence H's own Update call cannot acquire the channel within 30 s: the channel is locked ("+err.Error()+")", "probe-out-locked"
			}
		default:
			what, class = "after the sequence H's own Update call (30 s context) has not returned after 60 s", "probe-out-hangs"
		}
		_ = ownUpdate
	})
	return
}

// TestAdversary runs the sequences exported by Adversary.tla (VERIF_CASES): all singles, a seeded sample of pairs.
func TestAdversary(t *testing.T) {
	path := os.Getenv("VERIF_CASES")
	if path == "" {
		t.Skip()
	}
	res := drv.NewResult("adversary")
	defer func() {
		if err := res.Write(); err != nil {
			t.Fatal(err)
		}
	}()
	all, err := loadJSONLines(path, func(c *advCase, s string) { c.line = s })
	if err != nil {
		t.Fatal(err)
	}
	var cases []*advCase
	rng := rand.New(rand.NewSource(drv.Seed()))
	pairs := drv.EnvInt("VERIF_PAIRS", 300)
	byPoint := map[string][]int{}
	var points []string
	for i, c := range all {
		if len(c.Seq) == 1 || c.Dep {
			cases = append(cases, c)
		} else {
			if _, ok := byPoint[c.Point]; !ok {
				points = append(points, c.Point)
			}
			byPoint[c.Point] = append(byPoint[c.Point], i)
		}
	}
	// seeded sample of the pairs, the same number at every life-cycle point
	for _, pt := range points {
		ix := byPoint[pt]
		rng.Shuffle(len(ix), func(i, j int) { ix[i], ix[j] = ix[j], ix[i] })
	}
	for k, taken := 0, 0; taken < pairs; k++ {
		any := false
		for _, pt := range points {
			if k < len(byPoint[pt]) && taken < pairs {
				cases = append(cases, all[byPoint[pt][k]])
				taken++
				any = true
			}
		}
		if !any {
			break
		}
	}
	sup := newSupervised()
	sup.OnHang = func(s *Supervised, desc, stacks string) {
		blocked := mutexBlocked(stacks)
		kind, sig := "monitor", "mutex-deadlock|"+desc
		if i := strings.Index(desc, "|"); i > 0 {
			sig = "mutex-deadlock|" + strings.Split(desc, "|")[1]
		}
		if len(blocked) == 0 {
			kind = "conformance" // nothing of go-perun waits for a mutex: the harness hangs
		}
		s.Violate("C12", kind, sig, fmt.Sprintf("case %s: the client does not come to rest - goroutines of go-perun wait for a mutex that is never released (a deadlock: permanently locked): %s", desc, strings.Join(blocked, " ; ")), map[string]any{"driver": "adversary", "case": desc})
	}
	start := drv.EnvInt("VERIF_START", 0)
	res.Add("sequences", len(cases))
	for n := start; n < 2*len(cases); n++ {
		c, proto := cases[n/2], n%2 == 1
		ser := "native"
		if proto {
			ser = "protobuf"
		}
		sup.Begin(n, fmt.Sprintf("%s|%v|%s|%s", c.Point, c.Seq, c.Net, ser))
		what, class := runAdversaryCase(t, c, proto, n)
		res.Add("evaluations", 1)
		res.Seen("case", fmt.Sprintf("%s|%v|%s|%s", c.Point, c.Seq, c.Net, ser))
		if what != "" {
			kind := "monitor"
			if class == "leak" {
				res.Add("goroutine_leaks_outside_property", 1)
				res.Seen("leak", what)
				continue
			}
			if class == "setup" {
				kind = "conformance"
			}
			sig := class + "|" + c.Seq[len(c.Seq)-1]
			rp := map[string]any{"driver": "adversary", "point": c.Point, "seq": c.Seq, "net": c.Net, "serializer": ser}
			full := fmt.Sprintf("life-cycle point %q, messages %v (%s; network towards the remote party: %s): %s", c.Point, c.Seq, ser, c.Net, what)
			sup.Violate("C12", kind, sig, full, rp)
			res.Violate("C12", kind, sig, full, rp)
		}
		if n < 2 {
			res.Sample(map[string]any{"point": c.Point, "seq": c.Seq, "serializer": ser})
		}
	}
}

// blockedGoroutines summarises the durably blocked goroutines of the current bubble (other than the caller).
func blockedGoroutines() string {
	buf := make([]byte, 1<<22)
	buf = buf[:runtime.Stack(buf, true)]
	gs := strings.Split(string(buf), "\n\n")
	me := ""
	if len(gs) > 0 {
		if i := strings.Index(gs[0], "synctest bubble "); i >= 0 {
			me = strings.SplitN(gs[0][i:], "]", 2)[0]
		}
	}
	var out []string
	for _, g := range gs[1:] {
		if me == "" || !strings.Contains(strings.SplitN(g, "\n", 2)[0], me) {
			continue
		}
		var frames []string
		for _, ln := range strings.Split(g, "\n")[1:] {
			if strings.HasPrefix(ln, "\t") || strings.HasPrefix(ln, "created by") {
				continue
			}
			if i := strings.LastIndex(ln, "("); i > 0 {
				ln = ln[:i]
			}
			if strings.HasPrefix(ln, "perun.network/") {
				frames = append(frames, strings.TrimPrefix(ln, "perun.network/go-perun/"))
			}
			if len(frames) == 8 {
				break
			}
		}
		out = append(out, strings.Join(frames, " < "))
	}
	return fmt.Sprintf("%d blocked: %s", len(out), strings.Join(out, " ; "))
}

func errorsAs(err error, target any) bool { return errors.As(err, target) }
func containsStr(s, sub string) bool      { return strings.Contains(s, sub) }
