package cdrv

import (
	"bytes"
	"context"
	"encoding/json"
	"fmt"
	"math/big"
	"os"
	"testing"
	"testing/synctest"
	"time"

	"perun.network/go-perun/channel"
	"perun.network/go-perun/client"
	"perun.network/go-perun/wallet"
	"perun.network/go-perun/wire"
	"verif/harness/drv"
)

type vfMsg struct {
	Sit     string `json:"sit"`
	Arrive  string `json:"arrive"`
	Side    string `json:"side"`
	PSig    string `json:"psig"`
	Ver     int    `json:"ver"`
	Amount  string `json:"amount"`
	IMap    string `json:"imap"`
	VSigs   string `json:"vsigs"`
	VState  string `json:"vstate"`
	VFlag   bool   `json:"vflag"`
	VParts  string `json:"vparts"`
	VLocked bool   `json:"vlocked"`
	VFinal  bool   `json:"vfinal"`
	Move    string `json:"move"`
	Keep    bool   `json:"keep"`
	VBal    string `json:"vbal"`
	Order   string `json:"order"`
}

type vfCase struct {
	Msg    vfMsg  `json:"msg"`
	Mutant string `json:"mutant"`
	Expect string `json:"expect"`
	line   string
}

// vWorld is the hub H with its two ledger channels; A and B (and the stranger X) are the adversary's puppets.
type vWorld struct {
	w          *World
	h, a, b, x *Party
	pid        map[string]channel.ID // ledger channel of side "A" / "B" with H
}

func (v *vWorld) cur(side string) *channel.State {
	v.w.PMu.Lock()
	defer v.w.PMu.Unlock()
	var st *channel.State
	for _, e := range v.w.PLog {
		if e.Who == "H" && e.Ch == v.pid[side] && e.Kind == "enabled" && e.Cur.State != nil {
			st = e.Cur.State.Clone()
		}
	}
	return st
}

func (v *vWorld) peer(side string) *Party {
	if side == "A" {
		return v.a
	}
	return v.b
}

// vState builds a state of V (balances of A and B) and its signatures.
func (v *vWorld) vState(m vfMsg, params *channel.Params, balA, balB int64, ver uint64, final bool, side string) channel.SignedState {
	st := &channel.State{ID: params.ID(), Version: ver, App: channel.NoApp(), Data: channel.NoData(), Allocation: *v.w.Alloc(balA, balB), IsFinal: final}
	if m.VLocked {
		st.Balances[0][1] = new(big.Int).Sub(st.Balances[0][1], big.NewInt(1))
		st.Locked = []channel.SubAlloc{*channel.NewSubAlloc(channel.ID{0x77, 1}, []channel.Bal{big.NewInt(1)}, nil)}
	}
	second := v.b
	if m.VParts == "other" {
		second = v.x
	}
	sigs := []wallet.Sig{sign(v.a.Acc, st), sign(second.Acc, st)}
	if side == m.Side || m.Arrive == "one" {
		other := 1 // the signature of the end point that is not the sender of this proposal
		if side == "B" {
			other = 0
		}
		switch m.VSigs {
		case "senderonly":
			sigs[other] = nil
		case "bad":
			sigs[other] = bytes.Repeat([]byte{0x3c}, 64)
		}
	}
	return channel.SignedState{Params: params, State: st, Sigs: sigs}
}

// proposal crafts the proposal of one side. fund: funding (else settlement). vA, vB: balances of V it is based on.
func (v *vWorld) proposal(m vfMsg, side string, fund bool, params *channel.Params, ss channel.SignedState) wire.Msg {
	mut := side == m.Side // single-feature mutants concern one ledger channel
	cur := v.cur(side)
	st := cur.Clone()
	dv := uint64(1)
	if mut {
		dv = uint64(m.Ver)
	}
	st.Version += dv
	// balances of V per end point, seen from this ledger channel: the peer is participant 0, the hub (1) stands in for the other end
	own, other := ss.State.Balances[0][0].Int64(), ss.State.Balances[0][1].Int64()
	imap := []channel.Index{0, 1}
	if side == "B" {
		own, other = other, own
		imap = []channel.Index{1, 0}
	}
	total := ss.State.Allocation.Sum()[0].Int64()
	dPeer, dHub := own, other
	if mut {
		switch m.Move {
		case "hubpaysall":
			dPeer, dHub = 0, total
		case "hubpaysmore":
			dPeer, dHub = own-1, other+1
		case "peerpaysall":
			dPeer, dHub = total, 0
		case "hubless":
			dPeer, dHub = own+1, other-1
		case "swapped":
			dPeer, dHub = other, own
		}
		switch m.IMap {
		case "swapped":
			imap = []channel.Index{imap[1], imap[0]}
		case "none":
			imap = nil
		case "short":
			imap = imap[:1]
		case "duphub":
			imap = []channel.Index{1, 1}
		case "duppeer":
			imap = []channel.Index{0, 0}
		}
	}
	add := func(i int, d int64) { st.Balances[0][i] = new(big.Int).Add(st.Balances[0][i], big.NewInt(d)) }
	if fund {
		amt := total
		if mut && m.Amount == "plus1" {
			amt, dHub = total+1, dHub+1
		}
		add(0, -dPeer)
		add(1, -dHub)
		st.Locked = append(st.Locked, *channel.NewSubAlloc(params.ID(), []channel.Bal{big.NewInt(amt)}, imap))
	} else {
		add(0, dPeer)
		add(1, dHub)
		if !(mut && m.Keep) {
			var l []channel.SubAlloc
			for _, sa := range st.Locked {
				if sa.ID != params.ID() {
					l = append(l, sa)
				}
			}
			st.Locked = l
		}
	}
	signer := v.peer(side).Acc
	if mut && m.PSig == "otherkey" {
		signer = v.x.Acc
	}
	upd := client.ChannelUpdateMsg{ChannelUpdate: client.ChannelUpdate{State: st, ActorIdx: 0}, Sig: sign(signer, st)}
	if fund {
		return &client.VirtualChannelFundingProposalMsg{ChannelUpdateMsg: upd, Initial: ss, IndexMap: imap}
	}
	return &client.VirtualChannelSettlementProposalMsg{ChannelUpdateMsg: upd, Final: ss}
}

// signedBy reports whether H published its signature for the ledger channel update of msg.
func (v *vWorld) signedByHub(msg wire.Msg) bool {
	var st *channel.State
	switch m := msg.(type) {
	case *client.VirtualChannelFundingProposalMsg:
		st = m.State
	case *client.VirtualChannelSettlementProposalMsg:
		st = m.State
	}
	v.w.Bus.mu.Lock()
	defer v.w.Bus.mu.Unlock()
	for _, e := range v.w.Bus.Pending {
		if acc, ok := e.Msg.(*client.ChannelUpdateAccMsg); ok && acc.ChannelID == st.ID && acc.Version == st.Version && v.w.Bus.Names[wire.Keys(e.Sender)] == "H" {
			if ok, _ := channel.Verify(v.h.Acc.Address(), st, acc.Sig); ok {
				return true
			}
		}
	}
	return false
}

// runVirtualCase sets the hub up with real clients, injects the crafted pair and reports which ledger channel updates H countersigned.
func runVirtualCase(t *testing.T, c *vfCase, proto bool, idx int) (signedA, signedB bool, note string) {
	var leftover string
	defer func() {
		if p := recover(); p != nil && note == "" {
			note = fmt.Sprintf("leftover: %v; %s", p, leftover)
		}
	}()
	synctest.Test(t, func(t *testing.T) {
		NoWatcher = map[string]bool{}
		w := NewWorld(t, int64(idx)+1, "H", "A", "B", "X")
		defer func() { leftover = blockedGoroutines() }()
		defer w.Close()
		ctx, cancel := context.WithCancel(context.Background())
		defer func() { cancel(); w.Quiesce() }()
		v := &vWorld{w: w, h: w.P[0], a: w.P[1], b: w.P[2], x: w.P[3], pid: map[string]channel.ID{}}
		for _, side := range []string{"A", "B"} {
			_, chH, err := w.OpenLedgerChannel(v.peer(side), v.h, 60, 10, 10)
			if err != nil {
				note = "setup: " + err.Error()
				return
			}
			v.pid[side] = chH.ID()
		}
		m := c.Msg
		second := v.b
		if m.VParts == "other" {
			second = v.x
		}
		params := channel.NewParamsUnsafe(60, []map[wallet.BackendID]wallet.Address{v.a.WalletAddr(), second.WalletAddr()},
			channel.NoApp(), big.NewInt(int64(4711+idx)), false, m.VFlag || m.Sit == "vsettle", channel.ZeroAux)
		inject := func(side string, msg wire.Msg) bool {
			w.Bus.Proto = proto
			err := w.Bus.Inject(&wire.Envelope{Sender: v.peer(side).WireAddr(), Recipient: v.h.WireAddr(), Msg: msg})
			w.Bus.Proto = false
			w.Quiesce()
			for u := v.h.TakeUpdate(); u != nil; u = v.h.TakeUpdate() { // whatever reaches the user's handler is accepted
				r := u.Resp
				go func() { _ = r.Accept(ctx) }()
				w.Quiesce()
			}
			return err == nil
		}
		honest := vfMsg{Sit: m.Sit, Arrive: "both", Side: "-", PSig: "valid", Ver: 1, Amount: "exact", IMap: "ok", VSigs: "both", VState: "same", VFlag: true, VParts: m.VParts, Move: "exact"}
		if m.Sit == "vsettle" {
			// V is funded honestly first: 2 / 2
			ss := v.vState(honest, params, 2, 2, 0, false, "-")
			pa, pb := v.proposal(honest, "A", true, params, ss), v.proposal(honest, "B", true, params, ss)
			if !inject("A", pa) || !inject("B", pb) {
				note = "setup: honest funding proposals not decodable"
				return
			}
			w.Sleep(time.Second)
			if !v.signedByHub(pa) || !v.signedByHub(pb) {
				note = "setup: the hub did not accept the honest funding of the virtual channel"
				return
			}
			w.Bus.mu.Lock()
			w.Bus.Pending = nil
			w.Bus.mu.Unlock()
		}
		// the crafted pair
		var pa, pb wire.Msg
		fund := m.Sit == "vfund"
		balsFor := func(side string) (int64, int64, uint64) {
			if fund {
				if m.VState == "differs" && side == "B" {
					return 3, 1, 0
				}
				switch m.VBal {
				case "azero":
					return 0, 4, 0
				case "bzero":
					return 4, 0, 0
				}
				return 2, 2, 0
			}
			if m.VState == "differs" {
				if side == "A" {
					return 4, 0, 1
				}
				return 0, 4, 1
			}
			return 3, 1, 1
		}
		mk := func(side string) wire.Msg {
			ba, bb, ver := balsFor(side)
			ss := v.vState(m, params, ba, bb, ver, m.VFinal, side)
			return v.proposal(m, side, fund, params, ss)
		}
		pa, pb = mk("A"), mk("B")
		okA, okB := true, true
		if m.Order == "ba" && (m.Arrive == "both" || m.Side == "B") {
			okB = inject("B", pb)
		}
		if m.Arrive == "both" || m.Side == "A" {
			okA = inject("A", pa)
		}
		if m.Order != "ba" && (m.Arrive == "both" || m.Side == "B") {
			okB = inject("B", pb)
		}
		if !okA || !okB {
			note = "undecodable"
		}
		w.Sleep(25 * time.Second) // every time-out of the hub's matching has fired
		signedA, signedB = v.signedByHub(pa), v.signedByHub(pb)
	})
	return
}

// TestVirtualFund executes the cases exported by VirtualFund.tla (VERIF_CASES), both serializers.
func TestVirtualFund(t *testing.T) {
	path := os.Getenv("VERIF_CASES")
	if path == "" {
		t.Skip()
	}
	res := drv.NewResult("virtualfund")
	defer func() {
		if err := res.Write(); err != nil {
			t.Fatal(err)
		}
	}()
	cases, err := loadJSONLines(path, func(c *vfCase, s string) { c.line = s })
	if err != nil {
		t.Fatal(err)
	}
	sup := newSupervised()
	start := drv.EnvInt("VERIF_START", 0)
	res.Add("cases", len(cases))
	for n := start; n < 2*len(cases); n++ {
		c, proto := cases[n/2], n%2 == 1
		ser := "native"
		if proto {
			ser = "protobuf"
		}
		desc := fmt.Sprintf("%s|%s|%s|%s|%s|%s", c.Msg.Sit, c.Mutant, c.Msg.Side, c.Msg.VBal, c.Msg.Order, ser)
		sup.Begin(n, desc)
		sa, sb, note := runVirtualCase(t, c, proto, n)
		res.Add("evaluations", 1)
		res.Seen("case", fmt.Sprintf("%s|%v|%v", desc, sa, sb))
		rp := map[string]any{"driver": "virtualfund", "serializer": ser, "case": json.RawMessage(c.line)}
		if len(note) > 6 && note[:6] == "setup:" {
			res.Violate("C07", "conformance", "vsetup|"+c.Msg.Sit, note, rp)
			continue
		}
		if note != "" {
			res.Add("notes", 1)
			res.Seen("note", note)
			if os.Getenv("VERIF_DEBUG") != "" {
				fmt.Fprintln(os.Stderr, "NOTE", desc, note)
			}
		}
		if (sa || sb) && c.Expect == "must-not-sign" {
			sig := fmt.Sprintf("countersigned|%s|%s|%s", c.Msg.Sit, c.Mutant, feature(c))
			if c.Msg.VBal != "even" && c.Msg.VBal != "" {
				sig += "|" + c.Msg.Side + "|" + c.Msg.VBal
			}
			what := fmt.Sprintf("hub of a virtual channel, situation %q, crafted pair with defect %q = %s (on the ledger channel with %s; balances of the virtual channel: %s; order of arrival: %s; %s serializer): the hub countersigned the ledger channel update with A: %v, with B: %v", c.Msg.Sit, c.Mutant, feature(c), c.Msg.Side, c.Msg.VBal, c.Msg.Order, ser, sa, sb)
			sup.Violate("C07", "monitor", sig, what, rp)
			res.Violate("C07", "monitor", sig, what, rp)
		}
		if c.Expect == "honest" && !(sa && sb) {
			res.Violate("C07", "conformance", "honest-pair-not-signed|"+c.Msg.Sit+"|"+c.Mutant, fmt.Sprintf("the acceptable pair (%s, %s) was not countersigned on both ledger channels (A: %v, B: %v; %s)", c.Msg.Sit, c.Mutant, sa, sb, note), rp)
		}
		if n < 2 {
			var x any
			_ = json.Unmarshal([]byte(c.line), &x)
			res.Sample(x)
		}
	}
}

func feature(c *vfCase) string {
	m := c.Msg
	switch c.Mutant {
	case "arrive":
		return "only-" + m.Side
	case "psig":
		return m.PSig
	case "ver":
		return fmt.Sprint(m.Ver)
	case "vsigs":
		return m.VSigs
	case "vstate":
		return m.VState
	case "vparts":
		return m.VParts
	case "move":
		return m.Move
	case "amount":
		return m.Amount
	case "imap":
		return m.IMap
	case "imapmove":
		return m.IMap + "+" + m.Move
	case "vflag":
		return fmt.Sprint(m.VFlag)
	case "vlocked":
		return fmt.Sprint(m.VLocked)
	case "vfinal":
		return fmt.Sprint(m.VFinal)
	case "keep":
		return fmt.Sprint(m.Keep)
	}
	return "-"
}
