package cdrv

import (
	"bytes"
	"context"
	"errors"
	"fmt"
	"os"
	"runtime"
	"testing"
	"testing/synctest"

	"perun.network/go-perun/channel"
	"perun.network/go-perun/client"
	"perun.network/go-perun/wallet"
	"perun.network/go-perun/wire"
	"verif/harness/drv"
	"verif/harness/tla"
)

type openResult struct {
	ch   *client.Channel
	err  error
	done bool
}

type openVariant struct {
	balA, balB int64
	fshift     int64
	shareA     byte
	shareB     byte
	sub        bool // a sub-channel of an open ledger channel (10/10) instead of a ledger channel
	virtual    bool // a virtual channel over the ledger channels (10/10) of proposer and responder with a hub H
}

func nonceOpt(b byte) client.ProposalOpts {
	var s client.NonceShare
	s[0], s[31] = b, 0x42
	return client.WithNonce(s)
}

// runOpenPath replays one path of Open.tla; it returns the channel ids obtained (zero if none).
func runOpenPath(t *testing.T, res *drv.Result, path []*tla.Edge, v openVariant, idx int) (id channel.ID) {
	var labels []string
	for _, e := range path {
		labels = append(labels, e.Act.Label)
	}
	viol := func(kind, sig, what string, upto int) {
		res.Violate("C08", kind, sig, what, map[string]any{"driver": "open", "variant": fmt.Sprintf("%+v", v), "steps": labels[:upto]})
	}
	defer func() {
		if p := recover(); p != nil {
			if f := os.Getenv("VERIF_DEBUG_STACKS"); f != "" {
				buf := make([]byte, 1<<20)
				buf = buf[:runtime.Stack(buf, true)]
				_ = os.WriteFile(f, buf, 0o644)
			}
			viol("conformance", "leftover-goroutines", fmt.Sprintf("opening schedule ended with: %v (a leak is not what C08 states)", p), len(labels))
		}
	}()
	synctest.Test(t, func(t *testing.T) {
		NoWatcher = map[string]bool{}
		w := NewWorld(t, int64(idx)+1, "A", "B", "H")
		defer w.Close()
		ctx, cancel := context.WithCancel(context.Background())
		defer func() { cancel(); w.Bus.Release(); w.Quiesce() }()
		a, b := w.P[0], w.P[1]
		parents := map[channel.ID]bool{}
		opts := []client.ProposalOpts{nonceOpt(v.shareA)}
		if v.fshift != 0 {
			opts = append(opts, client.WithFundingAgreement(w.Alloc(v.balA+v.fshift, v.balB-v.fshift).Balances))
		}
		var prop client.ChannelProposal
		var parentID channel.ID
		var err error
		if v.sub {
			pa, _, perr := w.OpenLedgerChannel(a, b, 60, 10, 10)
			if perr != nil {
				viol("conformance", "parent", "opening the parent channel failed: "+perr.Error(), 0)
				return
			}
			parentID = pa.ID()
			_ = parentID
			parents[parentID] = true
			prop, err = client.NewSubChannelProposal(parentID, 60, w.Alloc(v.balA, v.balB), opts...)
		} else if v.virtual {
			ah, _, e1 := w.OpenLedgerChannel(a, w.P[2], 60, 10, 10)
			bh, _, e2 := w.OpenLedgerChannel(b, w.P[2], 60, 10, 10)
			if e1 != nil || e2 != nil {
				viol("conformance", "parent", fmt.Sprintf("opening the ledger channels with the hub failed: %v %v", e1, e2), 0)
				return
			}
			parents[ah.ID()], parents[bh.ID()] = true, true
			prop, err = client.NewVirtualChannelProposal(60, a.WalletAddr(), w.Alloc(v.balA, v.balB),
				[]map[wallet.BackendID]wire.Address{a.WireAddr(), b.WireAddr()}, []channel.ID{ah.ID(), bh.ID()},
				[][]channel.Index{{0, 1}, {1, 0}}, opts...)
		} else {
			prop, err = client.NewLedgerChannelProposal(60, a.WalletAddr(), w.Alloc(v.balA, v.balB),
				[]map[wallet.BackendID]wire.Address{a.WireAddr(), b.WireAddr()}, opts...)
		}
		if err != nil {
			t.Fatal(err)
		}
		// the funding of a sub-channel is an update of the parent, which the proposee accepts automatically: its two
		// envelopes play the role of the ledger and are delivered at once
		fundSub := func() {
			for v.sub || v.virtual {
				i := w.Bus.Find(func(e *wire.Envelope) bool { return parents[w.Bus.Info(e).Ch] })
				if i < 0 {
					return
				}
				w.Bus.Deliver(i)
				w.Quiesce()
			}
		}
		var ra, rb openResult
		deliver := func(pred func(*wire.Envelope) bool) bool {
			i := w.Bus.Find(pred)
			if i < 0 {
				return false
			}
			w.Bus.Deliver(i)
			w.Quiesce()
			return true
		}
		isT := func(tt string) func(*wire.Envelope) bool {
			return func(e *wire.Envelope) bool { return w.Bus.Info(e).T == tt }
		}
		sigFrom := func(who string) func(*wire.Envelope) bool {
			return func(e *wire.Envelope) bool {
				inf := w.Bus.Info(e)
				return inf.T == "acc" && inf.Ver == 0 && inf.From == who
			}
		}
		for k, e := range path {
			res.Add("env_steps", 1)
			ok := true
			switch e.Act.Name {
			case "Propose":
				go func() {
					ch, err := a.C.ProposeChannel(ctx, prop)
					ra = openResult{ch, err, true}
				}()
				w.Quiesce()
			case "DeliverProp":
				ok = deliver(isT("prop"))
			case "Answer":
				acc, hold := e.Act.Args[0].(bool), e.Act.Args[1].(bool)
				pp := b.TakeProposal()
				if pp == nil {
					viol("conformance", "no-handler", "the proposal handler of B was not invoked", k+1)
					return
				}
				if hold {
					w.Bus.Hold = func(e *wire.Envelope) bool { return w.Bus.Info(e).T == "propacc" }
				}
				go func() {
					if !acc {
						_ = pp.Resp.Reject(ctx, "no")
						return
					}
					var ch *client.Channel
					var err error
					switch lp := pp.Prop.(type) {
					case *client.LedgerChannelProposalMsg:
						ch, err = pp.Resp.Accept(ctx, lp.Accept(b.WalletAddr(), nonceOpt(v.shareB)))
					case *client.SubChannelProposalMsg:
						ch, err = pp.Resp.Accept(ctx, lp.Accept(nonceOpt(v.shareB)))
					case *client.VirtualChannelProposalMsg:
						ch, err = pp.Resp.Accept(ctx, lp.Accept(b.WalletAddr(), nonceOpt(v.shareB)))
					}
					rb = openResult{ch, err, true}
				}()
				w.Quiesce()
				w.Bus.Hold = nil
			case "ReleaseB":
				w.Bus.Release()
				w.Quiesce()
			case "DeliverPropAcc":
				ok = deliver(isT("propacc"))
			case "DeliverPropRej":
				ok = deliver(isT("proprej"))
			case "DeliverSigA":
				ok = deliver(sigFrom("A"))
			case "DeliverSigB":
				ok = deliver(sigFrom("B"))
			}
			fundSub()
			if !ok {
				viol("conformance", "no-such-envelope|"+e.Act.Name, fmt.Sprintf("%s: no such envelope in flight: %v", e.Act.Label, w.Bus.PendingInfo()), k+1)
				return
			}
			// conformance: who has obtained its channel
			ms := e.Dst.State
			wantA, wantB := ms["pcA"].(string) == "open", ms["pcB"].(string) == "open"
			gotA, gotB := ra.done && ra.err == nil, rb.done && rb.err == nil
			if wantA != gotA || wantB != gotB {
				// the model is the property here: an accepted proposal must produce the channel on both sides
				viol("monitor", "channel-not-obtained|"+e.Act.Name, fmt.Sprintf("after %s: proposer has channel: %v (err %v), responder has channel: %v (err %v); the specification requires %v / %v",
					e.Act.Label, gotA, ra.err, gotB, rb.err, wantA, wantB), k+1)
				return
			}
			if ms["pcA"].(string) == "rejected" {
				var rej client.PeerRejectedError
				if !ra.done || !errors.As(ra.err, &rej) {
					viol("conformance", "rejection-not-reported", fmt.Sprintf("after %s: ProposeChannel returned %v", e.Act.Label, ra.err), k+1)
					return
				}
			}
		}
		if ra.done && ra.err == nil && rb.done && rb.err == nil {
			res.Add("opened", 1)
			ca, cb := ra.ch, rb.ch
			var pa, pb bytes.Buffer
			_ = ca.Params().Encode(&pa)
			_ = cb.Params().Encode(&pb)
			sa, sb := ca.State(), cb.State()
			what := ""
			switch {
			case ca.ID() != cb.ID() || ca.Params().ID() != cb.Params().ID():
				what = "the two sides derived different channel ids"
			case !bytes.Equal(pa.Bytes(), pb.Bytes()):
				what = "the two sides derived different channel parameters"
			case !ca.Params().Parts[0][channel.TestBackendID].Equal(a.Acc.Address()) || !ca.Params().Parts[1][channel.TestBackendID].Equal(b.Acc.Address()):
				what = "participant order is not (proposer, responder)"
			case ca.Idx() != 0 || cb.Idx() != 1:
				what = "own participant indices are wrong"
			case sa.Equal(sb) != nil || !bytes.Equal(stEnc(sa), stEnc(sb)):
				what = "the two sides hold different version-0 states"
			case sa.Version != 0 || sa.Balances[0][0].Int64() != v.balA || sa.Balances[0][1].Int64() != v.balB || sa.ID != ca.ID() || !channel.IsNoData(sa.Data):
				what = fmt.Sprintf("the version-0 state is not the proposed one: %v", sa.Balances)
			}
			if what == "" {
				w.PMu.Lock()
				n := 0
				for _, pe := range w.PLog {
					if pe.Kind == "enabled" && pe.Ch == ca.ID() && pe.Who != "H" { // the hub of a virtual channel keeps a copy, too
						n++
						if !pe.CurSigned {
							what = pe.Who + " enabled the version-0 state without every participant's valid signature"
						}
					}
				}
				w.PMu.Unlock()
				if n != 2 && what == "" {
					what = fmt.Sprintf("%d sides enabled the version-0 state", n)
				}
			}
			if what != "" {
				viol("monitor", "different-channels", what, len(labels))
				return
			}
			id = ca.ID()
		}
	})
	return
}

// TestOpen replays every maximal path of the Open.tla graph for several proposals, and checks that
// the channel id depends on each party's nonce share.
func TestOpen(t *testing.T) {
	dot := os.Getenv("VERIF_DOT")
	if dot == "" {
		t.Skip()
	}
	res := drv.NewResult("open")
	defer func() {
		if err := res.Write(); err != nil {
			t.Fatal(err)
		}
	}()
	g, err := tla.LoadDot(dot)
	if err != nil {
		t.Fatal(err)
	}
	res.Add("graph_states", len(g.Nodes))
	res.Add("graph_edges", g.NEdges)
	var paths [][]*tla.Edge
	var rec func(n *tla.Node, p []*tla.Edge)
	rec = func(n *tla.Node, p []*tla.Edge) {
		if len(n.Out) == 0 {
			paths = append(paths, append([]*tla.Edge{}, p...))
			return
		}
		for _, e := range n.Out {
			rec(e.Dst, append(p, e))
		}
	}
	rec(g.Inits[0], nil)
	variants := []openVariant{{3, 2, 0, 1, 1, false, false}, {0, 5, 0, 1, 1, false, false}, {2, 2, 1, 1, 1, false, false}, {3, 2, 0, 2, 1, false, false}, {3, 2, 0, 1, 2, false, false},
		{3, 2, 0, 1, 1, true, false}, {0, 5, 0, 1, 1, true, false}, {3, 2, 0, 2, 1, true, false}, {3, 2, 0, 1, 2, true, false},
		{3, 2, 0, 1, 1, false, true}, {0, 5, 0, 1, 1, false, true}, {3, 2, 0, 2, 1, false, true}, {3, 2, 0, 1, 2, false, true}}
	n := 0
	for pi, p := range paths {
		for _, e := range p {
			e.MarkHit()
		}
		ids := map[int]channel.ID{}
		for vi, v := range variants {
			n++
			res.Add("behaviours", 1)
			ids[vi] = runOpenPath(t, res, p, v, n)
		}
		// the id depends on a nonce contribution from each side
		var zero channel.ID
		if ids[0] != zero {
			res.Add("nonce_pairs", 2)
			if ids[0] == ids[3] {
				res.Violate("C08", "monitor", "nonce|proposer", "changing only the proposer's nonce share did not change the channel id", map[string]any{"driver": "open", "path": pi})
			}
			if ids[0] == ids[4] {
				res.Violate("C08", "monitor", "nonce|responder", "changing only the responder's nonce share did not change the channel id", map[string]any{"driver": "open", "path": pi})
			}
		}
		for _, kb := range []struct {
			base int
			name string
		}{{5, "sub-channel"}, {9, "virtual channel"}} {
			if ids[kb.base] != zero {
				res.Add("nonce_pairs", 2)
				if ids[kb.base] == ids[kb.base+2] {
					res.Violate("C08", "monitor", "nonce|proposer|"+kb.name, kb.name+": changing only the proposer's nonce share did not change the channel id", map[string]any{"driver": "open", "path": pi})
				}
				if ids[kb.base] == ids[kb.base+3] {
					res.Violate("C08", "monitor", "nonce|responder|"+kb.name, kb.name+": changing only the responder's nonce share did not change the channel id", map[string]any{"driver": "open", "path": pi})
				}
			}
		}
		if pi < 2 {
			res.Sample(map[string]any{"kind": "opening schedule", "steps": tla.Steps(p)})
		}
	}
	res.Add("paths", len(paths))
	hit, _ := g.HitCount()
	res.Add("edges_executed", hit)
}
