module verif/harness

go 1.26

require (
	github.com/pkg/errors v0.9.1
	github.com/sirupsen/logrus v1.9.3
	google.golang.org/protobuf v1.36.6
	perun.network/go-perun v0.0.0
	polycry.pt/poly-go v0.0.0-20220301085937-fb9d71b45a37
)

require (
	github.com/davecgh/go-spew v1.1.1 // indirect
	github.com/golang/snappy v0.0.4 // indirect
	github.com/google/uuid v1.6.0 // indirect
	github.com/pmezard/go-difflib v1.0.0 // indirect
	github.com/stretchr/testify v1.10.0 // indirect
	github.com/syndtr/goleveldb v1.0.1-0.20210819022825-2ae1ddf74ef7 // indirect
	golang.org/x/crypto v0.37.0 // indirect
	golang.org/x/sync v0.13.0 // indirect
	golang.org/x/sys v0.32.0 // indirect
	gopkg.in/yaml.v3 v3.0.1 // indirect
)

replace perun.network/go-perun => /repo
