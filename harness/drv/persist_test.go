package drv

import (
	"fmt"
	"math/rand"
	"os"
	"strings"
	"testing"

	simwire "perun.network/go-perun/backend/sim/wire"
	"perun.network/go-perun/channel"
	"perun.network/go-perun/channel/persistence"
	"perun.network/go-perun/channel/persistence/keyvalue"
	"perun.network/go-perun/wallet"
	"perun.network/go-perun/wire"
	"verif/harness/tla"
)

func newPersistRun(env *MachineEnv, cands []tla.Val, kind, scratch string, withParent bool) *persistRun {
	p := &persistRun{env: env, kind: kind, scratch: scratch}
	inner, cleanup := newStore(kind, scratch, &p.nstores)
	p.db, p.cleanup = newRecDB(inner), cleanup
	p.pr = keyvalue.NewPersistRestorer(p.db)
	rng := rand.New(rand.NewSource(int64(env.N*10 + env.Me)))
	for i := 0; i < env.N; i++ {
		p.peers = append(p.peers, map[wallet.BackendID]wire.Address{channel.TestBackendID: simwire.NewRandomAddress(rng)})
	}
	if withParent {
		id := channel.ID{0xaa, 0xbb, 1}
		p.parent = &id
	}
	p.run = env.NewRun(cands)
	if err := p.pr.ChannelCreated(bg, p.run.M, p.peers, p.parent); err != nil {
		panic(err)
	}
	pm := persistence.FromStateMachine(p.run.M, p.pr)
	p.pm = pm
	p.run.P = &pm
	p.db.Reset()
	return p
}

// restoreFrom restores the channel from a frozen store content.
func (p *persistRun) restoreFrom(content map[string]string) (*persistence.Channel, error, func()) {
	db, cleanup := storeFrom(p.kind, p.scratch, content)
	pr := keyvalue.NewPersistRestorer(db)
	ch, err := pr.RestoreChannel(bg, p.env.Params.ID())
	return ch, err, cleanup
}

// stepCrash executes edge e through the persisting wrapper and checks, for
// the store frozen at every write boundary of the call, that restoring yields
// the machine's state before or after the call (exactly the latter at the
// end). It returns false if the run cannot be continued.
func (p *persistRun) stepCrash(res *Result, e *tla.Edge, replay func() any) bool {
	m := p.run.M
	before := persistence.CloneSource(m)
	content0 := p.db.Content()
	p.db.Reset()
	got := p.run.Exec(e.Act, e.Src.State)
	res.Add("steps", 1)
	op := baseName(e.Act.Name)
	if got != expectClass(e.Act.Name) {
		// not C10's business (C09 reports it); the history cannot be continued
		res.Add("conformance_drift_steps", 1)
		return false
	}
	units := p.db.Units
	after := persistence.CloneSource(m)
	removed := op == "SetWithdrawn" && got == "Ok"
	if got == "Err" {
		if len(units) != 0 {
			res.Violate("C10", "monitor", "refused-writes|"+op, fmt.Sprintf("%s was refused but wrote %d unit(s) to the store", e.Act.Label, len(units)), replay())
			return false
		}
	}
	res.Add("write_units", len(units))
	snaps := append([]map[string]string{content0}, units...)
	for k, content := range snaps {
		res.Add("crash_points", 1)
		ch, err, cleanup := p.restoreFrom(content)
		last := k == len(snaps)-1
		where := fmt.Sprintf("%s, process stopped after write unit %d of %d", e.Act.Label, k, len(units))
		if err != nil || ch == nil {
			cleanup()
			if removed && k > 0 {
				continue // the channel is being / has been removed
			}
			res.Violate("C10", "monitor", "unrestorable|"+op, fmt.Sprintf("%s: RestoreChannel fails: %v", where, err), replay())
			return false
		}
		if removed && last {
			cleanup()
			res.Violate("C10", "monitor", "restorable-after-removal", where+": the withdrawn channel can still be restored", replay())
			return false
		}
		dB := cmpRestored(ch, before, p.peers, p.parent)
		dA := cmpRestored(ch, after, p.peers, p.parent)
		stale := staleSig(ch)
		cleanup()
		switch {
		case stale != "":
			res.Violate("C10", "monitor", "stale-sig|"+op, where+": "+stale, replay())
			return false
		case k == 0 && dB != "":
			res.Violate("C10", "monitor", "before|"+op, where+": restored channel differs from the machine before the call: "+dB, replay())
			return false
		case last && !removed && dA != "":
			res.Violate("C10", "monitor", "after|"+op, where+": the call completed but the restored channel differs from the machine: "+dA, replay())
			return false
		case dB != "" && dA != "" && !removed:
			res.Violate("C10", "monitor", "torn|"+op, fmt.Sprintf("%s: restored channel is neither the machine before the call (%s) nor after it (%s)", where, dB, dA), replay())
			return false
		}
	}
	return true
}

type persistReplay struct {
	Driver string     `json:"driver"`
	N      int        `json:"N"`
	Me     int        `json:"Me"`
	Store  string     `json:"store"`
	Steps  []tla.Step `json:"steps"`
}

// TestPersist drives real persisting state machines over a fault-injecting
// store through the histories of the Machine.tla graph.
func TestPersist(t *testing.T) {
	dot := os.Getenv("VERIF_DOT")
	if dot == "" {
		t.Skip("VERIF_DOT not set")
	}
	n, me := EnvInt("VERIF_N", 2), EnvInt("VERIF_ME", 0)
	kind := EnvStr("VERIF_STORE", "mem")
	scratch := EnvStr("VERIF_SCRATCH", os.TempDir())
	res := NewResult(fmt.Sprintf("persist-%s-N%d-Me%d", kind, n, me))
	defer func() {
		if err := res.Write(); err != nil {
			t.Fatal(err)
		}
	}()
	g, err := tla.LoadDot(dot)
	if err != nil {
		t.Fatal(err)
	}
	env := NewMachineEnv(n, me, Seed())
	cands := candsOf(g)
	for _, c := range cands {
		env.State(c)
	}
	res.Add("graph_states", len(g.Nodes))
	res.Add("graph_edges", g.NEdges)
	workers := EnvInt("VERIF_WORKERS", 16)
	rp := func(path []*tla.Edge) func() any {
		return func() any {
			return persistReplay{Driver: "persist", N: n, Me: me, Store: kind, Steps: tla.Steps(path)}
		}
	}
	isCheck := func(e *tla.Edge) bool { return strings.HasPrefix(e.Act.Name, "CheckUpdate") }
	build := func(path []*tla.Edge, i int) *persistRun {
		p := newPersistRun(env, cands, kind, scratch, i%2 == 1)
		for k, e := range path {
			if !p.stepCrash(res, e, rp(path[:k+1])) {
				p.Close()
				return nil
			}
		}
		return p
	}
	if EnvInt("VERIF_GEDGE", 1) == 1 {
		stride := EnvInt("VERIF_NODE_STRIDE", 1)
		Parallel(len(g.Nodes), workers, func(i int) {
			if i%stride != 0 {
				return
			}
			nd := g.Nodes[i]
			path := g.PathTo(nd)
			for _, e := range path {
				if e.Act.Name == "SetWithdrawnOk" {
					return // the channel was removed from the store; the persisted machine's life ends there
				}
			}
			// refused operations: back to back on one object
			p := build(path, i)
			if p == nil {
				return
			}
			for _, e := range nd.Out {
				if e.Dst != nd || isCheck(e) || expectClass(e.Act.Name) != "Err" {
					continue
				}
				e.MarkHit()
				if !p.stepCrash(res, e, rp(append(append([]*tla.Edge{}, path...), e))) {
					p.Close()
					if p = build(path, i); p == nil {
						return
					}
				}
			}
			p.Close()
			for _, e := range nd.Out {
				if isCheck(e) || expectClass(e.Act.Name) != "Ok" {
					continue
				}
				e.MarkHit()
				p := build(path, i)
				if p == nil {
					return
				}
				p.stepCrash(res, e, rp(append(append([]*tla.Edge{}, path...), e)))
				p.Close()
			}
		})
	}
	// walks with crash / restore / continue
	walks, depth := EnvInt("VERIF_WALKS", 1000), EnvInt("VERIF_WALKDEPTH", 30)
	Parallel(walks, workers, func(i int) {
		rng := rand.New(rand.NewSource(Seed()*7919 + int64(i)))
		p := newPersistRun(env, cands, kind, scratch, i%2 == 1)
		defer func() { p.Close() }()
		nd := g.Inits[0]
		var path []*tla.Edge
		for k := 0; k < depth; k++ {
			var choices []*tla.Edge
			for _, e := range nd.Out {
				if !isCheck(e) && (e.Dst != nd || rng.Intn(8) == 0) {
					choices = append(choices, e)
				}
			}
			if len(choices) == 0 {
				break
			}
			e := choices[rng.Intn(len(choices))]
			e.MarkHit()
			path = append(path, e)
			if !p.stepCrash(res, e, rp(path)) {
				return
			}
			nd = e.Dst
			if baseName(e.Act.Name) == "SetWithdrawn" && e.Dst != e.Src {
				break
			}
			// crash at a random write boundary of this call and continue with the restored machine
			if rng.Intn(4) == 0 {
				snaps := append([]map[string]string{}, p.db.Units...)
				j := rng.Intn(len(snaps) + 1)
				var content map[string]string
				if j == len(snaps) || len(snaps) == 0 {
					content = p.db.Content()
				} else {
					content = snaps[j]
				}
				db, cleanup := storeFrom(kind, scratch, content)
				rdb := newRecDB(db)
				pr := keyvalue.NewPersistRestorer(rdb)
				ch, err := pr.RestoreChannel(bg, env.Params.ID())
				if err != nil {
					cleanup()
					res.Violate("C10", "monitor", "unrestorable|walk", fmt.Sprintf("RestoreChannel failed mid-walk: %v", err), rp(path)())
					return
				}
				m, err := channel.RestoreStateMachine(env.AccMap(env.Me), ch)
				if err != nil {
					cleanup()
					res.Violate("C10", "monitor", "unrestorable-machine|walk", fmt.Sprintf("RestoreStateMachine failed: %v", err), rp(path)())
					return
				}
				res.Add("crash_restore_continue", 1)
				p.Close()
				adopted := p.run.Adopted
				p.db, p.cleanup, p.pr = rdb, cleanup, pr
				p.run = &MachineRun{E: env, M: m, Cands: cands, Adopted: adopted}
				pm := persistence.FromStateMachine(m, pr)
				p.run.P = &pm
				st, _ := p.run.Project()
				switch stateCore(st) {
				case stateCore(e.Dst.State):
					nd = e.Dst
				case stateCore(e.Src.State):
					nd = e.Src
				default:
					res.Violate("C10", "monitor", "restored-other|walk", "restored machine is in neither the state before nor after the interrupted call: "+stateCore(st), rp(path)())
					return
				}
			}
		}
		if i < 2 {
			var labels []string
			for _, e := range path {
				labels = append(labels, e.Act.Label)
			}
			res.Sample(map[string]any{"kind": "walk with crash points at every write boundary", "store": kind, "ops": labels})
		}
	})
	res.Add("walks", walks)
	hit, _ := g.HitCount()
	res.Add("edges_executed", hit)
}
