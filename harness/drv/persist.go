package drv

import (
	"bytes"
	"context"
	"fmt"
	"os"
	"sort"

	"perun.network/go-perun/channel"
	"perun.network/go-perun/channel/persistence"
	"perun.network/go-perun/channel/persistence/keyvalue"
	"perun.network/go-perun/wallet"
	"perun.network/go-perun/wire"
	"polycry.pt/poly-go/sortedkv"
	"polycry.pt/poly-go/sortedkv/leveldb"
	"polycry.pt/poly-go/sortedkv/memorydb"
)

// recDB is a fault-injection wrapper around a sortedkv.Database: it counts
// store write units (Put, PutBytes, Delete, Batch.Apply) and records the
// complete content of the store after each of them, i.e. the store as it would
// be found if the process stopped at that write boundary.
type recDB struct {
	sortedkv.Database
	Units []map[string]string // content after each write unit since the last Reset
}

func newRecDB(inner sortedkv.Database) *recDB { return &recDB{Database: inner} }

// Content returns the complete content of the store.
func (d *recDB) Content() map[string]string {
	m := map[string]string{}
	it := d.Database.NewIterator()
	for it.Next() {
		m[it.Key()] = it.Value()
	}
	it.Close()
	return m
}

func (d *recDB) unit() { d.Units = append(d.Units, d.Content()) }

// Reset forgets recorded units.
func (d *recDB) Reset() { d.Units = nil }

func (d *recDB) Put(k, v string) error {
	err := d.Database.Put(k, v)
	d.unit()
	return err
}

func (d *recDB) PutBytes(k string, v []byte) error {
	err := d.Database.PutBytes(k, v)
	d.unit()
	return err
}

func (d *recDB) Delete(k string) error {
	err := d.Database.Delete(k)
	d.unit()
	return err
}

func (d *recDB) NewBatch() sortedkv.Batch { return &recBatch{Batch: d.Database.NewBatch(), d: d} }

type recBatch struct {
	sortedkv.Batch
	d *recDB
}

func (b *recBatch) Apply() error {
	err := b.Batch.Apply()
	b.d.unit()
	return err
}

// newStore creates an empty store of the given kind ("mem" or "leveldb").
func newStore(kind, scratch string, n *int) (sortedkv.Database, func()) {
	if kind == "leveldb" {
		*n++
		dir, err := os.MkdirTemp(scratch, "ldb")
		if err != nil {
			panic(err)
		}
		db, err := leveldb.LoadDatabase(dir)
		if err != nil {
			panic(err)
		}
		return db, func() { db.Close(); os.RemoveAll(dir) }
	}
	return memorydb.NewDatabase(), func() {}
}

// storeFrom creates a store of the given kind with the given content.
func storeFrom(kind, scratch string, content map[string]string) (sortedkv.Database, func()) {
	if kind != "leveldb" {
		cp := make(map[string]string, len(content))
		for k, v := range content {
			cp[k] = v
		}
		return memorydb.FromData(cp), func() {}
	}
	n := 0
	db, cleanup := newStore(kind, scratch, &n)
	b := db.NewBatch()
	for k, v := range content {
		_ = b.Put(k, v)
	}
	if err := b.Apply(); err != nil {
		panic(err)
	}
	return db, cleanup
}

type srcSnap struct {
	src    channel.Source
	absent bool
}

func sigsPadded(s []wallet.Sig, n int) []wallet.Sig {
	out := make([]wallet.Sig, n)
	copy(out, s)
	return out
}

func stateBytes(s *channel.State) []byte {
	if s == nil {
		return nil
	}
	return encState(s)
}

// cmpRestored compares a restored channel with a snapshot of the live
// machine. It returns "" if they are equal.
func cmpRestored(ch *persistence.Channel, snap channel.Source, peers []map[wallet.BackendID]wire.Address, parent *channel.ID) string {
	if ch.Idx() != snap.Idx() {
		return fmt.Sprintf("index %d != %d", ch.Idx(), snap.Idx())
	}
	if s := paramsEqual(ch.Params(), snap.Params()); s != "" {
		return "params: " + s
	}
	if ch.Phase() != snap.Phase() {
		return fmt.Sprintf("phase %v != %v", ch.Phase(), snap.Phase())
	}
	n := len(snap.Params().Parts)
	if !bytes.Equal(stateBytes(ch.CurrentTX().State), stateBytes(snap.CurrentTX().State)) {
		return "current state differs"
	}
	cs, ls := sigsPadded(ch.CurrentTX().Sigs, n), sigsPadded(snap.CurrentTX().Sigs, n)
	for i := range cs {
		if !bytes.Equal(cs[i], ls[i]) || (len(cs[i]) == 0) != (len(ls[i]) == 0) {
			return fmt.Sprintf("current signature %d differs", i)
		}
	}
	if !bytes.Equal(stateBytes(ch.StagingTX().State), stateBytes(snap.StagingTX().State)) {
		return fmt.Sprintf("staged state differs (restored version %v, live %v)", verOf(ch.StagingTX().State), verOf(snap.StagingTX().State))
	}
	cs, ls = sigsPadded(ch.StagingTX().Sigs, n), sigsPadded(snap.StagingTX().Sigs, n)
	for i := range cs {
		if !bytes.Equal(cs[i], ls[i]) || (len(cs[i]) == 0) != (len(ls[i]) == 0) {
			return fmt.Sprintf("staged signature %d differs (restored %d bytes, live %d bytes)", i, len(cs[i]), len(ls[i]))
		}
	}
	if len(ch.PeersV) != len(peers) {
		return "peers differ in number"
	}
	for i := range peers {
		if !channel.EqualWireMaps(ch.PeersV[i], peers[i]) {
			return fmt.Sprintf("peer %d differs", i)
		}
	}
	if (ch.Parent == nil) != (parent == nil) || (parent != nil && *ch.Parent != *parent) {
		return "parent differs"
	}
	return ""
}

func verOf(s *channel.State) any {
	if s == nil {
		return "none"
	}
	return s.Version
}

// staleSig reports a restored staged signature that is not a valid signature
// of its slot's participant over the restored staged state ("no signature
// belonging to an earlier staged state is ever restored with a later one").
func staleSig(ch *persistence.Channel) string {
	tx := ch.StagingTX()
	for i, s := range tx.Sigs {
		if len(s) == 0 {
			continue
		}
		if tx.State == nil {
			return fmt.Sprintf("staged signature %d restored without a staged state", i)
		}
		for _, a := range ch.Params().Parts[i] {
			if ok, err := channel.Verify(a, tx.State, s); err != nil || !ok {
				return fmt.Sprintf("restored staged signature %d is not a signature over the restored staged state (version %d)", i, tx.State.Version)
			}
		}
	}
	return ""
}

// persistRun is a real persisting state machine over a recording store.
type persistRun struct {
	env     *MachineEnv
	kind    string
	scratch string
	db      *recDB
	cleanup func()
	pr      *keyvalue.PersistRestorer
	run     *MachineRun
	pm      persistence.StateMachine
	peers   []map[wallet.BackendID]wire.Address
	parent  *channel.ID
	nstores int
}

func (p *persistRun) Close() {
	if p.cleanup != nil {
		p.cleanup()
		p.cleanup = nil
	}
}

func sortedKeys(m map[string]string) []string {
	var l []string
	for k := range m {
		l = append(l, k)
	}
	sort.Strings(l)
	return l
}

var bg = context.Background()
