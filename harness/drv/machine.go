package drv

import (
	"bytes"
	"context"
	"fmt"
	"math/big"
	"math/rand"
	"runtime"
	"strings"
	"sync"

	_ "perun.network/go-perun/backend/sim" // backend init
	simchannel "perun.network/go-perun/backend/sim/channel"
	simwallet "perun.network/go-perun/backend/sim/wallet"
	"perun.network/go-perun/channel"
	"perun.network/go-perun/channel/persistence"
	"perun.network/go-perun/wallet"
	"verif/harness/tla"
)

// MachineEnv is the concretisation of the constants of Machine.tla: real
// accounts, parameters, candidate states and signatures.
type MachineEnv struct {
	N, Me  int
	Accs   []*simwallet.Account
	Params *channel.Params
	Asset  channel.Asset

	mu       sync.Mutex
	states   map[string]*channel.State // canonical cand string -> concrete state
	byEnc    map[string]tla.Rec        // state encoding -> candidate
	sigs     map[string]wallet.Sig     // "by|cand" -> signature
	verified sync.Map                  // sig bytes|slot addr idx|state enc -> bool
}

// NoSt / NoSig / Garbage sentinels exactly as in Machine.tla.
var (
	mNoSt    = tla.Rec{"ver": -1, "fin": false, "tag": "none", "sum": 0, "idok": true}
	mNoSig   = tla.Rec{"by": -1, "over": mNoSt}
	mGarbage = tla.Rec{"by": -2, "over": mNoSt}
	mInvalid = tla.Rec{"by": -3, "over": mNoSt} // a stored signature that verifies for nobody over nothing known
)

// NewMachineEnv creates accounts and parameters for an N-party channel.
func NewMachineEnv(n, me int, seed int64) *MachineEnv {
	rng := rand.New(rand.NewSource(seed))
	e := &MachineEnv{N: n, Me: me, states: map[string]*channel.State{}, byEnc: map[string]tla.Rec{}, sigs: map[string]wallet.Sig{}}
	parts := make([]map[wallet.BackendID]wallet.Address, n)
	for i := 0; i < n; i++ {
		a := simwallet.NewRandomAccount(rng)
		e.Accs = append(e.Accs, a)
		parts[i] = map[wallet.BackendID]wallet.Address{channel.TestBackendID: a.Address()}
	}
	e.Asset = simchannel.NewRandomAsset(rng)
	e.Params = channel.NewParamsUnsafe(60, parts, channel.NoApp(), big.NewInt(int64(4711+seed)), true, false, channel.ZeroAux)
	return e
}

// AccMap returns the account map of participant i.
func (e *MachineEnv) AccMap(i int) map[wallet.BackendID]wallet.Account {
	return map[wallet.BackendID]wallet.Account{channel.TestBackendID: e.Accs[i]}
}

// alloc builds the concrete allocation of a candidate.
func (e *MachineEnv) alloc(tag string, sum int) channel.Allocation {
	total := int64(10 + sum + (e.N - 2))
	var p0 int64 = 4
	if tag == "b" {
		p0 = 6
	}
	bals := make([]channel.Bal, e.N)
	rest := total - p0
	for i := e.N - 1; i >= 2; i-- {
		bals[i] = big.NewInt(1)
		rest--
	}
	bals[0] = big.NewInt(p0)
	bals[1] = big.NewInt(rest)
	if tag == "n" { // narrow: the last participant's column is missing (its funds are in the first one)
		bals[0] = new(big.Int).Add(bals[0], bals[e.N-1])
		bals = bals[:e.N-1]
	}
	return channel.Allocation{
		Assets:   []channel.Asset{e.Asset},
		Backends: []wallet.BackendID{channel.TestBackendID},
		Balances: channel.Balances{bals},
	}
}

// State returns (a shared instance of) the concrete state of a candidate.
// Callers that hand it to the machine must Clone it.
func (e *MachineEnv) State(c tla.Val) *channel.State {
	key := tla.String(c)
	e.mu.Lock()
	defer e.mu.Unlock()
	if s, ok := e.states[key]; ok {
		return s
	}
	r := c.(tla.Rec)
	id := e.Params.ID()
	if !r["idok"].(bool) {
		id[0] ^= 0xff
	}
	s := &channel.State{
		ID:         id,
		Version:    uint64(r["ver"].(int)),
		App:        channel.NoApp(),
		Allocation: e.alloc(r["tag"].(string), r["sum"].(int)),
		Data:       channel.NoData(),
		IsFinal:    r["fin"].(bool),
	}
	e.states[key] = s
	e.byEnc[string(encState(s))] = r
	return s
}

func encState(s *channel.State) []byte {
	var b bytes.Buffer
	if err := s.Encode(&b); err != nil {
		return []byte("unencodable:" + err.Error())
	}
	return b.Bytes()
}

// Sig returns the concrete signature for an abstract one.
func (e *MachineEnv) Sig(g tla.Val) wallet.Sig {
	r := g.(tla.Rec)
	by := r["by"].(int)
	switch by {
	case -2:
		return bytes.Repeat([]byte{0x5a}, 64)
	case -3:
		return bytes.Repeat([]byte{0x5a}, 63)
	case -4:
		return wallet.Sig{}
	}
	key := fmt.Sprint(by, "|", tla.String(r["over"]))
	st := e.State(r["over"])
	e.mu.Lock()
	defer e.mu.Unlock()
	if s, ok := e.sigs[key]; ok {
		return s
	}
	s, err := channel.Sign(e.Accs[by], st, channel.TestBackendID)
	if err != nil {
		panic(err)
	}
	e.sigs[key] = s
	return s
}

// verify is channel.Verify with a cache (signature bytes are immutable here:
// every signature handed to the machine is a private copy).
func (e *MachineEnv) verify(i int, st *channel.State, enc []byte, sig wallet.Sig) bool {
	key := string(sig) + "|" + fmt.Sprint(i) + "|" + string(enc)
	if v, ok := e.verified.Load(key); ok {
		return v.(bool)
	}
	ok, err := channel.Verify(e.Accs[i].Address(), st, sig)
	res := ok && err == nil
	e.verified.Store(key, res)
	return res
}

// ProjTx projects a real transaction onto the specification's [st, sigs]
// record. It never trusts the object: every stored signature is re-verified
// against Params().Parts and the transaction's own state; a signature that is
// not the valid signature of slot i's participant over that state is
// classified by searching the known (participant, candidate) pairs.
func (e *MachineEnv) ProjTx(tx channel.Transaction, cands []tla.Val) (rec tla.Rec, fullySigned bool, bad string) {
	emptySigs := func() tla.Fn {
		f := tla.Fn{}
		for i := 0; i < e.N; i++ {
			f.K = append(f.K, i)
			f.V = append(f.V, mNoSig)
		}
		return f
	}
	if tx.State == nil {
		if tx.Sigs != nil {
			for _, s := range tx.Sigs {
				if s != nil {
					bad = "signatures without a state"
				}
			}
		}
		return tla.Rec{"st": mNoSt, "sigs": emptySigs()}, false, bad
	}
	enc := encState(tx.State)
	e.mu.Lock()
	st, known := e.byEnc[string(enc)]
	e.mu.Unlock()
	var stv tla.Val = st
	if !known {
		stv = tla.Rec{"ver": int(tx.State.Version), "fin": tx.State.IsFinal, "tag": "unknown", "sum": -1, "idok": tx.State.ID == e.Params.ID()}
	}
	sigs := emptySigs()
	fullySigned = true
	if len(tx.Sigs) != e.N {
		bad = fmt.Sprintf("%d signature slots for %d participants", len(tx.Sigs), e.N)
		fullySigned = false
	}
	for i := 0; i < e.N && i < len(tx.Sigs); i++ {
		sig := tx.Sigs[i]
		if sig == nil {
			fullySigned = false
			continue
		}
		if e.verify(i, tx.State, enc, sig) {
			sigs.V[i] = tla.Rec{"by": i, "over": stv}
			continue
		}
		fullySigned = false
		cls := tla.Val(mInvalid)
	search:
		for j := 0; j < e.N; j++ {
			for _, c := range cands {
				cs := e.State(c)
				if e.verify(j, cs, encState(cs), sig) {
					cls = tla.Rec{"by": j, "over": c}
					break search
				}
			}
		}
		sigs.V[i] = cls
	}
	return tla.Rec{"st": stv, "sigs": sigs}, fullySigned, bad
}

// otherData is app data the no-app refuses in ValidInit.
type otherData struct{}

func (otherData) MarshalBinary() ([]byte, error) { return []byte{1}, nil }
func (*otherData) UnmarshalBinary([]byte) error  { return nil }
func (*otherData) Clone() channel.Data           { return &otherData{} }

// MachineRun is one real state machine being stepped through a behaviour.
type MachineRun struct {
	E       *MachineEnv
	M       *channel.StateMachine
	Cands   []tla.Val
	Adopted bool // driver-side history: current state was set by SetProgressed
	// AdoptedEnc is the encoding of the state of the progression event that was adopted last.
	AdoptedEnc []byte
	// P, if set, is the persisting wrapper around M; operations then go through it.
	P *persistence.StateMachine
}

// machineOps abstracts over channel.StateMachine and persistence.StateMachine.
type machineOps struct {
	Init           func(channel.Allocation, channel.Data) error
	Update         func(*channel.State, channel.Index) error
	ForceUpdate    func(*channel.State, channel.Index) error
	Sig            func() (wallet.Sig, error)
	AddSig         func(channel.Index, wallet.Sig) error
	EnableInit     func() error
	EnableUpdate   func() error
	EnableFinal    func() error
	DiscardUpdate  func() error
	SetFunded      func() error
	SetRegistering func() error
	SetRegistered  func() error
	SetWithdrawing func() error
	SetWithdrawn   func() error
	SetProgressing func(*channel.State) error
	SetProgressed  func(*channel.ProgressedEvent) error
}

func (r *MachineRun) ops() machineOps {
	if r.P == nil {
		m := r.M
		return machineOps{m.Init, m.Update, m.ForceUpdate, m.Sig, m.AddSig, m.EnableInit, m.EnableUpdate, m.EnableFinal,
			m.DiscardUpdate, m.SetFunded, m.SetRegistering, m.SetRegistered, m.SetWithdrawing, m.SetWithdrawn,
			m.SetProgressing, m.SetProgressed}
	}
	p := r.P
	c := context.Background()
	return machineOps{
		func(a channel.Allocation, d channel.Data) error { return p.Init(c, a, d) },
		func(s *channel.State, i channel.Index) error { return p.Update(c, s, i) },
		func(s *channel.State, i channel.Index) error { return p.ForceUpdate(c, s, i) },
		func() (wallet.Sig, error) { return p.Sig(c) },
		func(i channel.Index, s wallet.Sig) error { return p.AddSig(c, i, s) },
		func() error { return p.EnableInit(c) }, func() error { return p.EnableUpdate(c) }, func() error { return p.EnableFinal(c) },
		func() error { return p.DiscardUpdate(c) }, func() error { return p.SetFunded(c) },
		func() error { return p.SetRegistering(c) }, func() error { return p.SetRegistered(c) },
		func() error { return p.SetWithdrawing(c) }, func() error { return p.SetWithdrawn(c) },
		func(s *channel.State) error { return p.SetProgressing(c, s) },
		func(e *channel.ProgressedEvent) error { return p.SetProgressed(c, e) },
	}
}

// NewRun creates a fresh machine.
func (e *MachineEnv) NewRun(cands []tla.Val) *MachineRun {
	m, err := channel.NewStateMachine(e.AccMap(e.Me), *e.Params.Clone())
	if err != nil {
		panic(err)
	}
	return &MachineRun{E: e, M: m, Cands: cands}
}

// Project returns the abstract state of the real machine and the C01 monitor's
// findings.
func (r *MachineRun) Project() (st tla.Rec, c01 string) {
	stg, _, bad1 := r.E.ProjTx(r.M.StagingTX(), r.Cands)
	cur, full, bad2 := r.E.ProjTx(r.M.CurrentTX(), r.Cands)
	st = tla.Rec{"phase": r.M.Phase().String(), "staging": stg, "current": cur}
	switch {
	case bad1 != "":
		c01 = "staging: " + bad1
	case bad2 != "":
		c01 = "current: " + bad2
	case r.M.CurrentTX().State != nil && !full && !r.Adopted:
		c01 = "current state is not signed by every participant (and was not adopted from a progression event): " + tla.String(cur)
	case r.M.CurrentTX().State != nil && !full && r.Adopted && r.AdoptedEnc != nil && !bytes.Equal(encState(r.M.CurrentTX().State), r.AdoptedEnc):
		c01 = "current state is not signed by every participant and is NOT the state of the progression event that was adopted: " + tla.String(cur)
	default:
		// StagingSigsSound: every stored staged signature is the slot owner's over the staged state.
		sf := stg["sigs"].(tla.Fn)
		for i := range sf.K {
			s := sf.V[i].(tla.Rec)
			if s["by"].(int) == -1 {
				continue
			}
			if s["by"].(int) != i || tla.String(s["over"]) != tla.String(stg["st"]) {
				c01 = fmt.Sprintf("staged signature in slot %d is %s, not a valid signature of participant %d over the staged state", i, tla.String(s), i)
			}
		}
	}
	return st, c01
}

func txBytes(tx channel.Transaction) []byte {
	var b bytes.Buffer
	if err := tx.Encode(&b); err != nil {
		return []byte("unencodable:" + err.Error())
	}
	return b.Bytes()
}

// Exec executes one specification action on the real machine. It returns the
// observed result class: "Ok", "Err" or "Panic:<msg>".
func (r *MachineRun) Exec(a *tla.Action, pre tla.Rec) (res string) {
	defer func() {
		if p := recover(); p != nil {
			buf := make([]byte, 2048)
			buf = buf[:runtime.Stack(buf, false)]
			res = fmt.Sprintf("Panic:%v @ %s", p, topFrame(string(buf)))
		}
	}()
	cls := func(err error) string {
		if err == nil {
			return "Ok"
		}
		return "Err"
	}
	name := strings.TrimSuffix(strings.TrimSuffix(a.Name, "Ok"), "Err")
	m, e := r.ops(), r.E
	rm := r.M
	idx := func(v tla.Val) channel.Index { return channel.Index(v.(int)) }
	switch name {
	case "Init":
		al := e.alloc("a", 0)
		var data channel.Data = channel.NoData()
		switch a.Args[0].(string) {
		case "good":
		case "badalloc":
			al.Balances[0] = al.Balances[0][:e.N-1]
		case "negbal":
			al.Balances[0][0] = big.NewInt(-1)
		case "baddata":
			data = &otherData{}
		}
		return cls(m.Init(al, data))
	case "Update":
		return cls(m.Update(e.State(a.Args[0]).Clone(), idx(a.Args[1])))
	case "ForceUpdate":
		return cls(m.ForceUpdate(e.State(a.Args[0]).Clone(), channel.Index(e.Me)))
	case "CheckUpdate":
		// CheckSig(c, i, k) of Machine.tla
		c, i := a.Args[0].(tla.Rec), a.Args[3].(int)
		var g tla.Val
		switch a.Args[2].(string) {
		case "valid":
			g = tla.Rec{"by": i, "over": c}
		case "foreign":
			g = tla.Rec{"by": (i + 1) % e.N, "over": c}
		case "twin":
			g = tla.Rec{"by": i, "over": twin(c)}
		case "malformed":
			g = tla.Rec{"by": -3, "over": mNoSt}
		default:
			g = mGarbage
		}
		return cls(rm.CheckUpdate(e.State(c).Clone(), idx(a.Args[1]), cloneSig(e.Sig(g)), channel.Index(i)))
	case "Sig":
		_, err := m.Sig()
		return cls(err)
	case "AddSig":
		// SigOf(j, rel) of Machine.tla, resolved against the specification's pre-state
		j, rel := a.Args[1].(int), a.Args[2].(string)
		var g tla.Val = tla.Rec{"by": j, "over": mNoSt}
		if j >= 0 {
			var st tla.Rec
			switch rel {
			case "staging":
				st = pre["staging"].(tla.Rec)["st"].(tla.Rec)
			case "current":
				st = pre["current"].(tla.Rec)["st"].(tla.Rec)
			case "twin":
				st = twin(pre["staging"].(tla.Rec)["st"].(tla.Rec))
			}
			g = tla.Rec{"by": j, "over": st}
		}
		return cls(m.AddSig(idx(a.Args[0]), cloneSig(e.Sig(g))))
	case "EnableInit":
		err := m.EnableInit()
		if err == nil {
			r.Adopted = false
		}
		return cls(err)
	case "EnableUpdate":
		err := m.EnableUpdate()
		if err == nil {
			r.Adopted = false
		}
		return cls(err)
	case "EnableFinal":
		err := m.EnableFinal()
		if err == nil {
			r.Adopted = false
		}
		return cls(err)
	case "DiscardUpdate":
		return cls(m.DiscardUpdate())
	case "SetFunded":
		return cls(m.SetFunded())
	case "SetRegistering":
		return cls(m.SetRegistering())
	case "SetRegistered":
		return cls(m.SetRegistered())
	case "SetWithdrawing":
		return cls(m.SetWithdrawing())
	case "SetWithdrawn":
		return cls(m.SetWithdrawn())
	case "SetProgressing":
		return cls(m.SetProgressing(e.State(a.Args[0]).Clone()))
	case "SetProgressed":
		st := e.State(a.Args[0]).Clone()
		err := m.SetProgressed(channel.NewProgressedEvent(e.Params.ID(), &channel.ElapsedTimeout{}, st, 0))
		if err == nil {
			r.Adopted = true
			r.AdoptedEnc = encState(st)
		}
		return cls(err)
	}
	panic("driver: unknown action " + a.Name)
}

func twin(c tla.Rec) tla.Rec {
	t := tla.Rec{}
	for k, v := range c {
		t[k] = v
	}
	if c["tag"].(string) == "a" {
		t["tag"] = "b"
	} else {
		t["tag"] = "a"
	}
	return t
}

// MachineInitState is Init of Machine.tla.
func MachineInitState(n int) tla.Rec {
	f := tla.Fn{}
	for i := 0; i < n; i++ {
		f.K = append(f.K, i)
		f.V = append(f.V, mNoSig)
	}
	noTx := tla.Rec{"st": mNoSt, "sigs": f}
	return tla.Rec{"phase": "InitActing", "staging": noTx, "current": noTx, "adopted": false}
}

func cloneSig(s wallet.Sig) wallet.Sig { return append(wallet.Sig{}, s...) }

// topFrame extracts the first go-perun frame below the panic from a stack dump.
func topFrame(stack string) string {
	lines := strings.Split(stack, "\n")
	for i := 0; i+1 < len(lines); i++ {
		l := lines[i]
		if strings.HasPrefix(l, "perun.network/go-perun/") || strings.HasPrefix(l, "polycry.pt/") {
			fn := l
			if k := strings.LastIndex(fn, "("); k > 0 {
				fn = fn[:k]
			}
			loc := strings.TrimSpace(lines[i+1])
			if k := strings.Index(loc, " +0x"); k > 0 {
				loc = loc[:k]
			}
			if k := strings.LastIndex(loc, "/"); k >= 0 {
				loc = loc[k+1:]
			}
			return strings.TrimPrefix(fn, "perun.network/go-perun/") + " " + loc
		}
	}
	return "?"
}

// expectClass derives the predicted result class from the action name.
func expectClass(name string) string {
	if strings.HasSuffix(name, "Err") {
		return "Err"
	}
	return "Ok"
}

// baseName strips the outcome suffix.
func baseName(name string) string {
	return strings.TrimSuffix(strings.TrimSuffix(name, "Ok"), "Err")
}

// stateCore renders the comparable part (phase, staging, current) of a
// specification state.
func stateCore(st tla.Rec) string {
	return tla.String(tla.Rec{"phase": st["phase"], "staging": st["staging"], "current": st["current"]})
}

// MachineStepCheck executes edge-labelled step `a` with expected post-state
// `post` and reports violations. It returns false if the run diverged.
func (r *MachineRun) Step(res *Result, a *tla.Action, pre, post tla.Rec, replay func() any) bool {
	var before [2][]byte
	isErr := expectClass(a.Name) == "Err"
	if isErr {
		before = [2][]byte{txBytes(r.M.StagingTX()), txBytes(r.M.CurrentTX())}
	}
	phaseBefore := r.M.Phase()
	got := r.Exec(a, pre)
	res.Add("steps", 1)
	ok := true
	op := baseName(a.Name)
	if strings.HasPrefix(got, "Panic") {
		res.Violate("C09", "monitor", "panic|"+op+"|"+got[strings.Index(got, "@")+2:],
			fmt.Sprintf("%s panicked in phase %v: %s", a.Label, phaseBefore, got), replay())
		return false
	}
	if got != expectClass(a.Name) {
		res.Violate("C09", "monitor", "result|"+op,
			fmt.Sprintf("%s in phase %v: specification predicts %s, machine returned %s", a.Label, phaseBefore, expectClass(a.Name), got), replay())
		ok = false
	}
	st, c01 := r.Project()
	if c01 != "" {
		res.Violate("C01", "monitor", "unsigned|"+op, fmt.Sprintf("after %s: %s", a.Label, c01), replay())
		ok = false
	}
	if isErr && got == "Err" {
		after := [2][]byte{txBytes(r.M.StagingTX()), txBytes(r.M.CurrentTX())}
		if r.M.Phase() != phaseBefore || !bytes.Equal(before[0], after[0]) || !bytes.Equal(before[1], after[1]) {
			res.Violate("C09", "monitor", "erratomic|"+op,
				fmt.Sprintf("%s returned an error but changed phase/staged/current transaction (phase %v -> %v)", a.Label, phaseBefore, r.M.Phase()), replay())
			ok = false
		}
	}
	if ok && stateCore(st) != stateCore(post) {
		res.Violate("C09", "monitor", "post|"+op,
			fmt.Sprintf("after %s: machine is in %s, specification predicts %s", a.Label, stateCore(st), stateCore(post)), replay())
		ok = false
	}
	return ok
}
