package drv

import (
	"bytes"
	"crypto/elliptic"
	"fmt"
	"math/big"
	"math/rand"
	"reflect"
	"sort"
	"strings"

	simchannel "perun.network/go-perun/backend/sim/channel"
	simwallet "perun.network/go-perun/backend/sim/wallet"
	"perun.network/go-perun/channel"
	"perun.network/go-perun/channel/persistence"
	"perun.network/go-perun/wallet"
)

// leafOps are the handles on one mutable leaf of a concrete value.
type leafOps struct {
	get     func() *big.Int // current value
	inplace func()          // +1 through the existing pointer / slice element
	slot    func()          // +1 by storing a new object into the containing slot
	mod     int64           // values are compared modulo mod (0: exact)
}

// cloneSubject describes one cloneable type/shape for the Clone.tla driver.
type cloneSubject struct {
	Name   string
	Make   func() any
	Clone  func(v any) any
	Leaves func(v any) map[string]leafOps
	Equal  func(a, b any) string // "" if equal by the type's own notion
}

var cloneAssets = func() []channel.Asset {
	rng := rand.New(rand.NewSource(77))
	var l []channel.Asset
	for i := 0; i < 6; i++ {
		l = append(l, simchannel.NewRandomAsset(rng))
	}
	return l
}()

func assetIdx(a channel.Asset) int64 {
	for i, x := range cloneAssets {
		if x.Equal(a) {
			return int64(i)
		}
	}
	return -1
}

func bigLeaf(sl []channel.Bal, i int) leafOps {
	return leafOps{
		get:     func() *big.Int { return new(big.Int).Set(sl[i]) },
		inplace: func() { sl[i].Add(sl[i], big.NewInt(1)) },
		slot:    func() { sl[i] = new(big.Int).Add(sl[i], big.NewInt(1)) },
	}
}

func balancesLeaves(prefix string, b channel.Balances, m map[string]leafOps) {
	for a := range b {
		for p := range b[a] {
			m[fmt.Sprintf("%sbal.%d.%d", prefix, a, p)] = bigLeaf(b[a], p)
		}
	}
}

func allocLeaves(prefix string, al *channel.Allocation, m map[string]leafOps) {
	balancesLeaves(prefix, al.Balances, m)
	for a := range al.Backends {
		a := a
		m[fmt.Sprintf("%sbackend.%d", prefix, a)] = leafOps{
			get:     func() *big.Int { return big.NewInt(int64(al.Backends[a])) },
			inplace: func() { al.Backends[a]++ },
			slot: func() {
				nb := append([]wallet.BackendID(nil), al.Backends...)
				nb[a]++
				al.Backends = nb
			},
		}
	}
	for a := range al.Assets {
		a := a
		next := func() { al.Assets[a] = cloneAssets[(assetIdx(al.Assets[a])+1)%int64(len(cloneAssets))] }
		m[fmt.Sprintf("%sasset.%d", prefix, a)] = leafOps{
			get: func() *big.Int { return big.NewInt(assetIdx(al.Assets[a])) }, inplace: next,
			slot: func() {
				na := append([]channel.Asset(nil), al.Assets...)
				al.Assets = na
				next()
			}, mod: int64(len(cloneAssets)),
		}
	}
	for k := range al.Locked {
		k := k
		m[fmt.Sprintf("%slock.%d.id", prefix, k)] = leafOps{
			get:     func() *big.Int { return big.NewInt(int64(al.Locked[k].ID[0])) },
			inplace: func() { al.Locked[k].ID[0]++ },
			slot: func() {
				nl := append([]channel.SubAlloc(nil), al.Locked...)
				nl[k].ID[0]++
				al.Locked = nl
			}, mod: 256,
		}
		for a := range al.Locked[k].Bals {
			a := a
			m[fmt.Sprintf("%slock.%d.bal.%d", prefix, k, a)] = leafOps{
				get:     func() *big.Int { return new(big.Int).Set(al.Locked[k].Bals[a]) },
				inplace: func() { al.Locked[k].Bals[a].Add(al.Locked[k].Bals[a], big.NewInt(1)) },
				slot:    func() { al.Locked[k].Bals[a] = new(big.Int).Add(al.Locked[k].Bals[a], big.NewInt(1)) },
			}
		}
		for i := range al.Locked[k].IndexMap {
			i := i
			m[fmt.Sprintf("%slock.%d.im.%d", prefix, k, i)] = leafOps{
				get:     func() *big.Int { return big.NewInt(int64(al.Locked[k].IndexMap[i])) },
				inplace: func() { al.Locked[k].IndexMap[i]++ },
				slot: func() {
					ni := append([]channel.Index(nil), al.Locked[k].IndexMap...)
					ni[i]++
					al.Locked[k].IndexMap = ni
				},
			}
		}
	}
}

func stateLeaves(prefix string, s *channel.State, m map[string]leafOps) {
	if s == nil {
		return
	}
	allocLeaves(prefix, &s.Allocation, m)
	m[prefix+"ver"] = leafOps{get: func() *big.Int { return new(big.Int).SetUint64(s.Version) }, inplace: func() { s.Version++ }, slot: func() { s.Version++ }}
	m[prefix+"final"] = leafOps{get: func() *big.Int {
		if s.IsFinal {
			return big.NewInt(1)
		}
		return big.NewInt(0)
	}, inplace: func() { s.IsFinal = !s.IsFinal }, slot: func() { s.IsFinal = !s.IsFinal }, mod: 2}
	m[prefix+"id"] = leafOps{get: func() *big.Int { return big.NewInt(int64(s.ID[5])) }, inplace: func() { s.ID[5]++ }, slot: func() { s.ID[5]++ }, mod: 256}
	if _, ok := s.Data.(*channel.MockOp); ok {
		m[prefix+"data"] = leafOps{
			get:     func() *big.Int { return new(big.Int).SetUint64(uint64(*s.Data.(*channel.MockOp))) },
			inplace: func() { *s.Data.(*channel.MockOp)++ },
			slot:    func() { s.Data = channel.NewMockOp(*s.Data.(*channel.MockOp) + 1) },
		}
	}
}

func sigsLeaves(prefix string, sigs *[]wallet.Sig, m map[string]leafOps) {
	for i := range *sigs {
		i := i
		if (*sigs)[i] == nil {
			continue
		}
		m[fmt.Sprintf("%ssig.%d", prefix, i)] = leafOps{
			get:     func() *big.Int { return big.NewInt(int64((*sigs)[i][3])) },
			inplace: func() { (*sigs)[i][3]++ },
			slot: func() {
				ns := append(wallet.Sig(nil), (*sigs)[i]...)
				ns[3]++
				(*sigs)[i] = ns
			}, mod: 256,
		}
	}
}

func paramsLeaves(prefix string, p *channel.Params, m map[string]leafOps) {
	m[prefix+"chdur"] = leafOps{get: func() *big.Int { return new(big.Int).SetUint64(p.ChallengeDuration) }, inplace: func() { p.ChallengeDuration++ }, slot: func() { p.ChallengeDuration++ }}
	m[prefix+"nonce"] = leafOps{
		get:     func() *big.Int { return new(big.Int).Set(p.Nonce) },
		inplace: func() { p.Nonce.Add(p.Nonce, big.NewInt(1)) },
		slot:    func() { p.Nonce = new(big.Int).Add(p.Nonce, big.NewInt(1)) },
	}
	m[prefix+"aux"] = leafOps{get: func() *big.Int { return big.NewInt(int64(p.Aux[9])) }, inplace: func() { p.Aux[9]++ }, slot: func() { p.Aux[9]++ }, mod: 256}
	m[prefix+"ledger"] = leafOps{get: func() *big.Int {
		if p.LedgerChannel {
			return big.NewInt(1)
		}
		return big.NewInt(0)
	}, inplace: func() { p.LedgerChannel = !p.LedgerChannel }, slot: func() { p.LedgerChannel = !p.LedgerChannel }, mod: 2}
	for i := range p.Parts {
		i := i
		addr := func() *simwallet.Address { return p.Parts[i][channel.TestBackendID].(*simwallet.Address) }
		m[fmt.Sprintf("%spart.%d", prefix, i)] = leafOps{
			get:     func() *big.Int { return new(big.Int).Set(addr().X) },
			inplace: func() { addr().X.Add(addr().X, big.NewInt(1)) },
			slot: func() {
				old := addr()
				p.Parts[i][channel.TestBackendID] = &simwallet.Address{Curve: old.Curve, X: new(big.Int).Add(old.X, big.NewInt(1)), Y: new(big.Int).Set(old.Y)}
			},
		}
	}
}

func txLeaves(prefix string, tx *channel.Transaction, m map[string]leafOps) {
	stateLeaves(prefix, tx.State, m)
	sigsLeaves(prefix, &tx.Sigs, m)
}

// shape of generated values
type cloneShape struct {
	Assets, Parts, Locked int
	IndexMap              bool
	EmptyLocked           bool // Locked = empty non-nil slice
	SigMask               int  // which signature slots are set
	Data                  bool // the state carries data although the channel has no app (legal: the no-app accepts every transition)
}

func (s cloneShape) String() string {
	d := ""
	if s.Data {
		d = "_data"
	}
	return fmt.Sprintf("a%dp%dl%d_im%v_el%v_s%d%s", s.Assets, s.Parts, s.Locked, s.IndexMap, s.EmptyLocked, s.SigMask, d)
}

func mkAlloc(sh cloneShape) channel.Allocation {
	al := channel.Allocation{}
	for a := 0; a < sh.Assets; a++ {
		al.Assets = append(al.Assets, cloneAssets[a])
		al.Backends = append(al.Backends, channel.TestBackendID)
		row := make([]channel.Bal, sh.Parts)
		for p := range row {
			row[p] = big.NewInt(int64(10*a + p + 3))
		}
		al.Balances = append(al.Balances, row)
	}
	for k := 0; k < sh.Locked; k++ {
		var id channel.ID
		id[0], id[1] = byte(k+1), 0xcc
		bs := make([]channel.Bal, sh.Assets)
		for a := range bs {
			bs[a] = big.NewInt(int64(k + a + 1))
		}
		var im []channel.Index
		if sh.IndexMap {
			im = []channel.Index{0, 1}
		}
		al.Locked = append(al.Locked, *channel.NewSubAlloc(id, bs, im))
	}
	if sh.Locked == 0 && sh.EmptyLocked {
		al.Locked = []channel.SubAlloc{}
	}
	return al
}

func mkParams(sh cloneShape, seed int64) (*channel.Params, []*simwallet.Account) {
	rng := rand.New(rand.NewSource(seed))
	var accs []*simwallet.Account
	parts := make([]map[wallet.BackendID]wallet.Address, sh.Parts)
	for i := range parts {
		a := simwallet.NewRandomAccount(rng)
		accs = append(accs, a)
		// a private copy of the address so that in-place modification does not touch the account
		parts[i] = map[wallet.BackendID]wallet.Address{channel.TestBackendID: wallet.CloneAddress(a.Address())}
	}
	return channel.NewParamsUnsafe(60, parts, channel.NoApp(), big.NewInt(123456), true, false, channel.ZeroAux), accs
}

func mkState(sh cloneShape, p *channel.Params) *channel.State {
	st := &channel.State{ID: p.ID(), Version: 5, App: channel.NoApp(), Allocation: mkAlloc(sh), Data: channel.NoData()}
	if sh.Data {
		st.Data = channel.NewMockOp(7)
	}
	return st
}

func mkTx(sh cloneShape, seed int64) channel.Transaction {
	p, accs := mkParams(sh, seed)
	st := mkState(sh, p)
	sigs := make([]wallet.Sig, sh.Parts)
	for i := range sigs {
		if sh.SigMask&(1<<i) != 0 {
			s, err := channel.Sign(accs[i], st, channel.TestBackendID)
			if err != nil {
				panic(err)
			}
			sigs[i] = s
		}
	}
	return channel.Transaction{State: st, Sigs: sigs}
}

func errStr(err error) string {
	if err == nil {
		return ""
	}
	return err.Error()
}

func txEqual(a, b channel.Transaction) string {
	if (a.State == nil) != (b.State == nil) {
		return "one transaction has no state"
	}
	if a.State != nil {
		if err := a.State.Equal(b.State); err != nil {
			return err.Error()
		}
	}
	if len(a.Sigs) != len(b.Sigs) || (a.Sigs == nil) != (b.Sigs == nil) {
		return "signature slices differ in length / nil-ness"
	}
	for i := range a.Sigs {
		if !bytes.Equal(a.Sigs[i], b.Sigs[i]) || (a.Sigs[i] == nil) != (b.Sigs[i] == nil) {
			return fmt.Sprintf("signature %d differs", i)
		}
	}
	return ""
}

func paramsEqual(a, b *channel.Params) string {
	var ba, bb bytes.Buffer
	if err := a.Encode(&ba); err != nil {
		return err.Error()
	}
	if err := b.Encode(&bb); err != nil {
		return err.Error()
	}
	if !bytes.Equal(ba.Bytes(), bb.Bytes()) {
		return "encodings differ"
	}
	if a.ID() != b.ID() {
		return "ids differ"
	}
	return ""
}

// CloneSubjects lists the cloneable types and shapes.
func CloneSubjects(seed int64) []cloneSubject {
	subs := actionMachineSubjects(seed)
	shapes := []cloneShape{
		{Assets: 1, Parts: 2, Locked: 0},
		{Assets: 1, Parts: 2, Locked: 0, EmptyLocked: true},
		{Assets: 2, Parts: 3, Locked: 1, IndexMap: true},
		{Assets: 1, Parts: 2, Locked: 2, IndexMap: false},
		{Assets: 1, Parts: 2, Locked: 0, Data: true},
	}
	for _, sh := range shapes {
		sh := sh
		subs = append(subs, cloneSubject{
			Name: "Balances/" + sh.String(),
			Make: func() any { b := mkAlloc(sh).Balances; return &b },
			Clone: func(v any) any {
				c := (*v.(*channel.Balances)).Clone()
				return &c
			},
			Leaves: func(v any) map[string]leafOps {
				m := map[string]leafOps{}
				balancesLeaves("", *v.(*channel.Balances), m)
				return m
			},
			Equal: func(a, b any) string {
				return errStr((*a.(*channel.Balances)).AssertEqual(*b.(*channel.Balances)))
			},
		}, cloneSubject{
			Name: "Allocation/" + sh.String(),
			Make: func() any { a := mkAlloc(sh); return &a },
			Clone: func(v any) any {
				c := v.(*channel.Allocation).Clone()
				return &c
			},
			Leaves: func(v any) map[string]leafOps {
				m := map[string]leafOps{}
				allocLeaves("", v.(*channel.Allocation), m)
				return m
			},
			Equal: func(a, b any) string {
				x, y := a.(*channel.Allocation), b.(*channel.Allocation)
				if (x.Locked == nil) != (y.Locked == nil) {
					return "Locked nil-ness differs"
				}
				return errStr(x.Equal(y))
			},
		}, cloneSubject{
			Name:  "State/" + sh.String(),
			Make:  func() any { p, _ := mkParams(sh, seed); return mkState(sh, p) },
			Clone: func(v any) any { return v.(*channel.State).Clone() },
			Leaves: func(v any) map[string]leafOps {
				m := map[string]leafOps{}
				stateLeaves("", v.(*channel.State), m)
				return m
			},
			Equal: func(a, b any) string { return errStr(a.(*channel.State).Equal(b.(*channel.State))) },
		})
	}
	for _, parts := range []int{2, 3} {
		sh := cloneShape{Assets: 1, Parts: parts}
		subs = append(subs, cloneSubject{
			Name:  fmt.Sprintf("Params/p%d", parts),
			Make:  func() any { p, _ := mkParams(sh, seed); return p },
			Clone: func(v any) any { return v.(*channel.Params).Clone() },
			Leaves: func(v any) map[string]leafOps {
				m := map[string]leafOps{}
				paramsLeaves("", v.(*channel.Params), m)
				return m
			},
			Equal: func(a, b any) string { return paramsEqual(a.(*channel.Params), b.(*channel.Params)) },
		})
	}
	for _, sh := range []cloneShape{
		{Assets: 1, Parts: 2, SigMask: 3}, {Assets: 1, Parts: 2, SigMask: 1}, {Assets: 1, Parts: 3, Locked: 1, IndexMap: true, SigMask: 5},
		{Assets: 2, Parts: 2, SigMask: 0}, {Assets: 1, Parts: 2, SigMask: 1, Data: true},
	} {
		sh := sh
		subs = append(subs, cloneSubject{
			Name: "Transaction/" + sh.String(),
			Make: func() any { t := mkTx(sh, seed); return &t },
			Clone: func(v any) any {
				c := v.(*channel.Transaction).Clone()
				return &c
			},
			Leaves: func(v any) map[string]leafOps {
				m := map[string]leafOps{}
				txLeaves("", v.(*channel.Transaction), m)
				return m
			},
			Equal: func(a, b any) string { return txEqual(*a.(*channel.Transaction), *b.(*channel.Transaction)) },
		})
	}
	// persistence snapshots of a source: CloneSource and FromSource
	for _, which := range []string{"CloneSource", "FromSource"} {
		which := which
		sh := cloneShape{Assets: 1, Parts: 2, Locked: 1, IndexMap: false, SigMask: 1}
		// a staged transaction outlives the signing phase when a dispute starts (SetRegistering / SetRegistered /
		// SetWithdrawing only change the phase): a snapshot is a clone in every phase
		for _, ph := range []channel.Phase{channel.Signing, channel.Registered, channel.Withdrawing} {
			subs = append(subs, sourceSubject(which, sh, seed, ph))
		}
	}
	return subs
}

// fakeSource is a channel.Source backed by plain fields (the original that is
// snapshotted by CloneSource / FromSource).
type fakeSource struct {
	idx    channel.Index
	params *channel.Params
	stg    channel.Transaction
	cur    channel.Transaction
	phase  channel.Phase
}

func (f *fakeSource) ID() channel.ID                 { return f.params.ID() }
func (f *fakeSource) Idx() channel.Index             { return f.idx }
func (f *fakeSource) Params() *channel.Params        { return f.params }
func (f *fakeSource) StagingTX() channel.Transaction { return f.stg }
func (f *fakeSource) CurrentTX() channel.Transaction { return f.cur }
func (f *fakeSource) Phase() channel.Phase           { return f.phase }

func sourceLeaves(s channel.Source) map[string]leafOps {
	m := map[string]leafOps{}
	paramsLeaves("params.", s.Params(), m)
	stg, cur := s.StagingTX(), s.CurrentTX()
	txLeaves("stg.", &stg, m)
	txLeaves("cur.", &cur, m)
	// only in-place modification is possible through the Source interface
	for k, l := range m {
		l.slot = l.inplace
		m[k] = l
	}
	return m
}

func sourceSubject(which string, sh cloneShape, seed int64, phase channel.Phase) cloneSubject {
	name := "persistence." + which
	if phase != channel.Signing {
		name += "/" + phase.String()
	}
	return cloneSubject{
		Name: name,
		Make: func() any {
			p, _ := mkParams(sh, seed)
			stg, cur := mkTx(sh, seed), mkTx(cloneShape{Assets: 1, Parts: 2, SigMask: 3}, seed)
			stg.State.Version = 6
			return channel.Source(&fakeSource{idx: 1, params: p, stg: stg, cur: cur, phase: phase})
		},
		Clone: func(v any) any {
			if which == "CloneSource" {
				return persistence.CloneSource(v.(channel.Source))
			}
			return channel.Source(persistence.FromSource(v.(channel.Source), nil, nil))
		},
		Leaves: func(v any) map[string]leafOps { return sourceLeaves(v.(channel.Source)) },
		Equal: func(a, b any) string {
			x, y := a.(channel.Source), b.(channel.Source)
			if x.Idx() != y.Idx() || x.Phase() != y.Phase() {
				return "idx/phase differ"
			}
			if s := paramsEqual(x.Params(), y.Params()); s != "" {
				return "params: " + s
			}
			if s := txEqual(x.StagingTX(), y.StagingTX()); s != "" {
				return "staging: " + s
			}
			if s := txEqual(x.CurrentTX(), y.CurrentTX()); s != "" {
				return "current: " + s
			}
			return ""
		},
	}
}

// ---------------------------------------------------------------------------
// Reachability walk: every pointer / slice backing array / map reachable from
// a value, except what is documented as shared.
// ---------------------------------------------------------------------------

var (
	tAsset   = reflect.TypeOf((*channel.Asset)(nil)).Elem()
	tApp     = reflect.TypeOf((*channel.App)(nil)).Elem()
	tAccount = reflect.TypeOf((*wallet.Account)(nil)).Elem()
	tCurve   = reflect.TypeOf((*elliptic.Curve)(nil)).Elem()
)

func sharedByDoc(t reflect.Type) bool {
	if t.Kind() == reflect.Interface {
		return t == tAsset || t == tApp || t == tAccount || t == tCurve || t.Implements(tApp) && t.Kind() == reflect.Interface
	}
	return strings.HasSuffix(t.PkgPath(), "go-perun/log") || strings.Contains(t.String(), "logrus")
}

// Reach collects address -> path for mutable memory reachable from v.
func Reach(v any) map[uintptr]string {
	out := map[uintptr]string{}
	seen := map[uintptr]bool{}
	var walk func(rv reflect.Value, path string, depth int)
	walk = func(rv reflect.Value, path string, depth int) {
		if !rv.IsValid() || depth > 40 {
			return
		}
		t := rv.Type()
		if sharedByDoc(t) {
			return
		}
		switch rv.Kind() {
		case reflect.Ptr:
			if rv.IsNil() {
				return
			}
			p := rv.Pointer()
			if seen[p] {
				return
			}
			seen[p] = true
			if rv.Elem().Type().Size() > 0 {
				out[p] = path
			}
			walk(rv.Elem(), path, depth+1)
		case reflect.Interface:
			if rv.IsNil() {
				return
			}
			walk(rv.Elem(), path, depth+1)
		case reflect.Slice:
			if rv.IsNil() || rv.Cap() == 0 {
				return
			}
			if t.Elem().Size() > 0 {
				out[rv.Pointer()] = path + "[]"
			}
			for i := 0; i < rv.Len(); i++ {
				walk(rv.Index(i), fmt.Sprintf("%s[%d]", path, i), depth+1)
			}
		case reflect.Array:
			for i := 0; i < rv.Len(); i++ {
				k := rv.Index(i).Kind()
				if k != reflect.Ptr && k != reflect.Slice && k != reflect.Map && k != reflect.Interface && k != reflect.Struct {
					break
				}
				walk(rv.Index(i), fmt.Sprintf("%s[%d]", path, i), depth+1)
			}
		case reflect.Map:
			if rv.IsNil() {
				return
			}
			out[rv.Pointer()] = path + "{}"
			it := rv.MapRange()
			for it.Next() {
				walk(it.Value(), fmt.Sprintf("%s{%v}", path, it.Key()), depth+1)
			}
		case reflect.Struct:
			for i := 0; i < rv.NumField(); i++ {
				f := t.Field(i)
				if f.Tag.Get("cloneable") == "shallow" {
					continue
				}
				walk(rv.Field(i), path+"."+f.Name, depth+1)
			}
		}
	}
	walk(reflect.ValueOf(v), "", 0)
	return out
}

// SharedMemory lists memory reachable from both values.
func SharedMemory(a, b any) []string {
	ra, rb := Reach(a), Reach(b)
	var l []string
	for p, pa := range ra {
		if pb, ok := rb[p]; ok {
			l = append(l, fmt.Sprintf("%s == %s", pa, pb))
		}
	}
	sort.Strings(l)
	return l
}
