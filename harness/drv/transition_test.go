package drv

import (
	"bufio"
	"bytes"
	"encoding/json"
	"fmt"
	"math/big"
	"math/rand"
	"os"
	"runtime"
	"sort"
	"strconv"
	"strings"
	"testing"

	"perun.network/go-perun/apps/payment"
	simchannel "perun.network/go-perun/backend/sim/channel"
	simwallet "perun.network/go-perun/backend/sim/wallet"
	"perun.network/go-perun/channel"
	"perun.network/go-perun/wallet"
)

// trState is an abstract state of Transition.tla as exported by ToJson.
type trState struct {
	ID     string   `json:"id"`
	App    string   `json:"app"`
	Ver    int      `json:"ver"`
	Fin    bool     `json:"fin"`
	Assets []string `json:"assets"`
	Bals   [][]int  `json:"bals"`
	Locked []struct {
		ID   string `json:"id"`
		Bals []int  `json:"bals"`
	} `json:"locked"`
}

type trCase struct {
	Init   bool            `json:"init"`
	Cur    *trState        `json:"cur"`
	Cand   trState         `json:"cand"`
	Mutant string          `json:"mutant"`
	Expect json.RawMessage `json:"expect"`
	Why    []string        `json:"why"`
	line   string
}

type trEnv struct {
	np     int
	app    string
	accs   []*simwallet.Account
	params *channel.Params
	apps   map[string]channel.App
	assets map[string]channel.Asset
	subIDs map[string]channel.ID
}

func newTrEnv(np int, app string, seed int64) *trEnv {
	rng := rand.New(rand.NewSource(seed))
	e := &trEnv{np: np, app: app, apps: map[string]channel.App{}, assets: map[string]channel.Asset{}, subIDs: map[string]channel.ID{}}
	parts := make([]map[wallet.BackendID]wallet.Address, np)
	for i := 0; i < np; i++ {
		a := simwallet.NewRandomAccount(rng)
		e.accs = append(e.accs, a)
		parts[i] = map[wallet.BackendID]wallet.Address{channel.TestBackendID: a.Address()}
	}
	e.apps["none"] = channel.NoApp()
	e.apps["pay"] = &payment.App{ID: simchannel.NewRandomAppID(rng)}
	e.apps["pay2"] = &payment.App{ID: simchannel.NewRandomAppID(rng)}
	for _, a := range []string{"A", "B", "C", "X"} {
		e.assets[a] = simchannel.NewRandomAsset(rng)
	}
	for i, s := range []string{"s1", "s2"} {
		var id channel.ID
		id[0], id[31] = byte(0xa0+i), 0x77
		e.subIDs[s] = id
	}
	e.params = channel.NewParamsUnsafe(60, parts, e.apps[app], big.NewInt(99+seed), true, false, channel.ZeroAux)
	return e
}

// amount concretises an abstract amount: v units of 2^VERIF_SCALE_BITS (0 bits by default).
func (e *trEnv) amount(v int) channel.Bal {
	return new(big.Int).Lsh(big.NewInt(int64(v)), uint(EnvInt("VERIF_SCALE_BITS", 0)))
}

func (e *trEnv) alloc(s *trState) channel.Allocation {
	al := channel.Allocation{}
	for _, a := range s.Assets {
		al.Assets = append(al.Assets, e.assets[a])
		al.Backends = append(al.Backends, channel.TestBackendID)
	}
	al.Balances = make(channel.Balances, len(s.Bals))
	for i, row := range s.Bals {
		al.Balances[i] = make([]channel.Bal, len(row))
		for j, v := range row {
			al.Balances[i][j] = e.amount(v)
		}
	}
	for _, l := range s.Locked {
		bs := make([]channel.Bal, len(l.Bals))
		for j, v := range l.Bals {
			bs[j] = e.amount(v)
		}
		al.Locked = append(al.Locked, *channel.NewSubAlloc(e.subIDs[l.ID], bs, nil))
	}
	return al
}

func (e *trEnv) state(s *trState) *channel.State {
	id := e.params.ID()
	if s.ID != "own" {
		id[3] ^= 0x55
	}
	return &channel.State{ID: id, Version: uint64(s.Ver), App: e.apps[s.App], Allocation: e.alloc(s), Data: channel.NoData(), IsFinal: s.Fin}
}

func (e *trEnv) acc(i int) map[wallet.BackendID]wallet.Account {
	return map[wallet.BackendID]wallet.Account{channel.TestBackendID: e.accs[i]}
}

// signAll adds every participant's signature to the staged state of m (own
// through Sig, the others through AddSig).
func (e *trEnv) signAll(m *channel.StateMachine, me int) error {
	if _, err := m.Sig(); err != nil {
		return err
	}
	for i := 0; i < e.np; i++ {
		if i == me {
			continue
		}
		sig, err := channel.Sign(e.accs[i], m.StagingState(), channel.TestBackendID)
		if err != nil {
			return err
		}
		if err := m.AddSig(channel.Index(i), sig); err != nil {
			return err
		}
	}
	return nil
}

// materialise reaches cur by really performing accepted updates.
func (e *trEnv) materialise(cur *trState, me int) (*channel.StateMachine, error) {
	m, err := channel.NewStateMachine(e.acc(me), *e.params.Clone())
	if err != nil {
		return nil, err
	}
	c0 := *cur
	if err := m.Init(e.alloc(&c0), channel.NoData()); err != nil {
		return nil, fmt.Errorf("Init: %w", err)
	}
	if err := e.signAll(m, me); err != nil {
		return nil, err
	}
	if err := m.EnableInit(); err != nil {
		return nil, err
	}
	if err := m.SetFunded(); err != nil {
		return nil, err
	}
	for v := 1; v <= cur.Ver; v++ {
		st := c0
		st.Ver, st.Fin = v, cur.Fin && v == cur.Ver
		if err := m.Update(e.state(&st), channel.Index((v+me)%e.np)); err != nil {
			return nil, fmt.Errorf("Update to v%d: %w", v, err)
		}
		if err := e.signAll(m, me); err != nil {
			return nil, err
		}
		if st.Fin {
			err = m.EnableFinal()
		} else {
			err = m.EnableUpdate()
		}
		if err != nil {
			return nil, err
		}
	}
	return m, nil
}

func guard(f func() error) (err error, pan string) {
	defer func() {
		if p := recover(); p != nil {
			buf := make([]byte, 4096)
			buf = buf[:runtime.Stack(buf, false)]
			pan = fmt.Sprintf("%v @ %s", p, topFrame(string(buf)))
		}
	}()
	return f(), ""
}

func loadTrCases(path string) ([]*trCase, error) {
	f, err := os.Open(path)
	if err != nil {
		return nil, err
	}
	defer f.Close()
	var cases []*trCase
	sc := bufio.NewScanner(f)
	sc.Buffer(make([]byte, 1<<20), 1<<26)
	for sc.Scan() {
		ln := sc.Text()
		if !strings.HasPrefix(ln, "\"{") {
			continue
		}
		js, err := strconv.Unquote(ln)
		if err != nil {
			return nil, fmt.Errorf("unquote %q: %w", ln[:40], err)
		}
		c := &trCase{line: js}
		if err := json.Unmarshal([]byte(js), c); err != nil {
			return nil, fmt.Errorf("json %q: %w", js[:60], err)
		}
		cases = append(cases, c)
	}
	return cases, sc.Err()
}

// TestTransition executes the cases exported by Transition.tla (VERIF_CASES =
// TLC output file) on real state machines.
func TestTransition(t *testing.T) {
	path := os.Getenv("VERIF_CASES")
	if path == "" {
		t.Skip("VERIF_CASES not set")
	}
	np, app := EnvInt("VERIF_NP", 2), EnvStr("VERIF_APP", "none")
	res := NewResult("transition-" + app)
	defer func() {
		if err := res.Write(); err != nil {
			t.Fatal(err)
		}
	}()
	cases, err := loadTrCases(path)
	if err != nil {
		t.Fatal(err)
	}
	if only := os.Getenv("VERIF_REPLAY_LINE"); only != "" {
		c := &trCase{line: only}
		if err := json.Unmarshal([]byte(only), c); err != nil {
			t.Fatal(err)
		}
		cases = []*trCase{c}
	}
	res.Add("cases", len(cases))
	env := newTrEnv(np, app, Seed())
	// group by current state
	groups := map[string][]*trCase{}
	var keys []string
	for _, c := range cases {
		k := "init"
		if !c.Init {
			b, _ := json.Marshal(c.Cur)
			k = string(b)
		}
		if _, ok := groups[k]; !ok {
			keys = append(keys, k)
		}
		groups[k] = append(groups[k], c)
	}
	sort.Strings(keys)
	res.Add("current_states", len(keys)-1)
	Parallel(len(keys), EnvInt("VERIF_WORKERS", 16), func(gi int) {
		g := groups[keys[gi]]
		me := gi % np
		if g[0].Init {
			for _, c := range g {
				trInitCase(env, res, c, me)
			}
			return
		}
		m, err := env.materialise(g[0].Cur, me)
		if err != nil {
			res.Violate("C02", "monitor", "materialise", fmt.Sprintf("cannot reach current state %s by accepted updates: %v", keys[gi], err), replayLine(g[0], np, app))
			return
		}
		for _, c := range g {
			m = trCaseOn(env, res, c, m, me)
			if m == nil {
				if m, err = env.materialise(g[0].Cur, me); err != nil {
					return
				}
			}
		}
	})
	for i := 0; i < len(cases) && i < 3; i++ {
		var v any
		_ = json.Unmarshal([]byte(cases[(i*7919)%len(cases)].line), &v)
		res.Sample(v)
	}
}

type trReplay struct {
	Driver string `json:"driver"`
	NP     int    `json:"np"`
	App    string `json:"app"`
	Case   string `json:"case"`
	// ScaleBits: every amount of the case stands for that many units of 2^ScaleBits
	ScaleBits int `json:"scale_bits"`
}

func replayLine(c *trCase, np int, app string) any {
	return trReplay{Driver: "transition", NP: np, App: app, Case: c.line, ScaleBits: EnvInt("VERIF_SCALE_BITS", 0)}
}

func trInitCase(env *trEnv, res *Result, c *trCase, me int) {
	var expect bool
	_ = json.Unmarshal(c.Expect, &expect)
	m, err := channel.NewStateMachine(env.acc(me), *env.params.Clone())
	if err != nil {
		panic(err)
	}
	al := env.alloc(&c.Cand)
	want := env.alloc(&c.Cand)
	res.Add("evaluations", 1)
	res.Seen("case", "init|"+c.Mutant+"|"+fmt.Sprint(expect))
	err, pan := guard(func() error { return m.Init(al, channel.NoData()) })
	rp := replayLine(c, env.np, env.app)
	switch {
	case pan != "":
		res.Violate("C02", "monitor", "init-panic|"+c.Mutant, fmt.Sprintf("Init with %s allocation %v panicked: %s", c.Mutant, c.Cand.Bals, pan), rp)
	case expect && err != nil:
		res.Violate("C02", "monitor", "init-refused|"+c.Mutant, fmt.Sprintf("Init refused a well-formed allocation (%s): %v", c.Mutant, err), rp)
	case !expect && err == nil:
		res.Violate("C02", "monitor", "init-accepted|"+c.Mutant, fmt.Sprintf("Init accepted a malformed allocation (mutant %s, balances %v, %d participants)", c.Mutant, c.Cand.Bals, env.np), rp)
	case err == nil:
		st := m.StagingState()
		if st == nil || st.Version != 0 || st.ID != env.params.ID() || st.Allocation.Equal(&want) != nil || st.IsFinal {
			res.Violate("C02", "monitor", "init-state", fmt.Sprintf("Init staged %+v, want version 0, the channel id and the given allocation", st), rp)
		}
	default:
		if m.StagingState() != nil || m.Phase() != channel.InitActing {
			res.Violate("C02", "monitor", "init-refused-staged", "Init returned an error but staged a state", rp)
		}
	}
}

// trCaseOn runs one (cur, cand) case for every actor on machine m (which is at
// cur). It returns the machine to continue with (nil = rebuild).
func trCaseOn(env *trEnv, res *Result, c *trCase, m *channel.StateMachine, me int) *channel.StateMachine {
	var expect []bool
	if err := json.Unmarshal(c.Expect, &expect); err != nil {
		panic(err)
	}
	rp := replayLine(c, env.np, env.app)
	cand := env.state(&c.Cand)
	peer := (me + 1) % env.np
	var sig wallet.Sig
	if err, pan := guard(func() (e error) { sig, e = channel.Sign(env.accs[peer], cand, channel.TestBackendID); return }); err != nil || pan != "" {
		sig = bytes.Repeat([]byte{7}, 64) // candidate cannot even be encoded; it must be refused anyway
	}
	curBefore := txBytes(m.CurrentTX())
	phaseBefore := m.Phase()
	for actor := 0; actor <= env.np; actor++ {
		want := expect[actor]
		res.Add("evaluations", 1)
		res.Seen("case", fmt.Sprintf("%s|%s|%v|%s", env.app, c.Mutant, want, c.Why[actor]))
		desc := func() string {
			unit := ""
			if b := EnvInt("VERIF_SCALE_BITS", 0); b > 0 {
				unit = fmt.Sprintf(" [amounts in units of 2^%d]", b)
			}
			return fmt.Sprintf("current %+v, candidate %+v (mutant %s), actor %d%s; specification: %v (%s)", *c.Cur, c.Cand, c.Mutant, actor, unit, want, c.Why[actor])
		}
		// CheckUpdate: read-only
		err, pan := guard(func() error {
			return m.CheckUpdate(cand.Clone(), channel.Index(actor), append(wallet.Sig(nil), sig...), channel.Index(peer))
		})
		switch {
		case pan != "":
			res.Violate("C02", "monitor", "panic|CheckUpdate|"+c.Mutant, "CheckUpdate panicked: "+pan+"; "+desc(), rp)
			return nil
		case want && err != nil:
			res.Violate("C02", "monitor", "refused-valid|CheckUpdate|"+c.Mutant, fmt.Sprintf("CheckUpdate refused a valid successor: %v; %s", err, desc()), rp)
		case !want && err == nil:
			res.Violate("C02", "monitor", "accepted-invalid|CheckUpdate|"+c.Mutant+"|"+c.Why[actor], "CheckUpdate accepted an invalid successor; "+desc(), rp)
		}
		if m.StagingState() != nil || m.Phase() != phaseBefore || !bytes.Equal(curBefore, txBytes(m.CurrentTX())) {
			res.Violate("C02", "monitor", "CheckUpdate-mutates", "CheckUpdate changed the machine; "+desc(), rp)
			return nil
		}
		// Update
		arg := cand.Clone()
		err, pan = guard(func() error { return m.Update(arg, channel.Index(actor)) })
		if pan != "" {
			res.Violate("C02", "monitor", "panic|Update|"+c.Mutant, "Update panicked: "+pan+"; "+desc(), rp)
			return nil
		}
		if want && c.Cur.Fin {
			panic("specification accepts a successor of a final state")
		}
		switch {
		case want && err != nil:
			res.Violate("C02", "monitor", "refused-valid|Update|"+c.Mutant, fmt.Sprintf("Update refused a valid successor: %v; %s", err, desc()), rp)
		case !want && err == nil:
			res.Violate("C02", "monitor", "accepted-invalid|Update|"+c.Mutant+"|"+c.Why[actor], "Update accepted (staged for signing) an invalid successor; "+desc(), rp)
		}
		if err != nil {
			// refused: nothing staged, nothing signed
			if m.StagingState() != nil || m.Phase() != phaseBefore {
				res.Violate("C02", "monitor", "refused-but-staged", "Update returned an error but staged the candidate; "+desc(), rp)
				return nil
			}
			if s, serr := m.Sig(); serr == nil && s != nil {
				res.Violate("C02", "monitor", "refused-but-signed", "a signature was produced after a refused update; "+desc(), rp)
				return nil
			}
			continue
		}
		// accepted: the staged state is exactly the candidate, Sig signs exactly it
		st := m.StagingState()
		if st == nil || st.Equal(cand) != nil || !bytes.Equal(encState(st), encState(cand)) || m.Phase() != channel.Signing {
			res.Violate("C02", "monitor", "staged-other", "Update staged something else than the candidate; "+desc(), rp)
			return nil
		}
		if want {
			own, serr := m.Sig()
			if serr != nil {
				res.Violate("C02", "monitor", "sig-failed", fmt.Sprintf("Sig failed on an accepted update: %v", serr), rp)
				return nil
			}
			if ok, verr := channel.Verify(env.accs[me].Address(), cand, own); !ok || verr != nil {
				res.Violate("C02", "monitor", "sig-other", "own signature does not verify over the accepted candidate; "+desc(), rp)
			}
		}
		if derr := m.DiscardUpdate(); derr != nil {
			return nil
		}
		if !bytes.Equal(curBefore, txBytes(m.CurrentTX())) {
			res.Violate("C02", "monitor", "current-changed", "current transaction changed by Update/Discard; "+desc(), rp)
			return nil
		}
	}
	return m
}
