package drv

import (
	"context"
	"errors"
	"fmt"
	"math/big"
	"os"
	"runtime"
	"sync"
	"sync/atomic"
	"testing"
	"testing/synctest"

	"perun.network/go-perun/channel"
	"perun.network/go-perun/channel/multi"
	"perun.network/go-perun/wallet"
	"verif/harness/tla"
)

// mlID is a ledger identifier (backend id, ledger id).
type mlID struct {
	backend uint32
	lid     string
}

type mlLID string

func (l mlLID) MapKey() multi.LedgerIDMapKey { return multi.LedgerIDMapKey(l) }
func (i mlID) BackendID() uint32             { return i.backend }
func (i mlID) LedgerID() multi.LedgerID      { return mlLID(i.lid) }

// mlAsset is a multi-ledger asset of the harness.
type mlAsset struct {
	id mlID
	n  int
}

func (a *mlAsset) MarshalBinary() ([]byte, error)         { return []byte(fmt.Sprint(a.id, a.n)), nil }
func (a *mlAsset) UnmarshalBinary([]byte) error           { return nil }
func (a *mlAsset) Address() []byte                        { return []byte(fmt.Sprint(a.id, a.n)) }
func (a *mlAsset) LedgerBackendID() multi.LedgerBackendID { return a.id }
func (a *mlAsset) Equal(b channel.Asset) bool {
	o, ok := b.(*mlAsset)
	return ok && *o == *a
}

var skewSrc, skewSink atomic.Uint32

var mlLedgers = map[string]mlID{"1A": {1, "A"}, "1B": {1, "B"}, "2A": {2, "A"}}

// fakeLedger is a scripted per-ledger adjudicator and funder whose calls block
// on a gate that the driver opens in the order TLC chose.
type fakeLedger struct {
	name string
	mu   sync.Mutex
	gate chan struct{}
	fail bool
	// barrier: sub-calls released together leave it at the same instant
	spin *atomic.Int32
	need int32
	// observations
	started, finished int
	methods           []string
}

func (f *fakeLedger) call(method string) error {
	f.mu.Lock()
	f.started++
	f.methods = append(f.methods, method)
	f.mu.Unlock()
	<-f.gate
	f.mu.Lock()
	f.finished++
	spin, need := f.spin, f.need
	f.mu.Unlock()
	var ret error
	if f.fail {
		ret = errors.New("scripted failure on ledger " + f.name)
	}
	if spin != nil {
		spin.Add(1)
		for spin.Load() < need {
			runtime.Gosched()
		}
		// a few hundred nanoseconds of skew, different in every run: who returns first is not always the same
		for i, n := 0, int(skewSrc.Add(7919)%4000); i < n; i++ {
			skewSink.Add(1)
		}
	}
	return ret
}

func (f *fakeLedger) Register(context.Context, channel.AdjudicatorReq, []channel.SignedState) error {
	return f.call("Register")
}
func (f *fakeLedger) Withdraw(context.Context, channel.AdjudicatorReq, channel.StateMap) error {
	return f.call("Withdraw")
}
func (f *fakeLedger) Progress(context.Context, channel.ProgressReq) error { return f.call("Progress") }
func (f *fakeLedger) Subscribe(context.Context, channel.ID) (channel.AdjudicatorSubscription, error) {
	return nil, errors.New("not scripted")
}
func (f *fakeLedger) Fund(context.Context, channel.FundingReq) error { return f.call("Fund") }

type multiReplay struct {
	Driver   string     `json:"driver"`
	Scenario string     `json:"scenario"`
	Steps    []tla.Step `json:"steps"`
}

// runMultiPath executes one behaviour of Multi.tla (path from an initial node)
// in a synctest bubble against the real multi.Adjudicator / multi.Funder.
func runMultiPath(t *testing.T, res *Result, init *tla.Node, path []*tla.Edge) {
	sc := init.State["sc"].(tla.Rec)
	method := sc["method"].(string)
	synctest.Test(t, func(t *testing.T) {
		ledgers := map[string]*fakeLedger{}
		adj, fnd := multi.NewAdjudicator(), multi.NewFunder()
		for name, id := range mlLedgers {
			fl := &fakeLedger{name: name, gate: make(chan struct{})}
			ledgers[name] = fl
			for _, f := range sc["fail"].(tla.Set) {
				if f.(string) == name {
					fl.fail = true
				}
			}
			for _, r := range sc["reg"].(tla.Set) {
				if r.(string) == name {
					adj.RegisterAdjudicator(id, fl)
					fnd.RegisterFunder(id, fl)
				}
			}
		}
		var assets []channel.Asset
		var backends []wallet.BackendID
		var bals channel.Balances
		for i, a := range sc["assets"].(tla.Seq) {
			if a.(string) == "plain" {
				assets = append(assets, cloneAssets[0])
			} else {
				assets = append(assets, &mlAsset{id: mlLedgers[a.(string)], n: i})
			}
			backends = append(backends, channel.TestBackendID)
			bals = append(bals, []channel.Bal{big.NewInt(1), big.NewInt(1)})
		}
		st := &channel.State{Allocation: channel.Allocation{Assets: assets, Backends: backends, Balances: bals}, App: channel.NoApp(), Data: channel.NoData()}
		params := &channel.Params{ChallengeDuration: 60}
		areq := channel.AdjudicatorReq{Params: params, Tx: channel.Transaction{State: st}}
		var (
			mu       sync.Mutex
			returned bool
			retErr   error
		)
		invoke := func() {
			var err error
			switch method {
			case "Register":
				err = adj.Register(context.Background(), areq, nil)
			case "Withdraw":
				err = adj.Withdraw(context.Background(), areq, nil)
			case "Progress":
				err = adj.Progress(context.Background(), channel.ProgressReq{AdjudicatorReq: areq, NewState: st})
			default:
				if ego := int(method[len(method)-1] - '0'); method != "Fund" {
					fnd.SetEgoisticPart(ego)
				}
				err = fnd.Fund(context.Background(), channel.FundingReq{Params: params, State: st, Agreement: bals})
			}
			mu.Lock()
			returned, retErr = true, err
			mu.Unlock()
		}
		opened := map[string]bool{}
		defer func() {
			for n, l := range ledgers {
				if !opened[n] {
					close(l.gate)
				}
			}
			synctest.Wait()
		}()
		observe := func() tla.Rec {
			call, ncalls := tla.Rec{}, tla.Rec{}
			for _, n := range []string{"1A", "1B", "2A"} {
				l := ledgers[n]
				l.mu.Lock()
				c := "idle"
				switch {
				case l.started > l.finished:
					c = "running"
				case l.finished > 0 && l.fail:
					c = "failed"
				case l.finished > 0:
					c = "ok"
				}
				call[n] = c
				ncalls[n] = l.started
				l.mu.Unlock()
			}
			mu.Lock()
			r := "none"
			if returned && retErr != nil {
				r = "err"
			} else if returned {
				r = "ok"
			}
			mu.Unlock()
			return tla.Rec{"call": call, "ncalls": ncalls, "result": r}
		}
		for k, e := range path {
			res.Add("steps", 1)
			e.MarkHit()
			switch e.Act.Name {
			case "Invoke", "InvokeEgoOnly":
				go invoke()
			case "Complete":
				l := e.Act.Args[0].(string)
				opened[l] = true
				close(ledgers[l].gate)
			case "CompleteAll":
				var run []*fakeLedger
				for n, l := range ledgers {
					l.mu.Lock()
					if l.started > l.finished && !opened[n] {
						run = append(run, l)
						opened[n] = true
					}
					l.mu.Unlock()
				}
				bar := &atomic.Int32{}
				for _, l := range run {
					l.mu.Lock()
					l.spin, l.need = bar, int32(len(run))
					l.mu.Unlock()
				}
				for _, l := range run {
					close(l.gate)
				}
			}
			synctest.Wait()
			got := observe()
			want := tla.Rec{"call": e.Dst.State["call"], "ncalls": e.Dst.State["ncalls"], "result": e.Dst.State["result"]}
			if tla.String(got) == tla.String(want) {
				continue
			}
			// The per-ledger call states and counts are the property's observable at every step. For the
			// result, only its value is the property: a request that reports the same result later than the
			// specification (e.g. after waiting for the remaining sub-calls) merely deviates from the detailed
			// specification - unless nothing is running any more.
			gr, wr := got["result"].(string), want["result"].(string)
			sameCalls := tla.String(got["call"]) == tla.String(want["call"]) && tla.String(got["ncalls"]) == tla.String(want["ncalls"])
			if sameCalls && gr == "none" && wr != "none" && len(e.Dst.Out) > 0 {
				res.Add("conformance_drift_steps", 1)
				continue
			}
			res.Violate("C20", "monitor", method+"|"+e.Act.Name,
				fmt.Sprintf("scenario %s, after %s: observed %s, the specification requires %s", tla.String(sc), e.Act.Label, tla.String(got), tla.String(want)),
				multiReplay{Driver: "multi", Scenario: tla.String(sc), Steps: tla.Steps(path[:k+1])})
			return
		}
	})
}

// TestMulti replays every behaviour of the Multi.tla graph.
func TestMulti(t *testing.T) {
	dot := os.Getenv("VERIF_DOT")
	if dot == "" {
		t.Skip()
	}
	UseYieldLogger() // a log call takes time, as with a real logger
	res := NewResult("multi")
	defer func() {
		if err := res.Write(); err != nil {
			t.Fatal(err)
		}
	}()
	g, err := tla.LoadDot(dot)
	if err != nil {
		t.Fatal(err)
	}
	res.Add("graph_states", len(g.Nodes))
	res.Add("graph_edges", g.NEdges)
	res.Add("scenarios", len(g.Inits))
	shard, shards := EnvInt("VERIF_SHARD", 0), EnvInt("VERIF_SHARDS", 1)
	for i, in := range g.Inits {
		if i%shards != shard {
			continue
		}
		var rec func(n *tla.Node, path []*tla.Edge)
		rec = func(n *tla.Node, path []*tla.Edge) {
			if len(n.Out) == 0 {
				res.Add("behaviours", 1)
				runMultiPath(t, res, in, path)
				for _, e := range path { // simultaneous completions: the interleaving is the scheduler's, so several runs
					if e.Act.Name == "CompleteAll" {
						for k := 0; k < 15; k++ {
							runMultiPath(t, res, in, path)
						}
						res.Add("simultaneous_completion_behaviours", 1)
						break
					}
				}
				if res.Counts["behaviours"] <= 2 {
					res.Sample(map[string]any{"scenario": tla.String(in.State["sc"]), "steps": tla.Steps(path)})
				}
				return
			}
			for _, e := range n.Out {
				rec(e.Dst, append(append([]*tla.Edge{}, path...), e))
			}
		}
		rec(in, nil)
	}
	hit, _ := g.HitCount()
	res.Add("edges_executed", hit)
}
