package drv

import (
	"context"
	"errors"
	"fmt"
	"math/big"
	"os"
	"sort"
	"strings"
	"sync"
	"testing"
	"testing/synctest"
	"time"

	"perun.network/go-perun/channel"
	"perun.network/go-perun/wallet"
	"perun.network/go-perun/watcher"
	"perun.network/go-perun/watcher/local"
	"verif/harness/tla"
)

// wSub is a scripted adjudicator subscription.
type wSub struct {
	ev     chan channel.AdjudicatorEvent
	closed chan struct{}
	once   sync.Once
}

func (s *wSub) Next() channel.AdjudicatorEvent {
	select {
	case e := <-s.ev:
		return e
	case <-s.closed:
		return nil
	}
}
func (s *wSub) Err() error   { return nil }
func (s *wSub) Close() error { s.once.Do(func() { close(s.closed) }); return nil }

type wRegCall struct {
	p    int
	subs []string // "name:version"
}

// wRS is a scripted channel.RegisterSubscriber.
type wRS struct {
	mu       sync.Mutex
	subs     map[channel.ID]*wSub
	names    map[channel.ID]string
	calls    []wRegCall
	failNext bool
	// holdNext: the next Register call stays in progress until release is closed; its result is failHeld
	holdNext bool
	release  chan struct{}
	failHeld bool
}

func (r *wRS) Register(_ context.Context, req channel.AdjudicatorReq, subs []channel.SignedState) error {
	r.mu.Lock()
	defer r.mu.Unlock()
	c := wRegCall{p: int(req.Tx.Version)}
	for _, s := range subs {
		if s.State == nil {
			c.subs = append(c.subs, "nil:-1")
		} else {
			c.subs = append(c.subs, fmt.Sprintf("%s:%d", r.names[s.State.ID], s.State.Version))
		}
	}
	r.calls = append(r.calls, c)
	if r.holdNext {
		r.holdNext = false
		rel := make(chan struct{})
		r.release = rel
		r.mu.Unlock()
		<-rel // the call is in progress (the watcher holds the family lock)
		r.mu.Lock()
		if r.failHeld {
			return errors.New("scripted Register failure")
		}
		return nil
	}
	if r.failNext {
		return errors.New("scripted Register failure")
	}
	return nil
}

func (r *wRS) Subscribe(ctx context.Context, id channel.ID) (channel.AdjudicatorSubscription, error) {
	if err := ctx.Err(); err != nil { // as a real backend: no subscription for a caller whose context has ended
		return nil, err
	}
	r.mu.Lock()
	defer r.mu.Unlock()
	s := &wSub{ev: make(chan channel.AdjudicatorEvent, 128), closed: make(chan struct{})}
	r.subs[id] = s
	return s, nil
}

type watcherReplay struct {
	Driver string     `json:"driver"`
	Steps  []tla.Step `json:"steps"`
}

type wStep struct {
	act  *tla.Action
	post tla.Rec
}

var wParams = func() map[string]*channel.Params {
	m := map[string]*channel.Params{}
	e := NewMachineEnv(2, 0, 5)
	for i, n := range []string{"P", "S1", "S2"} {
		m[n] = channel.NewParamsUnsafe(60, e.Params.Parts, channel.NoApp(), big.NewInt(int64(1000+i)), n == "P", false, channel.ZeroAux)
	}
	return m
}()

func wState(name string, ver int, locked tla.Seq) *channel.State {
	al := channel.Allocation{
		Assets:   []channel.Asset{cloneAssets[0]},
		Backends: []wallet.BackendID{channel.TestBackendID},
		Balances: channel.Balances{{big.NewInt(5), big.NewInt(5)}},
	}
	for _, l := range locked {
		al.Locked = append(al.Locked, *channel.NewSubAlloc(wParams[l.(string)].ID(), []channel.Bal{big.NewInt(1)}, nil))
	}
	return &channel.State{ID: wParams[name].ID(), Version: uint64(ver), App: channel.NoApp(), Data: channel.NoData(), Allocation: al}
}

// runWatcherBehaviour executes one behaviour of Watcher.tla on a real
// local.Watcher in a synctest bubble. It returns a description of the first
// deviation ("" if none), the index of the failing step and a class for it.
func runWatcherBehaviour(t *testing.T, steps []wStep) (what string, at int, class string) {
	startVer := EnvInt("VERIF_START_VER", 0) // the version with which watching of every channel starts (constant Start)
	lazy := os.Getenv("VERIF_LAZY") == "1"   // the client reads its events only at the end (constant Backlog)
	wantLazy := map[string][]string{}
	defer func() {
		if p := recover(); p != nil && what == "" {
			at = len(steps) - 1
			if strings.Contains(fmt.Sprint(p), "blocked goroutines remain") {
				what, class = fmt.Sprintf("watcher goroutines remain blocked at the end of the behaviour (a leak, not what C05 states): %v", p), "leak"
			} else {
				what, class = fmt.Sprintf("a watcher call panicked: %v", p), "panic"
			}
		}
	}()
	synctest.Test(t, func(t *testing.T) {
		ctx := context.Background()
		rs := &wRS{subs: map[channel.ID]*wSub{}, names: map[channel.ID]string{}}
		for n, p := range wParams {
			rs.names[p.ID()] = n
		}
		w, _ := local.NewWatcher(rs)
		pubs := map[string]watcher.StatesPub{}
		asubs := map[string]watcher.AdjudicatorSub{}
		quiesce := func() {
			synctest.Wait()
			time.Sleep(50 * time.Millisecond)
			synctest.Wait()
		}
		var err error
		pubs["P"], asubs["P"], err = w.StartWatchingLedgerChannel(ctx, channel.SignedState{Params: wParams["P"], State: wState("P", startVer, nil)})
		if err != nil {
			t.Fatal(err)
		}
		quiesce()
		locked := tla.Seq{}
		ncalls := 0
		defer func() {
			rs.mu.Lock()
			if rs.release != nil {
				close(rs.release)
				rs.release = nil
			}
			rs.mu.Unlock()
			synctest.Wait()
			// tear down so that every goroutine of the watcher can end
			for _, n := range []string{"S1", "S2", "P"} {
				func() {
					defer func() { _ = recover() }()
					_ = w.StopWatching(ctx, wParams[n].ID())
				}()
			}
			for _, s := range rs.subs {
				s.Close()
			}
			quiesce()
		}()
		for k, st := range steps {
			a := st.act
			res := "ok"
			pan := ""
			func() {
				defer func() {
					if p := recover(); p != nil {
						pan = fmt.Sprint(p)
					}
				}()
				switch a.Name {
				case "StartSub":
					s := a.Args[0].(string)
					pub, sub, err := w.StartWatchingSubChannel(ctx, wParams["P"].ID(), channel.SignedState{Params: wParams[s], State: wState(s, startVer, nil)})
					if err != nil {
						res = "refused"
					} else {
						pubs[s], asubs[s] = pub, sub
					}
				case "StartSubFails":
					s := a.Args[0].(string)
					dead, cancelDead := context.WithCancel(ctx)
					cancelDead()
					if _, _, err := w.StartWatchingSubChannel(dead, wParams["P"].ID(), channel.SignedState{Params: wParams[s], State: wState(s, startVer, nil)}); err != nil {
						res = "refused"
					}
				case "PublishSub":
					s := a.Args[0].(string)
					v := tla.Index(st.post["latest"], s).(int)
					_ = pubs[s].Publish(ctx, channel.Transaction{State: wState(s, v, nil)})
				case "PublishParent":
					locked = a.Args[0].(tla.Seq)
					v := tla.Index(st.post["latest"], "P").(int)
					_ = pubs["P"].Publish(ctx, channel.Transaction{State: wState("P", v, locked)})
				case "ChainRegistered":
					c, v := a.Args[0].(string), a.Args[1].(int)
					rs.mu.Lock()
					rs.failNext = !a.Args[2].(bool)
					sub := rs.subs[wParams[c].ID()]
					rs.mu.Unlock()
					sub.ev <- channel.NewRegisteredEvent(wParams[c].ID(), &channel.ElapsedTimeout{}, uint64(v), wState(c, v, nil), nil)
				case "RegBegin", "EventWaits":
					c, v := a.Args[0].(string), a.Args[1].(int)
					rs.mu.Lock()
					rs.failNext = false
					rs.holdNext = a.Name == "RegBegin"
					sub := rs.subs[wParams[c].ID()]
					rs.mu.Unlock()
					sub.ev <- channel.NewRegisteredEvent(wParams[c].ID(), &channel.ElapsedTimeout{}, uint64(v), wState(c, v, nil), nil)
				case "RegEnd":
					rs.mu.Lock()
					rs.failHeld = !a.Args[0].(bool)
					rel := rs.release
					rs.release = nil
					rs.mu.Unlock()
					if rel != nil {
						close(rel)
					}
				case "ChainOther":
					c, kind, v := a.Args[0].(string), a.Args[1].(string), a.Args[2].(int)
					rs.mu.Lock()
					sub := rs.subs[wParams[c].ID()]
					rs.mu.Unlock()
					if kind == "progressed" {
						sub.ev <- channel.NewProgressedEvent(wParams[c].ID(), &channel.ElapsedTimeout{}, wState(c, v, nil), 0)
					} else {
						sub.ev <- channel.NewConcludedEvent(wParams[c].ID(), &channel.ElapsedTimeout{}, uint64(v))
					}
				case "StopWatching":
					err := w.StopWatching(ctx, wParams[a.Args[0].(string)].ID())
					switch {
					case err == nil:
					case local.IsErrSubChannelsPresent(err):
						res = "refused"
					default:
						res = "unknown"
					}
				}
			}()
			if pan != "" {
				what, at, class = fmt.Sprintf("%s panicked: %s", a.Label, pan), k, "panic|"+a.Name
				return
			}
			quiesce()
			// observe
			rs.mu.Lock()
			newCalls := append([]wRegCall{}, rs.calls[ncalls:]...)
			ncalls = len(rs.calls)
			rs.mu.Unlock()
			var relayed []string
			for _, n := range []string{"P", "S1", "S2"} {
				sub := asubs[n]
				if sub == nil || lazy {
					continue
				}
			drain:
				for {
					select {
					case e, ok := <-sub.EventStream():
						if !ok {
							delete(asubs, n)
							break drain
						}
						kind := "registered"
						switch e.(type) {
						case *channel.ProgressedEvent:
							kind = "progressed"
						case *channel.ConcludedEvent:
							kind = "concluded"
						}
						relayed = append(relayed, fmt.Sprintf("%s/%s/%d", n, kind, e.Version()))
					default:
						break drain
					}
				}
			}
			sort.Strings(relayed)
			// expected
			out := st.post["out"].(tla.Rec)
			var wantCalls []string
			for _, c := range out["reg"].(tla.Seq) {
				r := c.(tla.Rec)
				s := fmt.Sprintf("Register(P v%d", r["p"].(int))
				for _, x := range r["subs"].(tla.Seq) {
					s += fmt.Sprintf(", %s:%d", x.(tla.Seq)[0].(string), x.(tla.Seq)[1].(int))
				}
				wantCalls = append(wantCalls, s+")")
			}
			var gotCalls []string
			for _, c := range newCalls {
				s := fmt.Sprintf("Register(P v%d", c.p)
				for _, x := range c.subs {
					s += ", " + x
				}
				gotCalls = append(gotCalls, s+")")
			}
			var wantRelay []string
			for _, e := range out["relay"].(tla.Set) {
				q := e.(tla.Seq)
				wantRelay = append(wantRelay, fmt.Sprintf("%s/%s/%d", q[0].(string), q[1].(string), q[2].(int)))
			}
			sort.Strings(wantRelay)
			if lazy { // remembered per channel, compared when the client finally reads
				for _, e := range wantRelay {
					c := strings.SplitN(e, "/", 2)[0]
					wantLazy[c] = append(wantLazy[c], e)
				}
				wantRelay = nil
			}
			switch {
			case res != out["res"].(string):
				what, class = fmt.Sprintf("%s returned %q, the specification requires %q", a.Label, res, out["res"]), "result|"+a.Name
			case strings.Join(gotCalls, ";") != strings.Join(wantCalls, ";"):
				what, class = fmt.Sprintf("after %s the watcher made the calls [%s], the specification requires [%s]", a.Label, strings.Join(gotCalls, "; "), strings.Join(wantCalls, "; ")), "register|"+a.Name
			case strings.Join(relayed, ";") != strings.Join(wantRelay, ";"):
				what, class = fmt.Sprintf("after %s the watcher relayed [%s], the specification requires [%s]", a.Label, strings.Join(relayed, "; "), strings.Join(wantRelay, "; ")), "relay|"+a.Name
			}
			if what != "" {
				at = k
				return
			}
		}
		if lazy { // the client reads now: every progressed / concluded event must be there, in order
			for _, n := range []string{"P", "S1", "S2"} {
				sub := asubs[n]
				if sub == nil {
					continue
				}
				var got []string
				for len(got) < len(wantLazy[n]) {
					select {
					case e, ok := <-sub.EventStream():
						if !ok {
							break
						}
						kind := "registered"
						switch e.(type) {
						case *channel.ProgressedEvent:
							kind = "progressed"
						case *channel.ConcludedEvent:
							kind = "concluded"
						}
						got = append(got, fmt.Sprintf("%s/%s/%d", n, kind, e.Version()))
						quiesce()
						continue
					default:
					}
					break
				}
				if strings.Join(got, ";") != strings.Join(wantLazy[n], ";") {
					what, at, class = fmt.Sprintf("the client of channel %s read its events only at the end: it got %d event(s) [%s], the chain had reported %d [%s]", n, len(got), strings.Join(got, "; "), len(wantLazy[n]), strings.Join(wantLazy[n], "; ")), len(steps)-1, "relay|backlog"
					return
				}
			}
		}
	})
	return
}

func wReplayOf(steps []wStep, upto int) watcherReplay {
	r := watcherReplay{Driver: "watcher"}
	for _, s := range steps[:upto+1] {
		r.Steps = append(r.Steps, tla.Step{Action: s.act.Label, Post: tla.String(s.post)})
	}
	return r
}

// TestWatcher replays Watcher.tla behaviours: every edge of a dumped graph
// (VERIF_DOT) after its shortest path, and simulated behaviours (VERIF_SIM_DIR).
func TestWatcher(t *testing.T) {
	dot, sim := os.Getenv("VERIF_DOT"), os.Getenv("VERIF_SIM_DIR")
	if dot == "" && sim == "" {
		t.Skip()
	}
	res := NewResult("watcher")
	defer func() {
		if err := res.Write(); err != nil {
			t.Fatal(err)
		}
	}()
	report := func(steps []wStep) {
		res.Add("behaviours", 1)
		res.Add("steps", len(steps))
		what, at, class := runWatcherBehaviour(t, steps)
		if what != "" {
			kind := "monitor"
			if class == "leak" {
				kind = "conformance"
			}
			res.Violate("C05", kind, class, what, wReplayOf(steps, at))
		}
	}
	if dot != "" {
		g, err := tla.LoadDot(dot)
		if err != nil {
			t.Fatal(err)
		}
		res.Add("graph_states", len(g.Nodes))
		res.Add("graph_edges", g.NEdges)
		shard, shards := EnvInt("VERIF_SHARD", 0), EnvInt("VERIF_SHARDS", 1)
		n := 0
		for _, nd := range g.Nodes {
			path := g.PathTo(nd)
			for _, e := range nd.Out {
				n++
				if n%shards != shard {
					continue
				}
				e.MarkHit()
				var steps []wStep
				for _, pe := range append(append([]*tla.Edge{}, path...), e) {
					steps = append(steps, wStep{pe.Act, pe.Dst.State})
				}
				report(steps)
			}
		}
		// Hold graphs: what happens while a Register call is in progress is order dependent although the model's state is
		// not (an event that arrives before / after a publication leaves the same state): every PATH through such a
		// window - from its RegBegin to the RegEnd that closes it - is executed, after the shortest path to its start.
		isFree := func(nd *tla.Node) bool {
			h, ok := nd.State["held"].(tla.Rec)
			return !ok || h["c"] == "none"
		}
		wstride := EnvInt("VERIF_WINDOW_STRIDE", 1) // quick tier: every wstride-th window, offset by the seed
		woff := int(Seed()) % wstride
		var windows func(nd *tla.Node, acc []*tla.Edge, out *[][]*tla.Edge)
		windows = func(nd *tla.Node, acc []*tla.Edge, out *[][]*tla.Edge) {
			for _, e := range nd.Out {
				if e.Dst == nd {
					continue
				}
				p := append(append([]*tla.Edge{}, acc...), e)
				if isFree(e.Dst) {
					*out = append(*out, p)
				} else {
					windows(e.Dst, p, out)
				}
			}
		}
		for _, nd := range g.Nodes {
			if !isFree(nd) {
				continue
			}
			for _, e := range nd.Out {
				if e.Act.Name != "RegBegin" {
					continue
				}
				var ws [][]*tla.Edge
				windows(e.Dst, []*tla.Edge{e}, &ws)
				for _, wpath := range ws {
					n++
					if n%shards != shard || (n/shards)%wstride != woff {
						continue
					}
					var steps []wStep
					for _, pe := range append(append([]*tla.Edge{}, g.PathTo(nd)...), wpath...) {
						steps = append(steps, wStep{pe.Act, pe.Dst.State})
					}
					report(steps)
					res.Add("hold_windows", 1)
				}
			}
		}
		hit, _ := g.HitCount()
		res.Add("edges_executed", hit)
	}
	if sim != "" {
		all, err := tla.LoadSimDir(sim)
		if err != nil {
			t.Fatal(err)
		}
		for i, b := range all {
			var steps []wStep
			for _, s := range b[1:] {
				steps = append(steps, wStep{s.Act, s.State})
			}
			report(steps)
			res.Add("walks", 1)
			if i < 2 {
				var l []string
				for _, s := range steps {
					l = append(l, s.act.Label)
				}
				res.Sample(map[string]any{"kind": "simulated behaviour", "ops": l})
			}
		}
	}
}
