package drv

import (
	"bytes"
	"fmt"
	"math/big"
	"math/rand"
	"os"
	"testing"

	simwallet "perun.network/go-perun/backend/sim/wallet"
	"perun.network/go-perun/channel"
	chtest "perun.network/go-perun/channel/test"
	"perun.network/go-perun/wallet"
	"verif/harness/tla"
)

type amReplay struct {
	Driver string     `json:"driver"`
	N      int        `json:"n"`
	Me     int        `json:"me"`
	Steps  []tla.Step `json:"steps"`
}

type amRun struct {
	m    *channel.ActionMachine
	accs []*simwallet.Account
}

func newAMRun(n, me int, seed int64) *amRun {
	rng := rand.New(rand.NewSource(seed))
	var accs []*simwallet.Account
	parts := make([]map[wallet.BackendID]wallet.Address, n)
	for i := range parts {
		a := simwallet.NewRandomAccount(rng)
		accs = append(accs, a)
		parts[i] = map[wallet.BackendID]wallet.Address{channel.TestBackendID: a.Address()}
	}
	app := ctrApp{channel.NewMockApp(chtest.NewRandomAppID(rng, channel.TestBackendID))}
	p := channel.NewParamsUnsafe(60, parts, app, big.NewInt(31337), true, false, channel.ZeroAux)
	m, err := channel.NewActionMachine(map[wallet.BackendID]wallet.Account{channel.TestBackendID: accs[me]}, *p)
	if err != nil {
		panic(err)
	}
	return &amRun{m: m, accs: accs}
}

// project maps the real machine onto the variables of ActionMachine.tla (canonical string).
func (r *amRun) project() string {
	st := func(s *channel.State) string {
		if s == nil {
			return "none"
		}
		v := ""
		for _, b := range s.Balances[0] {
			v += b.String() + ","
		}
		return fmt.Sprintf("v%d[%s]", s.Version, v)
	}
	acts := ""
	for _, a := range stagedActions(r.m) {
		if a == nil {
			acts += "0,"
		} else {
			acts += fmt.Sprintf("%d,", a.(*ctrAction).N)
		}
	}
	sigs := ""
	for i, sg := range r.m.StagingTX().Sigs {
		if sg != nil {
			sigs += fmt.Sprintf("%d,", i)
		}
	}
	return fmt.Sprintf("phase=%v acts=[%s] stg=%s sigs={%s} cur=%s", r.m.Phase(), acts, st(r.m.StagingTX().State), sigs, st(r.m.CurrentTX().State))
}

// want renders a model state the same way.
func amWant(s tla.Rec, n int) string {
	st := func(v tla.Val) string {
		r := v.(tla.Rec)
		if r["ver"].(int) < 0 {
			return "none"
		}
		out := ""
		for i := 0; i < n; i++ {
			out += fmt.Sprintf("%d,", tla.Index(r["val"], i).(int))
		}
		return fmt.Sprintf("v%d[%s]", r["ver"].(int), out)
	}
	acts := ""
	for i := 0; i < n; i++ {
		acts += fmt.Sprintf("%d,", tla.Index(s["acts"], i).(int))
	}
	sigs := ""
	for i := 0; i < n; i++ {
		for _, x := range s["sigs"].(tla.Set) {
			if x.(int) == i {
				sigs += fmt.Sprintf("%d,", i)
			}
		}
	}
	return fmt.Sprintf("phase=%s acts=[%s] stg=%s sigs={%s} cur=%s", s["phase"].(string), acts, st(s["stg"]), sigs, st(s["cur"]))
}

// exec performs one operation; it returns the error of the call (panics are reported as such).
func (r *amRun) exec(a *tla.Action) (err error, pan string) {
	defer func() {
		if p := recover(); p != nil {
			pan = fmt.Sprint(p)
		}
	}()
	switch baseName(a.Name) {
	case "AddAction":
		return r.m.AddAction(channel.Index(a.Args[0].(int)), &ctrAction{N: uint64(a.Args[1].(int))}), ""
	case "Init":
		return r.m.Init(), ""
	case "Update":
		return r.m.Update(), ""
	case "Sig":
		_, err := r.m.Sig()
		return err, ""
	case "AddSig":
		j := a.Args[0].(int)
		st := r.m.StagingTX().State
		var sig wallet.Sig = bytes.Repeat([]byte{7}, 64)
		if st != nil {
			sig, _ = channel.Sign(r.accs[j], st, channel.TestBackendID)
		}
		return r.m.AddSig(channel.Index(j), sig), ""
	case "EnableInit":
		return r.m.EnableInit(), ""
	case "SetFunded":
		return r.m.SetFunded(), ""
	case "EnableUpdate":
		return r.m.EnableUpdate(), ""
	case "DiscardUpdate":
		return r.m.DiscardUpdate(), ""
	case "SetRegistered":
		return r.m.SetRegistered(), ""
	}
	return fmt.Errorf("unknown operation %s", a.Name), ""
}

// TestActionMachine executes every edge of the ActionMachine.tla graph (VERIF_DOT) on a real channel.ActionMachine.
func TestActionMachine(t *testing.T) {
	dot := os.Getenv("VERIF_DOT")
	if dot == "" {
		t.Skip()
	}
	n, me := EnvInt("VERIF_N", 2), EnvInt("VERIF_ME", 0)
	res := NewResult(fmt.Sprintf("actionmachine-N%d-Me%d", n, me))
	defer func() {
		if err := res.Write(); err != nil {
			t.Fatal(err)
		}
	}()
	g, err := tla.LoadDot(dot)
	if err != nil {
		t.Fatal(err)
	}
	res.Add("graph_states", len(g.Nodes))
	res.Add("graph_edges", g.NEdges)
	Parallel(len(g.Nodes), EnvInt("VERIF_WORKERS", 16), func(i int) {
		nd := g.Nodes[i]
		path := g.PathTo(nd)
		for _, e := range nd.Out {
			e.MarkHit()
			r := newAMRun(n, me, Seed())
			steps := append(append([]*tla.Edge{}, path...), e)
			rp := amReplay{Driver: "actionmachine", N: n, Me: me, Steps: tla.Steps(steps)}
			for _, pe := range steps {
				before := r.project()
				err, pan := r.exec(pe.Act)
				res.Add("steps", 1)
				isErr := len(pe.Act.Name) > 3 && pe.Act.Name[len(pe.Act.Name)-3:] == "Err"
				got := r.project()
				what, sig := "", ""
				switch {
				case pan != "":
					what, sig = fmt.Sprintf("%s panicked: %s", pe.Act.Label, pan), "panic|"+baseName(pe.Act.Name)
				case isErr && err == nil:
					what, sig = fmt.Sprintf("%s succeeded, the documented phase protocol refuses it (state %s)", pe.Act.Label, before), "accepted|"+baseName(pe.Act.Name)
				case !isErr && err != nil:
					what, sig = fmt.Sprintf("%s was refused (%v), the documented phase protocol allows it (state %s)", pe.Act.Label, err, before), "refused|"+baseName(pe.Act.Name)
				case isErr && got != before:
					what, sig = fmt.Sprintf("%s returned an error but changed the machine: %s -> %s", pe.Act.Label, before, got), "erratomic|"+baseName(pe.Act.Name)
				case got != amWant(pe.Dst.State, n):
					what, sig = fmt.Sprintf("after %s the machine is in %s, the specification requires %s", pe.Act.Label, got, amWant(pe.Dst.State, n)), "post|"+baseName(pe.Act.Name)
				}
				if what != "" {
					{
						res.Violate("C09", "monitor", "ActionMachine|"+sig, what, rp)
					}
					break
				}
			}
		}
	})
	hit, _ := g.HitCount()
	res.Add("edges_executed", hit)
}
