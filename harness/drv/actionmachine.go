package drv

import (
	"encoding/binary"
	"fmt"
	"math/big"
	"math/rand"
	"reflect"
	"unsafe"

	simwallet "perun.network/go-perun/backend/sim/wallet"
	"perun.network/go-perun/channel"
	chtest "perun.network/go-perun/channel/test"
	"perun.network/go-perun/wallet"
)

// ctrAction is an action with one mutable value: the leaf of a staged action.
type ctrAction struct{ N uint64 }

func (a *ctrAction) MarshalBinary() ([]byte, error) {
	b := make([]byte, 8)
	binary.LittleEndian.PutUint64(b, a.N)
	return b, nil
}

func (a *ctrAction) UnmarshalBinary(d []byte) error {
	if len(d) != 8 {
		return fmt.Errorf("ctrAction: %d bytes", len(d))
	}
	a.N = binary.LittleEndian.Uint64(d)
	return nil
}

// ctrApp is an action app that accepts every action (the actions of the participants may all differ).
type ctrApp struct{ *channel.MockApp }

func (ctrApp) ValidAction(*channel.Params, *channel.State, channel.Index, channel.Action) error {
	return nil
}
func (ctrApp) NewAction() channel.Action { return new(ctrAction) }
func (ctrApp) ApplyActions(_ *channel.Params, s *channel.State, acts []channel.Action) (*channel.State, error) {
	n := s.Clone()
	n.Version++
	for i := range n.Balances[0] { // the derived state shows the actions it was derived from
		n.Balances[0][i] = big.NewInt(0)
		if a, ok := acts[i].(*ctrAction); ok && a != nil {
			n.Balances[0][i] = new(big.Int).SetUint64(a.N)
		}
	}
	return n, nil
}
func (ctrApp) InitState(p *channel.Params, acts []channel.Action) (channel.Allocation, channel.Data, error) {
	al := channel.NewAllocation(len(p.Parts), []wallet.BackendID{channel.TestBackendID}, cloneAssets[0])
	bs := make([]channel.Bal, len(p.Parts))
	for i := range bs {
		bs[i] = big.NewInt(0)
		if a, ok := acts[i].(*ctrAction); ok && a != nil {
			bs[i] = new(big.Int).SetUint64(a.N)
		}
	}
	al.SetAssetBalances(cloneAssets[0], bs)
	return *al, channel.NoData(), nil
}

// stagedActions gives access to the (unexported) staged actions of an action machine.
func stagedActions(m *channel.ActionMachine) []channel.Action {
	v := reflect.ValueOf(m).Elem()
	f := v.FieldByName("stagingActions")
	want := reflect.TypeOf([]channel.Action(nil))
	if !f.IsValid() || f.Type() != want {
		// renamed: the only field of the machine that holds a list of actions
		f = reflect.Value{}
		for i := 0; i < v.NumField(); i++ {
			if v.Field(i).Type() == want {
				f = v.Field(i)
				break
			}
		}
	}
	if !f.IsValid() {
		panic("harness: channel.ActionMachine has no field of type []channel.Action any more")
	}
	return *(*[]channel.Action)(unsafe.Pointer(f.UnsafeAddr()))
}

// actionMachineSubjects are the ActionMachine clone subjects: machines in the initial action phase with the actions of
// some or all participants staged, all different.
func actionMachineSubjects(seed int64) []cloneSubject {
	type amShape struct {
		name  string
		parts int
		set   []bool
	}
	shapes := []amShape{{"p2_both", 2, []bool{true, true}}, {"p2_second", 2, []bool{false, true}}, {"p3_outer", 3, []bool{true, false, true}}, {"p3_all", 3, []bool{true, true, true}}}
	var subs []cloneSubject
	for _, sh := range shapes {
		sh := sh
		subs = append(subs, cloneSubject{
			Name: "ActionMachine/" + sh.name,
			Make: func() any {
				rng := rand.New(rand.NewSource(seed))
				var accs []*simwallet.Account
				parts := make([]map[wallet.BackendID]wallet.Address, sh.parts)
				for i := range parts {
					a := simwallet.NewRandomAccount(rng)
					accs = append(accs, a)
					parts[i] = map[wallet.BackendID]wallet.Address{channel.TestBackendID: wallet.CloneAddress(a.Address())}
				}
				app := ctrApp{channel.NewMockApp(chtest.NewRandomAppID(rng, channel.TestBackendID))}
				p := channel.NewParamsUnsafe(60, parts, app, big.NewInt(4242), true, false, channel.ZeroAux)
				m, err := channel.NewActionMachine(map[wallet.BackendID]wallet.Account{channel.TestBackendID: accs[0]}, *p)
				if err != nil {
					panic(err)
				}
				for i, set := range sh.set {
					if set {
						if err := m.AddAction(channel.Index(i), &ctrAction{N: uint64(10 * (i + 1))}); err != nil {
							panic(err)
						}
					}
				}
				return m
			},
			Clone: func(v any) any { return v.(*channel.ActionMachine).Clone() },
			Leaves: func(v any) map[string]leafOps {
				m := map[string]leafOps{}
				acts := stagedActions(v.(*channel.ActionMachine))
				for i := range acts {
					i := i
					if acts[i] == nil {
						continue
					}
					m[fmt.Sprintf("action.%d", i)] = leafOps{
						get:     func() *big.Int { return new(big.Int).SetUint64(acts[i].(*ctrAction).N) },
						inplace: func() { acts[i].(*ctrAction).N++ },
						slot:    func() { acts[i] = &ctrAction{N: acts[i].(*ctrAction).N + 1} },
					}
				}
				return m
			},
			Equal: func(a, b any) string {
				x, y := a.(*channel.ActionMachine), b.(*channel.ActionMachine)
				ax, ay := stagedActions(x), stagedActions(y)
				if x.Phase() != y.Phase() || x.ID() != y.ID() || x.Idx() != y.Idx() || len(ax) != len(ay) {
					return "phase, id, index or number of action slots differ"
				}
				for i := range ax {
					if (ax[i] == nil) != (ay[i] == nil) {
						return fmt.Sprintf("staged action %d is set on one side only", i)
					}
					if ax[i] != nil && ax[i].(*ctrAction).N != ay[i].(*ctrAction).N {
						return fmt.Sprintf("staged action %d is %d, the original's is %d", i, ay[i].(*ctrAction).N, ax[i].(*ctrAction).N)
					}
				}
				// equal machines derive equal initial states
				cx, cy := x.Clone(), y.Clone()
				if ex, ey := cx.Init(), cy.Init(); (ex == nil) != (ey == nil) {
					return fmt.Sprintf("Init: %v / %v", ex, ey)
				} else if ex == nil {
					if e := cx.StagingState().Equal(cy.StagingState()); e != nil {
						return "the initial states derived from the staged actions differ: " + e.Error()
					}
				}
				return ""
			},
		})
	}
	return subs
}
