// Package drv contains the Go drivers that bind the TLA+ specifications in
// /verif/spec to the real go-perun code: they execute TLC-generated behaviours
// on real objects and compare after every step, or record traces of the real
// code for validation by TLC. See /verif/DESIGN.md.
package drv

import (
	"encoding/json"
	"fmt"
	"os"
	"path/filepath"
	"sort"
	"strconv"
	"sync"
)

// Violation is one demonstrated disagreement between the real code and a
// property monitor / the specification.
type Violation struct {
	Property string `json:"property"`
	// Kind is "monitor" (the property's own observable failed on the real code)
	// or "conformance" (the code deviates from the detailed specification).
	Kind string `json:"kind"`
	// Sig is the signature used for matching known findings.
	Sig    string `json:"sig"`
	What   string `json:"what"`
	Replay string `json:"replay,omitempty"`
}

// Result is what a driver run reports to ./check.
type Result struct {
	mu         sync.Mutex
	Driver     string         `json:"driver"`
	Counts     map[string]int `json:"counts"`
	Distinct   map[string]int `json:"distinct"`
	Samples    []any          `json:"samples"`
	Violations []Violation    `json:"violations"`
	Notes      []string       `json:"notes,omitempty"`
	distinct   map[string]map[string]struct{}
	maxViol    int
	nViolSeen  map[string]int
}

// NewResult creates a result collector.
func NewResult(driver string) *Result {
	return &Result{
		Driver: driver, Counts: map[string]int{}, Distinct: map[string]int{}, Samples: []any{}, Violations: []Violation{},
		distinct: map[string]map[string]struct{}{}, maxViol: 40, nViolSeen: map[string]int{},
	}
}

// Add adds n to a named counter.
func (r *Result) Add(name string, n int) {
	r.mu.Lock()
	r.Counts[name] += n
	r.mu.Unlock()
}

// Seen records a distinct key in a named set (counted in Distinct).
func (r *Result) Seen(set, key string) {
	r.mu.Lock()
	m := r.distinct[set]
	if m == nil {
		m = map[string]struct{}{}
		r.distinct[set] = m
	}
	m[key] = struct{}{}
	r.mu.Unlock()
}

// Sample stores up to a few samples.
func (r *Result) Sample(s any) {
	r.mu.Lock()
	if len(r.Samples) < 6 {
		r.Samples = append(r.Samples, s)
	}
	r.mu.Unlock()
}

// Note adds a free-text note.
func (r *Result) Note(format string, a ...any) {
	r.mu.Lock()
	r.Notes = append(r.Notes, fmt.Sprintf(format, a...))
	r.mu.Unlock()
}

// Violate records a violation; replay is any JSON-able value written to a
// replay file under VERIF_REPLAY_DIR. At most a few violations per signature
// are kept (the first is enough to replay).
func (r *Result) Violate(prop, kind, sig, what string, replay any) {
	r.mu.Lock()
	defer r.mu.Unlock()
	key := prop + "|" + kind + "|" + sig
	r.nViolSeen[key]++
	r.Counts["violations_total"]++
	if r.nViolSeen[key] > 2 || len(r.Violations) >= r.maxViol {
		return
	}
	v := Violation{Property: prop, Kind: kind, Sig: sig, What: what}
	if replay != nil {
		dir := os.Getenv("VERIF_REPLAY_DIR")
		if dir == "" {
			dir = os.TempDir()
		}
		_ = os.MkdirAll(dir, 0o755)
		name := filepath.Join(dir, fmt.Sprintf("%s-%s-%d.json", prop, r.Driver, len(r.Violations)))
		b, _ := json.MarshalIndent(replay, "", " ")
		if err := os.WriteFile(name, b, 0o644); err == nil {
			v.Replay = name
		}
	}
	r.Violations = append(r.Violations, v)
}

// NViolations returns the number of violations recorded.
func (r *Result) NViolations() int {
	r.mu.Lock()
	defer r.mu.Unlock()
	return r.Counts["violations_total"]
}

// Write writes the result as JSON to VERIF_OUT (or stdout).
func (r *Result) Write() error {
	r.mu.Lock()
	defer r.mu.Unlock()
	for k, m := range r.distinct {
		r.Distinct[k] = len(m)
	}
	sort.Slice(r.Violations, func(i, j int) bool { return r.Violations[i].Sig < r.Violations[j].Sig })
	b, err := json.MarshalIndent(r, "", " ")
	if err != nil {
		return err
	}
	out := os.Getenv("VERIF_OUT")
	if out == "" {
		_, err = os.Stdout.Write(append(b, '\n'))
		return err
	}
	return os.WriteFile(out, b, 0o644)
}

// EnvInt reads an integer environment variable.
func EnvInt(name string, def int) int {
	if s := os.Getenv(name); s != "" {
		if n, err := strconv.Atoi(s); err == nil {
			return n
		}
	}
	return def
}

// EnvStr reads a string environment variable.
func EnvStr(name, def string) string {
	if s := os.Getenv(name); s != "" {
		return s
	}
	return def
}

// Seed returns VERIF_SEED (default 1).
func Seed() int64 { return int64(EnvInt("VERIF_SEED", 1)) }

// Thorough reports whether VERIF_TIER=thorough.
func Thorough() bool { return os.Getenv("VERIF_TIER") == "thorough" }

// Parallel runs f(i) for i in [0,n) on w workers.
func Parallel(n, w int, f func(i int)) {
	if w < 1 {
		w = 1
	}
	var wg sync.WaitGroup
	ch := make(chan int, 1024)
	for k := 0; k < w; k++ {
		wg.Add(1)
		go func() {
			defer wg.Done()
			for i := range ch {
				f(i)
			}
		}()
	}
	for i := 0; i < n; i++ {
		ch <- i
	}
	close(ch)
	wg.Wait()
}
