package drv

import (
	"runtime"

	plog "perun.network/go-perun/log"
)

// yieldStd is a logger back end that takes as long as a real one (a few scheduler rounds instead of a write): with
// go-perun's default none-logger a log call takes no time at all, which hides everything that can go wrong between the
// statements before and after it.
type yieldStd struct{}

func (yieldStd) emit() {
	for i := 0; i < 6; i++ {
		runtime.Gosched()
	}
}
func (y yieldStd) Printf(string, ...interface{}) { y.emit() }
func (y yieldStd) Print(...interface{})          { y.emit() }
func (y yieldStd) Println(...interface{})        { y.emit() }
func (y yieldStd) Fatalf(string, ...interface{}) { y.emit() }
func (y yieldStd) Fatal(...interface{})          { y.emit() }
func (y yieldStd) Fatalln(...interface{})        { y.emit() }
func (y yieldStd) Panicf(f string, a ...interface{}) {
	y.emit()
	panic(f)
}
func (y yieldStd) Panic(a ...interface{})   { y.emit(); panic(a) }
func (y yieldStd) Panicln(a ...interface{}) { y.emit(); panic(a) }

// YieldLogger is a go-perun logger on top of yieldStd that passes every level.
type YieldLogger struct{ *plog.Levellified }

func (l YieldLogger) WithField(string, interface{}) plog.Logger { return l }
func (l YieldLogger) WithFields(plog.Fields) plog.Logger        { return l }
func (l YieldLogger) WithError(error) plog.Logger               { return l }

// UseYieldLogger installs the logger for the whole process.
func UseYieldLogger() {
	plog.Set(YieldLogger{&plog.Levellified{StdLogger: yieldStd{}, Lvl: plog.TraceLevel}})
}
