package drv

import (
	"encoding/json"
	"fmt"
	"math/big"
	"os"
	"path/filepath"
	"sort"
	"strings"
	"testing"

	"verif/harness/tla"
)

func safeName(s string) string {
	return strings.NewReplacer("/", "_", ".", "_").Replace(s)
}

// TestCloneLeaves prints, per cloneable subject, the leaf names (the constant
// Leaves of Clone.tla) as JSON to VERIF_OUT.
func TestCloneLeaves(t *testing.T) {
	out := os.Getenv("VERIF_OUT")
	if out == "" {
		t.Skip()
	}
	m := map[string][]string{}
	for _, s := range CloneSubjects(Seed()) {
		var l []string
		for k := range s.Leaves(s.Make()) {
			l = append(l, k)
		}
		sort.Strings(l)
		m[safeName(s.Name)] = l
	}
	b, _ := json.Marshal(m)
	if err := os.WriteFile(out, b, 0o644); err != nil {
		t.Fatal(err)
	}
}

type cloneReplay struct {
	Driver  string     `json:"driver"`
	Subject string     `json:"subject"`
	Steps   []tla.Step `json:"steps"`
}

type cloneRun struct {
	s          cloneSubject
	orig, copy any
	base       map[string]*big.Int
}

func fnCounters(v tla.Val) map[string]int {
	m := map[string]int{}
	f := tla.AsFn(v)
	for i := range f.K {
		m[f.K[i].(string)] = f.V[i].(int)
	}
	return m
}

// check compares every leaf of one side with the model's counters.
func (r *cloneRun) check(side string, v any, counters map[string]int) string {
	leaves := r.s.Leaves(v)
	if len(leaves) != len(r.base) {
		return fmt.Sprintf("%s has %d leaves, expected %d", side, len(leaves), len(r.base))
	}
	for name, l := range leaves {
		want := new(big.Int).Add(r.base[name], big.NewInt(int64(counters[name])))
		got := l.get()
		if l.mod > 0 {
			want.Mod(want, big.NewInt(l.mod))
			got.Mod(got, big.NewInt(l.mod))
		}
		if want.Cmp(got) != 0 {
			return fmt.Sprintf("%s leaf %s = %v, the specification predicts %v", side, name, got, want)
		}
	}
	return ""
}

func (r *cloneRun) step(a *tla.Action, post tla.Rec) (what string) {
	defer func() {
		if p := recover(); p != nil {
			what = fmt.Sprintf("panic: %v", p)
		}
	}()
	mut := func(v any) {
		l := r.s.Leaves(v)[a.Args[0].(string)]
		if a.Args[1].(string) == "inplace" {
			l.inplace()
		} else {
			l.slot()
		}
	}
	switch a.Name {
	case "MutOrig":
		mut(r.orig)
	case "MutCopy":
		mut(r.copy)
	case "MakeClone":
		r.copy = r.s.Clone(r.orig)
		if e := r.s.Equal(r.orig, r.copy); e != "" {
			return "clone is not equal to its original: " + e
		}
		if sh := SharedMemory(r.orig, r.copy); len(sh) > 0 {
			return "clone shares mutable memory with its original: " + strings.Join(sh, "; ")
		}
	}
	if w := r.check("original", r.orig, fnCounters(post["orig"])); w != "" {
		return w
	}
	if post["cloned"].(bool) {
		if w := r.check("clone", r.copy, fnCounters(post["copy"])); w != "" {
			return w
		}
	}
	return ""
}

func newCloneRun(s cloneSubject) *cloneRun {
	r := &cloneRun{s: s, orig: s.Make(), base: map[string]*big.Int{}}
	for k, l := range s.Leaves(r.orig) {
		r.base[k] = l.get()
	}
	return r
}

// TestClone executes every behaviour of Clone.tla (one dumped graph per
// subject in VERIF_DOT_DIR/<subject>.dot) on real values.
func TestClone(t *testing.T) {
	dir := os.Getenv("VERIF_DOT_DIR")
	if dir == "" {
		t.Skip()
	}
	res := NewResult("clone")
	defer func() {
		if err := res.Write(); err != nil {
			t.Fatal(err)
		}
	}()
	subs := CloneSubjects(Seed())
	Parallel(len(subs), EnvInt("VERIF_WORKERS", 16), func(si int) {
		s := subs[si]
		g, err := tla.LoadDot(filepath.Join(dir, safeName(s.Name)+".dot"))
		if err != nil {
			res.Note("subject %s: %v", s.Name, err)
			res.Add("subjects_without_graph", 1)
			return
		}
		res.Add("subjects", 1)
		res.Add("graph_states", len(g.Nodes))
		res.Add("graph_edges", g.NEdges)
		// every path of the (acyclic, bounded) graph from the initial state
		var rec func(n *tla.Node, path []*tla.Edge)
		rec = func(n *tla.Node, path []*tla.Edge) {
			if len(n.Out) == 0 && len(path) > 0 {
				res.Add("behaviours", 1)
				r := newCloneRun(s)
				for i, e := range path {
					res.Add("steps", 1)
					e.MarkHit()
					if w := r.step(e.Act, e.Dst.State); w != "" {
						leaf := ""
						if len(e.Act.Args) > 0 {
							leaf = e.Act.Args[0].(string)
						}
						res.Violate("C19", "monitor", strings.Split(s.Name, "/")[0]+"|"+e.Act.Name+"|"+leafClass(leaf),
							fmt.Sprintf("%s after %s: %s", s.Name, e.Act.Label, w),
							cloneReplay{Driver: "clone", Subject: s.Name, Steps: tla.Steps(path[:i+1])})
						break
					}
				}
				return
			}
			for _, e := range n.Out {
				if e.Dst == n {
					continue
				}
				rec(e.Dst, append(path, e))
			}
		}
		rec(g.Inits[0], nil)
		hit, _ := g.HitCount()
		res.Add("edges_executed", hit)
		if si < 3 {
			res.Sample(map[string]any{"subject": s.Name, "leaves": len(newCloneRun(s).base)})
		}
	})
}

func leafClass(l string) string {
	var b strings.Builder
	for _, c := range l {
		if c >= '0' && c <= '9' {
			continue
		}
		b.WriteRune(c)
	}
	return strings.Trim(strings.ReplaceAll(b.String(), "..", "."), ".")
}
