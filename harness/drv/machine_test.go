package drv

import (
	"bytes"
	"encoding/json"
	"fmt"
	"math/rand"
	"os"
	"strings"
	"testing"

	"verif/harness/tla"
)

type machineReplay struct {
	Driver string     `json:"driver"`
	N      int        `json:"N"`
	Me     int        `json:"Me"`
	Steps  []tla.Step `json:"steps"`
}

// collectStates finds every candidate-state record inside a value.
func collectStates(v tla.Val, seen map[string]tla.Val) {
	switch x := v.(type) {
	case tla.Rec:
		if _, isSt := x["tag"]; isSt {
			if x["ver"].(int) >= 0 {
				seen[tla.String(x)] = x
			}
			return
		}
		for _, e := range x {
			collectStates(e, seen)
		}
	case tla.Fn:
		for _, e := range x.V {
			collectStates(e, seen)
		}
	case tla.Seq:
		for _, e := range x {
			collectStates(e, seen)
		}
	case tla.Set:
		for _, e := range x {
			collectStates(e, seen)
		}
	}
}

func candsOf(g *tla.Graph) []tla.Val {
	seen := map[string]tla.Val{}
	for _, a := range g.Actions {
		for _, v := range a.Args {
			collectStates(v, seen)
		}
	}
	for _, n := range g.Nodes {
		collectStates(n.State, seen)
	}
	var l []tla.Val
	for _, v := range seen {
		l = append(l, v)
	}
	return l
}

// machineExecFrom replays prefix on a fresh machine (checking every step) and
// then executes every outgoing edge of the node reached: refused operations
// back to back on the same object, state-changing ones each on a freshly
// replayed copy ("one implementation test per transition").
func machineExecFrom(env *MachineEnv, cands []tla.Val, res *Result, prefix []*tla.Edge, n *tla.Node) {
	mk := func(extra *tla.Edge) func() any {
		return func() any {
			p := append(append([]*tla.Edge{}, prefix...), extra)
			return machineReplay{Driver: "machine", N: env.N, Me: env.Me, Steps: tla.Steps(p)}
		}
	}
	build := func() *MachineRun {
		r := env.NewRun(cands)
		for i, e := range prefix {
			i := i
			if !r.Step(res, e.Act, e.Src.State, e.Dst.State, func() any {
				return machineReplay{Driver: "machine", N: env.N, Me: env.Me, Steps: tla.Steps(prefix[:i+1])}
			}) {
				return nil
			}
		}
		return r
	}
	r := build()
	if r == nil {
		return
	}
	for _, e := range n.Out {
		if e.Dst != n {
			continue
		}
		e.MarkHit()
		if !r.Step(res, e.Act, e.Src.State, e.Dst.State, mk(e)) {
			if r = build(); r == nil {
				return
			}
		}
	}
	for _, e := range n.Out {
		if e.Dst == n {
			continue
		}
		e.MarkHit()
		r2 := build()
		if r2 == nil {
			return
		}
		r2.Step(res, e.Act, e.Src.State, e.Dst.State, mk(e))
	}
}

// TestMachine drives real channel.StateMachines through the state graph of
// Machine.tla dumped by TLC (VERIF_DOT).
func TestMachine(t *testing.T) {
	dot := os.Getenv("VERIF_DOT")
	if dot == "" {
		t.Skip("VERIF_DOT not set")
	}
	n, me := EnvInt("VERIF_N", 2), EnvInt("VERIF_ME", 0)
	res := NewResult(fmt.Sprintf("machine-N%d-Me%d", n, me))
	defer func() {
		if err := res.Write(); err != nil {
			t.Fatal(err)
		}
	}()
	g, err := tla.LoadDot(dot)
	if err != nil {
		t.Fatal(err)
	}
	env := NewMachineEnv(n, me, Seed())
	cands := candsOf(g)
	for _, c := range cands {
		env.State(c)
	}
	res.Add("graph_states", len(g.Nodes))
	res.Add("graph_edges", g.NEdges)
	res.Add("candidates", len(cands))
	workers := EnvInt("VERIF_WORKERS", 16)

	// G-edge
	Parallel(len(g.Nodes), workers, func(i int) {
		nd := g.Nodes[i]
		machineExecFrom(env, cands, res, g.PathTo(nd), nd)
	})
	hit, perAct := g.HitCount()
	res.Add("gedge_edges_executed", hit)
	for k, v := range perAct {
		res.Add("edges_"+k, v)
	}

	// G-seq: every path of length < L as prefix
	L := EnvInt("VERIF_SEQLEN", 2)
	var prefixes [][]*tla.Edge
	var rec func(p []*tla.Edge, nd *tla.Node)
	rec = func(p []*tla.Edge, nd *tla.Node) {
		prefixes = append(prefixes, append([]*tla.Edge{}, p...))
		if len(p) >= L-1 {
			return
		}
		for _, e := range nd.Out {
			rec(append(p, e), e.Dst)
		}
	}
	for _, in := range g.Inits {
		rec(nil, in)
	}
	var seqPaths int
	for _, p := range prefixes {
		nd := g.Inits[0]
		if len(p) > 0 {
			nd = p[len(p)-1].Dst
		}
		seqPaths += len(nd.Out)
	}
	Parallel(len(prefixes), workers, func(i int) {
		p := prefixes[i]
		nd := g.Inits[0]
		if len(p) > 0 {
			nd = p[len(p)-1].Dst
		}
		machineExecFrom(env, cands, res, p, nd)
	})
	res.Add("gseq_len", L)
	res.Add("gseq_sequences", seqPaths)

	// G-walk
	walks, depth := EnvInt("VERIF_WALKS", 2000), EnvInt("VERIF_WALKDEPTH", 30)
	Parallel(walks, workers, func(i int) {
		rng := rand.New(rand.NewSource(Seed()*1000003 + int64(i)))
		w := g.WalkBiased(rng, depth, 0.5)
		r := env.NewRun(cands)
		for k, e := range w {
			k := k
			e.MarkHit()
			if !r.Step(res, e.Act, e.Src.State, e.Dst.State, func() any {
				return machineReplay{Driver: "machine", N: env.N, Me: env.Me, Steps: tla.Steps(w[:k+1])}
			}) {
				break
			}
		}
		if i < 2 {
			var labels []string
			for _, e := range w {
				labels = append(labels, e.Act.Label)
			}
			res.Sample(map[string]any{"kind": "walk", "N": n, "Me": me, "ops": labels, "final_state": tla.String(w[len(w)-1].Dst.State)})
		}
	})
	res.Add("walks", walks)
	hit2, _ := g.HitCount()
	res.Add("edges_executed_total", hit2)
	// sample: one edge with its predicted post-state
	for _, nd := range g.Nodes {
		if nd.Depth == 5 {
			p := g.PathTo(nd)
			res.Sample(map[string]any{"kind": "shortest-path", "steps": tla.Steps(p)})
			break
		}
	}
}

// TestMachineReplay re-executes a replay file (VERIF_REPLAY) on a fresh
// machine and reports the same violations.
func TestMachineReplay(t *testing.T) {
	path := os.Getenv("VERIF_REPLAY")
	if path == "" {
		t.Skip("VERIF_REPLAY not set")
	}
	b, err := os.ReadFile(path)
	if err != nil {
		t.Fatal(err)
	}
	var rp machineReplay
	if err := json.Unmarshal(b, &rp); err != nil {
		t.Fatal(err)
	}
	res := NewResult("machine-replay")
	defer res.Write()
	env := NewMachineEnv(rp.N, rp.Me, Seed())
	var acts []*tla.Action
	var posts []tla.Rec
	seen := map[string]tla.Val{}
	for _, s := range rp.Steps {
		name, args, err := tla.ParseAction(s.Action)
		if err != nil {
			t.Fatal(err)
		}
		acts = append(acts, &tla.Action{Label: s.Action, Name: name, Args: args})
		pv, err := tla.Parse(s.Post)
		if err != nil {
			t.Fatal(err)
		}
		posts = append(posts, pv.(tla.Rec))
		for _, v := range args {
			collectStates(v, seen)
		}
		collectStates(pv, seen)
	}
	var cands []tla.Val
	for _, v := range seen {
		cands = append(cands, v)
	}
	for _, c := range cands {
		env.State(c)
	}
	r := env.NewRun(cands)
	pre := MachineInitState(rp.N)
	for i, a := range acts {
		fmt.Printf("step %d: %s\n", i, a.Label)
		if !r.Step(res, a, pre, posts[i], func() any { return nil }) {
			break
		}
		pre = posts[i]
		st, _ := r.Project()
		fmt.Printf("   -> %s\n", stateCore(st))
	}
	for _, v := range res.Violations {
		fmt.Printf("REPRODUCED property=%s %s\n", v.Property, strings.ReplaceAll(v.What, "\n", " "))
	}
}

// TestMachineClone reaches every state of the Machine.tla graph on a real
// machine, clones it (C19), checks equality and absence of shared memory, and
// then applies every state-changing edge to one side while the other side must
// keep its projection.
func TestMachineClone(t *testing.T) {
	dot := os.Getenv("VERIF_DOT")
	if dot == "" {
		t.Skip("VERIF_DOT not set")
	}
	n, me := EnvInt("VERIF_N", 2), EnvInt("VERIF_ME", 0)
	res := NewResult(fmt.Sprintf("machineclone-N%d-Me%d", n, me))
	defer func() {
		if err := res.Write(); err != nil {
			t.Fatal(err)
		}
	}()
	g, err := tla.LoadDot(dot)
	if err != nil {
		t.Fatal(err)
	}
	env := NewMachineEnv(n, me, Seed())
	cands := candsOf(g)
	for _, c := range cands {
		env.State(c)
	}
	Parallel(len(g.Nodes), EnvInt("VERIF_WORKERS", 16), func(i int) {
		nd := g.Nodes[i]
		path := g.PathTo(nd)
		rp := func(extra ...*tla.Edge) any {
			return machineReplay{Driver: "machineclone", N: n, Me: me, Steps: tla.Steps(append(append([]*tla.Edge{}, path...), extra...))}
		}
		build := func() *MachineRun {
			r := env.NewRun(cands)
			for _, e := range path {
				r.Exec(e.Act, e.Src.State)
			}
			return r
		}
		r := build()
		cl := &MachineRun{E: env, M: r.M.Clone(), Cands: cands, Adopted: r.Adopted}
		res.Add("machine_states_cloned", 1)
		so, _ := r.Project()
		sc, _ := cl.Project()
		sig := "Machine|" + so["phase"].(string)
		if stateCore(so) != stateCore(sc) || cl.M.Idx() != r.M.Idx() || cl.M.ID() != r.M.ID() {
			res.Violate("C19", "monitor", "StateMachine|notequal", fmt.Sprintf("clone of a machine in %s is %s", stateCore(so), stateCore(sc)), rp())
			return
		}
		if !bytes.Equal(txBytes(r.M.StagingTX()), txBytes(cl.M.StagingTX())) || !bytes.Equal(txBytes(r.M.CurrentTX()), txBytes(cl.M.CurrentTX())) {
			res.Violate("C19", "monitor", "StateMachine|notequal-bytes", "clone's transactions encode differently ("+sig+")", rp())
			return
		}
		if sh := SharedMemory(r.M, cl.M); len(sh) > 0 {
			res.Violate("C19", "monitor", "StateMachine|shared", fmt.Sprintf("machine clone in phase %s shares mutable memory with its original: %s", so["phase"], strings.Join(sh, "; ")), rp())
			return
		}
		// operations on one side are not observable through the other
		for _, e := range nd.Out {
			if e.Dst == nd {
				continue
			}
			for side := 0; side < 2; side++ {
				a, b := build(), (*MachineRun)(nil)
				b = &MachineRun{E: env, M: a.M.Clone(), Cands: cands, Adopted: a.Adopted}
				if side == 1 {
					a, b = b, a
				}
				before := [2][]byte{txBytes(b.M.StagingTX()), txBytes(b.M.CurrentTX())}
				pb := b.M.Phase()
				a.Exec(e.Act, e.Src.State)
				res.Add("machine_clone_steps", 1)
				after := [2][]byte{txBytes(b.M.StagingTX()), txBytes(b.M.CurrentTX())}
				if pb != b.M.Phase() || !bytes.Equal(before[0], after[0]) || !bytes.Equal(before[1], after[1]) {
					res.Violate("C19", "monitor", "StateMachine|observable|"+baseName(e.Act.Name),
						fmt.Sprintf("%s applied to the %s changed the other machine", e.Act.Label, []string{"original", "clone"}[side]), rp(e))
				}
				st, _ := a.Project()
				if stateCore(st) != stateCore(e.Dst.State) {
					res.Violate("C19", "monitor", "StateMachine|behaves-differently|"+baseName(e.Act.Name),
						fmt.Sprintf("%s applied to the %s led to %s, not %s", e.Act.Label, []string{"original", "clone"}[side], stateCore(st), stateCore(e.Dst.State)), rp(e))
				}
			}
		}
	})
	res.Sample(map[string]any{"kind": "machine-clone", "N": n, "Me": me, "states": len(g.Nodes)})
}
