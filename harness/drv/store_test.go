package drv

import (
	"fmt"
	"math/big"
	"math/rand"
	"os"
	"sort"
	"strings"
	"testing"

	simwire "perun.network/go-perun/backend/sim/wire"
	"perun.network/go-perun/channel"
	"perun.network/go-perun/channel/persistence"
	"perun.network/go-perun/channel/persistence/keyvalue"
	"perun.network/go-perun/wallet"
	"perun.network/go-perun/wire"
	"polycry.pt/poly-go/sortedkv/memorydb"
	"verif/harness/tla"
)

// storeEnv: per channel id its own parameters (hence channel ID).
type storeEnv struct {
	envs  map[int]*MachineEnv
	peers map[string]map[wallet.BackendID]wire.Address
}

func newStoreEnv(chans []int, seed int64) *storeEnv {
	s := &storeEnv{envs: map[int]*MachineEnv{}, peers: map[string]map[wallet.BackendID]wire.Address{}}
	for _, c := range chans {
		n := 2
		if c == 2 {
			n = 10 // a power of ten: the width of the signature keys changes there
		}
		s.envs[c] = NewMachineEnv(n, c%2, seed*100+int64(c))
		// boundary ids: the key of a channel in the tables of the store ends with / starts with its id, range and prefix
		// scans meet the extreme bytes there: channel 1 gets an id that starts with 0xff, channel 3 one that starts with 0x00
		want, ok := map[int]byte{1: 0xff, 3: 0x00}[c]
		for k := int64(1); ok && s.envs[c].Params.ID()[0] != want && k < 20000; k++ {
			s.envs[c] = NewMachineEnv(n, c%2, seed*100+int64(c)+1000*k)
		}
	}
	rng := rand.New(rand.NewSource(seed))
	for _, p := range []string{"me", "p1", "p2"} {
		s.peers[p] = map[wallet.BackendID]wire.Address{channel.TestBackendID: simwire.NewRandomAddress(rng)}
	}
	return s
}

type liveChan struct {
	run    *MachineRun
	peers  []map[wallet.BackendID]wire.Address
	parent *channel.ID
	adv    int
}

type storeRun struct {
	env     *storeEnv
	kind    string
	scratch string
	db      *recDB
	cleanup func()
	pr      *keyvalue.PersistRestorer
	live    map[int]*liveChan
}

func newStoreRun(env *storeEnv, kind, scratch string) *storeRun {
	n := 0
	inner, cleanup := newStore(kind, scratch, &n)
	db := newRecDB(inner)
	return &storeRun{env: env, kind: kind, scratch: scratch, db: db, cleanup: cleanup, pr: keyvalue.NewPersistRestorer(db), live: map[int]*liveChan{}}
}

// advance performs the next step of a fixed script on the channel's persisted machine.
func (lc *liveChan) advance() error {
	e := lc.run.E
	p := lc.run.P
	sign := func() error {
		st := lc.run.M.StagingState()
		for i := 0; i < e.N; i++ {
			if i == e.Me {
				continue
			}
			sig, err := channel.Sign(e.Accs[i], st, channel.TestBackendID)
			if err != nil {
				return err
			}
			if err := p.AddSig(bg, channel.Index(i), sig); err != nil {
				return err
			}
		}
		return nil
	}
	var err error
	switch lc.adv {
	case 0:
		err = p.Init(bg, e.alloc("a", 0), channel.NoData())
	case 1:
		_, err = p.Sig(bg)
	case 2:
		err = sign()
	case 3:
		err = p.EnableInit(bg)
	case 4:
		err = p.SetFunded(bg)
	case 5:
		st := lc.run.M.State().Clone()
		st.Version++
		st.Balances[0][0].Sub(st.Balances[0][0], big.NewInt(1))
		st.Balances[0][1].Add(st.Balances[0][1], big.NewInt(1))
		err = p.Update(bg, st, 0)
	case 6:
		err = sign()
	case 7:
		_, err = p.Sig(bg)
	case 8:
		err = p.EnableUpdate(bg)
	default:
		err = fmt.Errorf("script exhausted")
	}
	lc.adv++
	return err
}

func (s *storeRun) exec(a *tla.Action) error {
	c := a.Args[0].(int)
	switch a.Name {
	case "Create":
		e := s.env.envs[c]
		lc := &liveChan{run: e.NewRun(nil)}
		for _, p := range a.Args[1].(tla.Seq) {
			lc.peers = append(lc.peers, s.env.peers[p.(string)])
		}
		if par := a.Args[2].(int); par != 0 {
			id := s.env.envs[par].Params.ID()
			lc.parent = &id
		}
		if err := s.pr.ChannelCreated(bg, lc.run.M, lc.peers, lc.parent); err != nil {
			return err
		}
		pm := persistence.FromStateMachine(lc.run.M, s.pr)
		lc.run.P = &pm
		s.live[c] = lc
	case "Advance":
		return s.live[c].advance()
	case "Remove":
		id := s.env.envs[c].Params.ID()
		delete(s.live, c)
		s.db.Reset()
		if err := s.pr.ChannelRemoved(bg, id); err != nil {
			return err
		}
		return s.torn(c)
	}
	return nil
}

// torn: the process stops between two write units of the operation on channel c that has just completed (the recorded
// intermediate contents of the store). Whatever then becomes of c - operations on one channel never change what is
// restored for another: every OTHER live channel is restored, with its own data, by RestoreChannel and by RestorePeer
// of each of its peers.
func (s *storeRun) torn(c int) error {
	units := s.db.Units
	for k := 0; k+1 < len(units); k++ {
		db2 := memorydb.NewDatabase()
		for key, v := range units[k] {
			if err := db2.Put(key, v); err != nil {
				return err
			}
		}
		pr2 := keyvalue.NewPersistRestorer(db2)
		for o, lc := range s.live {
			if o == c {
				continue
			}
			id := s.env.envs[o].Params.ID()
			ch, err := pr2.RestoreChannel(bg, id)
			if err != nil {
				return fmt.Errorf("torn: the process stops after write unit %d of %d of the operation on channel %d: RestoreChannel(%d) fails: %v", k+1, len(units), c, o, err)
			}
			if d := cmpRestored(ch, lc.run.M, lc.peers, lc.parent); d != "" {
				return fmt.Errorf("torn: the process stops after write unit %d of %d of the operation on channel %d: RestoreChannel(%d): %s", k+1, len(units), c, o, d)
			}
			for _, peer := range lc.peers {
				it, err := pr2.RestorePeer(peer)
				if err != nil {
					return fmt.Errorf("torn: RestorePeer after a torn operation on channel %d: %v", c, err)
				}
				found := false
				for it.Next(bg) {
					if it.Channel().ID() == id {
						found = cmpRestored(it.Channel(), lc.run.M, lc.peers, lc.parent) == ""
					}
				}
				_ = it.Close()
				if !found {
					return fmt.Errorf("torn: the process stops after write unit %d of %d of the operation on channel %d: RestorePeer of a peer of the untouched live channel %d does not yield it (with its own data)", k+1, len(units), c, o)
				}
			}
		}
	}
	return nil
}

func addrKey(a map[wallet.BackendID]wire.Address) string { return string(wire.Keys(a)) }

// check compares all restorer views and the raw key set with the model state.
func (s *storeRun) check(st tla.Rec, chans []int) string {
	lv := tla.AsFn(st["live"])
	modelLive := map[int]tla.Rec{}
	for i := range lv.K {
		r := lv.V[i].(tla.Rec)
		if r["adv"].(int) >= 0 {
			modelLive[lv.K[i].(int)] = r
		}
	}
	if len(modelLive) != len(s.live) {
		return "driver bookkeeping differs from the model"
	}
	idOf := map[channel.ID]int{}
	for _, c := range chans {
		idOf[s.env.envs[c].Params.ID()] = c
	}
	collect := func(it persistence.ChannelIterator, err error, what string) (map[int]bool, string) {
		if err != nil {
			return nil, what + ": " + err.Error()
		}
		got := map[int]bool{}
		// collect first, use afterwards - as client/restore.go does
		var chs []*persistence.Channel
		for it.Next(bg) {
			chs = append(chs, it.Channel())
		}
		if err := it.Close(); err != nil {
			return nil, what + " iterator error: " + err.Error()
		}
		for _, ch := range chs {
			c, ok := idOf[ch.ID()]
			if !ok {
				return nil, what + " yields an unknown channel"
			}
			if got[c] {
				return nil, fmt.Sprintf("%s yields channel %d twice", what, c)
			}
			got[c] = true
			lc := s.live[c]
			if lc == nil {
				return nil, fmt.Sprintf("%s yields channel %d, which is not live", what, c)
			}
			if d := cmpRestored(ch, lc.run.M, lc.peers, lc.parent); d != "" {
				return nil, fmt.Sprintf("%s: channel %d is restored with other data than its own: %s", what, c, d)
			}
		}
		return got, ""
	}
	// RestoreAll = live
	it, err := s.pr.RestoreAll()
	all, w := collect(it, err, "RestoreAll")
	if w != "" {
		return w
	}
	for c := range modelLive {
		if !all[c] {
			return fmt.Sprintf("RestoreAll misses live channel %d", c)
		}
	}
	if len(all) != len(modelLive) {
		return "RestoreAll yields more than the live channels"
	}
	// RestorePeer(p) = live channels that list p ; ActivePeers
	wantActive := map[string]bool{}
	for _, p := range []string{"me", "p1", "p2"} {
		it, err := s.pr.RestorePeer(s.env.peers[p])
		got, w := collect(it, err, "RestorePeer("+p+")")
		if w != "" {
			return w
		}
		want := map[int]bool{}
		for c, r := range modelLive {
			for _, q := range r["peers"].(tla.Seq) {
				if q.(string) == p {
					want[c] = true
				}
			}
		}
		if len(want) > 0 {
			wantActive[addrKey(s.env.peers[p])] = true
		}
		for c := range want {
			if !got[c] {
				return fmt.Sprintf("RestorePeer(%s) misses live channel %d", p, c)
			}
		}
		if len(got) != len(want) {
			return fmt.Sprintf("RestorePeer(%s) yields %d channels, %d live channels list this peer", p, len(got), len(want))
		}
	}
	act, err := s.pr.ActivePeers(bg)
	if err != nil {
		return "ActivePeers: " + err.Error()
	}
	gotActive := map[string]bool{}
	for _, a := range act {
		gotActive[addrKey(a)] = true
	}
	if len(gotActive) != len(wantActive) || len(act) != len(wantActive) {
		return fmt.Sprintf("ActivePeers yields %d peers (%d distinct), the live channels have %d", len(act), len(gotActive), len(wantActive))
	}
	for k := range wantActive {
		if !gotActive[k] {
			return "ActivePeers misses a peer of a live channel"
		}
	}
	// RestoreChannel defined iff live ; no key of a non-live channel
	content := s.db.Content()
	for _, c := range chans {
		id := s.env.envs[c].Params.ID()
		ch, err := s.pr.RestoreChannel(bg, id)
		if lc := s.live[c]; lc != nil {
			if err != nil {
				return fmt.Sprintf("RestoreChannel(%d) fails for a live channel: %v", c, err)
			}
			if d := cmpRestored(ch, lc.run.M, lc.peers, lc.parent); d != "" {
				return fmt.Sprintf("RestoreChannel(%d): %s", c, d)
			}
		} else {
			if err == nil {
				return fmt.Sprintf("RestoreChannel(%d) succeeds although the channel is not live", c)
			}
			for k := range content {
				if strings.Contains(k, string(id[:])) {
					return fmt.Sprintf("channel %d is not live but left key %q behind", c, strings.ReplaceAll(k, string(id[:]), "<id>"))
				}
			}
		}
	}
	if len(modelLive) == 0 && len(content) != 0 {
		return fmt.Sprintf("no live channel but %d keys in the store", len(content))
	}
	return ""
}

type storeReplay struct {
	Driver string     `json:"driver"`
	Store  string     `json:"store"`
	Steps  []tla.Step `json:"steps"`
}

// TestStore replays the Store.tla graph on a real PersistRestorer.
func TestStore(t *testing.T) {
	dot := os.Getenv("VERIF_DOT")
	if dot == "" {
		t.Skip()
	}
	kind := EnvStr("VERIF_STORE", "mem")
	scratch := EnvStr("VERIF_SCRATCH", os.TempDir())
	res := NewResult("store-" + kind)
	defer func() {
		if err := res.Write(); err != nil {
			t.Fatal(err)
		}
	}()
	g, err := tla.LoadDot(dot)
	if err != nil {
		t.Fatal(err)
	}
	res.Add("graph_states", len(g.Nodes))
	res.Add("graph_edges", g.NEdges)
	var chans []int
	lv := tla.AsFn(g.Inits[0].State["live"])
	for _, k := range lv.K {
		chans = append(chans, k.(int))
	}
	sort.Ints(chans)
	env := newStoreEnv(chans, Seed())
	runPath := func(path []*tla.Edge) {
		s := newStoreRun(env, kind, scratch)
		defer s.cleanup()
		for k, e := range path {
			e.MarkHit()
			res.Add("steps", 1)
			var w string
			if err := func() (err error) {
				defer func() {
					if p := recover(); p != nil {
						err = fmt.Errorf("panic: %v", p)
					}
				}()
				return s.exec(e.Act)
			}(); err != nil {
				w = fmt.Sprintf("%s failed: %v", e.Act.Label, err)
			} else {
				w = s.check(e.Dst.State, chans)
			}
			if w != "" {
				cls := w
				if i := strings.IndexAny(cls, ":("); i > 0 {
					cls = cls[:i]
				}
				res.Violate("C11", "monitor", e.Act.Name+"|"+cls, fmt.Sprintf("after %s: %s", e.Act.Label, w),
					storeReplay{Driver: "store", Store: kind, Steps: tla.Steps(path[:k+1])})
				return
			}
		}
	}
	stride := EnvInt("VERIF_NODE_STRIDE", 1)
	Parallel(len(g.Nodes), EnvInt("VERIF_WORKERS", 16), func(i int) {
		if i%stride != 0 {
			return
		}
		nd := g.Nodes[i]
		path := g.PathTo(nd)
		for _, e := range nd.Out {
			runPath(append(append([]*tla.Edge{}, path...), e))
		}
	})
	walks, depth := EnvInt("VERIF_WALKS", 500), EnvInt("VERIF_WALKDEPTH", 40)
	Parallel(walks, EnvInt("VERIF_WORKERS", 16), func(i int) {
		rng := rand.New(rand.NewSource(Seed()*31 + int64(i)))
		w := g.Walk(rng, depth)
		runPath(w)
		if i < 2 {
			var l []string
			for _, e := range w {
				l = append(l, e.Act.Label)
			}
			res.Sample(map[string]any{"kind": "walk", "store": kind, "ops": l})
		}
	})
	res.Add("walks", walks)
	hit, _ := g.HitCount()
	res.Add("edges_executed", hit)
}
