package drv

import (
	"context"
	"fmt"
	"os"
	"strings"
	"testing"
	"testing/synctest"

	"perun.network/go-perun/wire"
	"verif/harness/tla"
)

// rcvRun executes Receiver.tla steps on a real wire.Receiver inside a synctest bubble.
type rcvRun struct {
	r      *wire.Receiver
	envs   map[*wire.Envelope]int
	nput   int
	cancel context.CancelFunc
	res    chan int // result of the Next call in progress
	last   int
}

func (x *rcvRun) env() *wire.Envelope {
	x.nput++
	e := &wire.Envelope{Msg: wire.NewPingMsg()}
	x.envs[e] = x.nput
	return e
}

func (x *rcvRun) next(ctx context.Context) int {
	e, err := x.r.Next(ctx)
	switch {
	case err == nil && e != nil:
		return x.envs[e]
	case err != nil && strings.Contains(err.Error(), "receiver closed"):
		return -2
	case err != nil:
		return -1
	}
	return -9
}

// step executes the driver action behind a model action; it returns the observed result of a completed Next (0: none).
func (x *rcvRun) step(name string) (obs int, err string) {
	switch name {
	case "Put":
		x.r.Put(x.env())
	case "PutToWaiter":
		x.r.Put(x.env())
		synctest.Wait()
		return x.collect()
	case "NextGet":
		return x.next(context.Background()), ""
	case "NextWait":
		ctx, cancel := context.WithCancel(context.Background())
		x.cancel, x.res = cancel, make(chan int, 1)
		go func(c chan int) { c <- x.next(ctx) }(x.res)
		synctest.Wait()
		select {
		case v := <-x.res:
			x.res = nil
			return v, "the call returned although nothing is queued"
		default:
		}
	case "NextDone":
		ctx, cancel := context.WithCancel(context.Background())
		cancel()
		return x.next(ctx), ""
	case "NextClosed":
		return x.next(context.Background()), ""
	case "CancelWaiter":
		x.cancel()
		synctest.Wait()
		return x.collect()
	case "CloseWaiter":
		_ = x.r.Close()
		synctest.Wait()
		return x.collect()
	case "CancelAndPutGot", "CancelAndPutErr":
		// both before the waiting goroutine runs again: the bubble's other goroutine is durably blocked in Next, this one
		// does not yield between the two statements. A blocked select is completed by the first of the two events, so
		// their order chooses the outcome to be expected - the other one is accepted as well.
		if name == "CancelAndPutGot" {
			x.r.Put(x.env())
			x.cancel()
		} else {
			x.cancel()
			x.r.Put(x.env())
		}
		synctest.Wait()
		return x.collect()
	case "Close":
		_ = x.r.Close()
	}
	return 0, ""
}

func (x *rcvRun) collect() (int, string) {
	if x.res == nil {
		return 0, "no call in progress"
	}
	select {
	case v := <-x.res:
		x.res = nil
		return v, ""
	default:
		return 0, "the waiting Next call has not returned"
	}
}

type rcvReplay struct {
	Driver string   `json:"driver"`
	Steps  []string `json:"steps"`
}

// runReceiverPath executes a path; at the two-outcome step the implementation chooses: the path continues along the
// edge that matches what was observed. It returns false if the run left the wanted path (not a deviation).
func runReceiverPath(t *testing.T, res *Result, g *tla.Graph, path []*tla.Edge) (followed bool) {
	followed = true
	synctest.Test(t, func(t *testing.T) {
		x := &rcvRun{r: wire.NewReceiver(), envs: map[*wire.Envelope]int{}}
		defer func() {
			if x.cancel != nil {
				x.cancel()
			}
			_ = x.r.Close()
			synctest.Wait()
		}()
		var labels []string
		for _, e := range path {
			res.Add("steps", 1)
			labels = append(labels, e.Act.Label)
			obs, errs := x.step(e.Act.Name)
			want := e.Dst.State["last"].(int)
			changes := e.Act.Name != "Put" && e.Act.Name != "Close" && e.Act.Name != "NextWait" // the step completes a Next call
			if errs == "" && (!changes || obs == want) {
				e.MarkHit()
				continue
			}
			if errs == "" && strings.HasPrefix(e.Act.Name, "CancelAndPut") {
				// the other outcome: allowed if the specification has it
				for _, o := range e.Src.Out {
					if strings.HasPrefix(o.Act.Name, "CancelAndPut") && o.Dst.State["last"].(int) == obs {
						o.MarkHit()
						followed = false
						// whatever the specification says is still queued must come out now
						for cur := o.Dst; ; {
							var get *tla.Edge
							for _, c := range cur.Out {
								if c.Act.Name == "NextGet" {
									get = c
								}
							}
							if get == nil {
								return
							}
							labels = append(labels, get.Act.Label)
							done := make(chan int, 1)
							go func() { done <- x.next(context.Background()) }()
							synctest.Wait()
							got := 0
							select {
							case got = <-done:
							default:
							}
							if w := get.Dst.State["last"].(int); got != w {
								res.Violate("C18", "monitor", "receiver|lost", fmt.Sprintf("wire.Receiver after %v: Next returned %s, the specification requires %s: an envelope that was put into the open receiver and not returned is gone",
									labels, rcvRes(got), rcvRes(w)), rcvReplay{Driver: "receiver", Steps: labels})
								return
							}
							cur = get.Dst
						}
					}
				}
			}
			if errs == "" {
				errs = fmt.Sprintf("Next returned %s, the specification requires %s", rcvRes(obs), rcvRes(want))
			}
			res.Violate("C18", "monitor", "receiver|"+e.Act.Name, fmt.Sprintf("wire.Receiver after %v: %s (0: nothing; n: the n-th envelope put; queue of the specification: %s)",
				labels, errs, tla.String(e.Src.State["q"])), rcvReplay{Driver: "receiver", Steps: labels})
			followed = false
			return
		}
	})
	return
}

func rcvRes(v int) string {
	switch {
	case v > 0:
		return fmt.Sprintf("envelope %d", v)
	case v == -1:
		return "a context error"
	case v == -2:
		return "a closed error"
	}
	return "nothing"
}

// TestReceiver replays every edge of the Receiver.tla graph after its shortest path; paths through the two-outcome
// step are repeated until the implementation has taken the wanted outcome (the select statement picks at random).
func TestReceiver(t *testing.T) {
	dot := os.Getenv("VERIF_DOT")
	if dot == "" {
		t.Skip()
	}
	res := NewResult("receiver")
	defer func() {
		if err := res.Write(); err != nil {
			t.Fatal(err)
		}
	}()
	g, err := tla.LoadDot(dot)
	if err != nil {
		t.Fatal(err)
	}
	res.Add("receiver_graph_states", len(g.Nodes))
	res.Add("receiver_graph_edges", g.NEdges)
	for _, nd := range g.Nodes {
		path := g.PathTo(nd)
		for _, e := range nd.Out {
			if e.Dst == nd && e.Act.Name != "NextDone" && e.Act.Name != "NextClosed" {
				continue
			}
			full := append(append([]*tla.Edge{}, path...), e)
			ok := false
			for try := 0; try < 60 && !ok && res.NViolations() == 0; try++ {
				ok = runReceiverPath(t, res, g, full)
				res.Add("receiver_runs", 1)
			}
			if !ok && res.NViolations() == 0 {
				res.Add("receiver_paths_not_followed", 1)
			}
		}
	}
	hit, _ := g.HitCount()
	res.Add("receiver_edges_executed", hit)
}
