package drv

import (
	"encoding/json"
	"fmt"
	"math/rand"
	"os"
	"runtime"
	"strings"
	"sync"
	"sync/atomic"
	"testing"
	"testing/synctest"
	"time"

	"perun.network/go-perun/wire"
	"verif/harness/tla"

	pkgsync "polycry.pt/poly-go/sync"
)

// recConsumer is a recording wire.Consumer.
type recConsumer struct {
	pkgsync.Closer
	mu   sync.Mutex
	name string
	got  []string
	log  func(c, e string)
	nm   func(*wire.Envelope) string
}

func (c *recConsumer) Put(e *wire.Envelope) {
	n := c.nm(e)
	c.mu.Lock()
	c.got = append(c.got, n)
	c.mu.Unlock()
	if c.log != nil {
		c.log(c.name, n)
	}
}

func relayPred(p string) wire.Predicate {
	return func(e *wire.Envelope) bool {
		switch e.Msg.Type() {
		case wire.Ping:
			return strings.Contains(p, "A")
		case wire.Pong:
			return strings.Contains(p, "B")
		}
		return false
	}
}

// relayWorld is a real relay with recording consumers and default handler.
type relayWorld struct {
	r      *wire.Relay
	envs   map[string]*wire.Envelope
	names  map[*wire.Envelope]string
	cons   map[string]*recConsumer
	cpreds map[string]*wire.Predicate
	mu     sync.Mutex
	dflt   []string
	gate   *relayGate
}

// relayGate holds the first goroutine that evaluates a predicate of the given kind ("cache": a cache predicate, i.e.
// inside Put between the scan of the consumers and the insertion into the cache; "cons": a consumer's predicate, i.e.
// inside the scan) until it is released. Predicates are user code called by the relay: a natural scheduling point that
// needs no hook in the library. The gate only steers the interleaving; verdicts come from the recorded trace.
type relayGate struct {
	kind    string
	fired   int32
	reached chan struct{}
	release chan struct{}
}

func (w *relayWorld) hit(kind string) {
	g := w.gate
	if g == nil || g.kind != kind || !atomic.CompareAndSwapInt32(&g.fired, 0, 1) {
		return
	}
	close(g.reached)
	<-g.release
}

func (w *relayWorld) pred(kind, p string) wire.Predicate {
	base := relayPred(p)
	return func(e *wire.Envelope) bool {
		w.hit(kind)
		return base(e)
	}
}

func newRelayWorld(envNames, consNames []string, log func(c, e string)) *relayWorld {
	w := &relayWorld{r: wire.NewRelay(), envs: map[string]*wire.Envelope{}, names: map[*wire.Envelope]string{},
		cons: map[string]*recConsumer{}, cpreds: map[string]*wire.Predicate{}}
	for _, n := range envNames {
		var m wire.Msg = wire.NewPingMsg()
		if n[0] == 'b' {
			m = wire.NewPongMsg()
		}
		e := &wire.Envelope{Msg: m}
		w.envs[n], w.names[e] = e, n
	}
	nm := func(e *wire.Envelope) string { return w.names[e] }
	for _, n := range consNames {
		w.cons[n] = &recConsumer{name: n, nm: nm, log: log}
	}
	for _, k := range []string{"A", "AB"} {
		p := w.pred("cache", k)
		w.cpreds[k] = &p
	}
	w.r.SetDefaultMsgHandler(func(e *wire.Envelope) {
		w.mu.Lock()
		w.dflt = append(w.dflt, nm(e))
		w.mu.Unlock()
		if log != nil {
			log("default", nm(e))
		}
	})
	return w
}

// exec executes one Relay.tla operation; returns "ok" / "err".
func (w *relayWorld) exec(a *tla.Action) string {
	switch a.Name {
	case "Put":
		w.r.Put(w.envs[a.Args[0].(string)])
	case "Subscribe":
		if err := w.r.Subscribe(w.cons[a.Args[0].(string)], w.pred("cons", a.Args[1].(string))); err != nil {
			return "err"
		}
	case "CachePred":
		w.r.Cache(w.cpreds[a.Args[0].(string)])
	case "ReleasePred":
		w.r.ReleaseCache(w.cpreds[a.Args[0].(string)])
	case "CloseConsumer":
		_ = w.cons[a.Args[0].(string)].Close()
	case "CloseRelay":
		if err := w.r.Close(); err != nil {
			return "err"
		}
	}
	return "ok"
}

type relayReplay struct {
	Driver string     `json:"driver"`
	Steps  []tla.Step `json:"steps"`
}

// TestRelaySeq replays every sequential history of the Relay.tla graph on a real wire.Relay.
func TestRelaySeq(t *testing.T) {
	dot := os.Getenv("VERIF_DOT")
	if dot == "" {
		t.Skip()
	}
	res := NewResult("relayseq")
	defer func() {
		if err := res.Write(); err != nil {
			t.Fatal(err)
		}
	}()
	g, err := tla.LoadDot(dot)
	if err != nil {
		t.Fatal(err)
	}
	res.Add("graph_states", len(g.Nodes))
	res.Add("graph_edges", g.NEdges)
	var envNames, consNames []string
	for _, a := range g.Actions {
		if a.Name == "Put" {
			envNames = append(envNames, a.Args[0].(string))
		}
		if a.Name == "CloseConsumer" {
			consNames = append(consNames, a.Args[0].(string))
		}
	}
	shard, shards := EnvInt("VERIF_SHARD", 0), EnvInt("VERIF_SHARDS", 1)
	n := 0
	for _, nd := range g.Nodes {
		prefix := g.PathTo(nd)
		for _, last := range nd.Out {
			n++
			if n%shards != shard {
				continue
			}
			last.MarkHit()
			path := append(append([]*tla.Edge{}, prefix...), last)
			res.Add("behaviours", 1)
			func() {
				defer func() {
					if p := recover(); p != nil {
						kind, sig := "monitor", "panic"
						if strings.Contains(fmt.Sprint(p), "blocked goroutines remain") { // a leak is not what C18 states
							kind, sig = "conformance", "leftover-goroutines"
						}
						res.Violate("C18", kind, sig, fmt.Sprintf("relay history ends with: %v", p),
							relayReplay{Driver: "relayseq", Steps: tla.Steps(path)})
					}
				}()
				synctest.Test(t, func(t *testing.T) {
					w := newRelayWorld(envNames, consNames, nil)
					defer func() {
						for _, c := range w.cons {
							_ = c.Close()
						}
						synctest.Wait()
					}()
					for k, e := range path {
						res.Add("steps", 1)
						r := w.exec(e.Act)
						synctest.Wait()
						what := ""
						if want := e.Dst.State["res"].(string); r != want {
							what = fmt.Sprintf("%s returned %s, the specification requires %s", e.Act.Label, r, want)
						}
						gotM := e.Dst.State["got"].(tla.Rec)
						for cn, c := range w.cons {
							c.mu.Lock()
							have := strings.Join(c.got, ",")
							c.mu.Unlock()
							var l []string
							for _, x := range gotM[cn].(tla.Seq) {
								l = append(l, x.(string))
							}
							if want := strings.Join(l, ","); have != want && what == "" {
								what = fmt.Sprintf("after %s consumer %s was handed [%s], the specification requires [%s]", e.Act.Label, cn, have, want)
							}
						}
						w.mu.Lock()
						haveD := map[string]int{}
						for _, x := range w.dflt {
							haveD[x]++
						}
						w.mu.Unlock()
						wantD := e.Dst.State["dflt"].(tla.Set)
						okD := len(haveD) == len(wantD)
						for _, x := range wantD {
							if haveD[x.(string)] != 1 {
								okD = false
							}
						}
						if !okD && what == "" {
							what = fmt.Sprintf("after %s the default handler got %v, the specification requires %s", e.Act.Label, haveD, tla.String(wantD))
						}
						if what != "" {
							res.Violate("C18", "monitor", "seq|"+e.Act.Name, what, relayReplay{Driver: "relayseq", Steps: tla.Steps(path[:k+1])})
							return
						}
					}
				})
			}()
		}
	}
	hit, _ := g.HitCount()
	res.Add("edges_executed", hit)
	res.Sample(map[string]any{"kind": "sequential history", "steps": tla.Steps(g.PathTo(g.Nodes[len(g.Nodes)/2]))})
}

// ---------------------------------------------------------------------------
// Concurrent executions: recorded traces for RelayTrace.tla (R3) and a
// free-running stress run with the exactly-once accounting monitor.
// ---------------------------------------------------------------------------

type relayEvent struct {
	Ev   string              `json:"ev"`
	ID   int                 `json:"id,omitempty"`
	Op   string              `json:"op,omitempty"`
	A1   string              `json:"a1"`
	A2   string              `json:"a2"`
	Res  string              `json:"res,omitempty"`
	Got  map[string][]string `json:"got,omitempty"`
	Dflt []string            `json:"dflt"`
	Cch  []string            `json:"cache"`
}

type relayLog struct {
	mu  sync.Mutex
	evs []relayEvent
	id  int
}

func (l *relayLog) call(op, a1, a2 string) int {
	l.mu.Lock()
	defer l.mu.Unlock()
	l.id++
	l.evs = append(l.evs, relayEvent{Ev: "call", ID: l.id, Op: op, A1: a1, A2: a2, Dflt: []string{}, Cch: []string{}})
	return l.id
}

func (l *relayLog) ret(id int, res string) {
	l.mu.Lock()
	defer l.mu.Unlock()
	l.evs = append(l.evs, relayEvent{Ev: "ret", ID: id, Res: res, Dflt: []string{}, Cch: []string{}})
}

// waitSettled waits (real time, bounded) until every put envelope is accounted
// for at a consumer or the default handler, i.e. asynchronous hand-overs ended.
func (w *relayWorld) waitSettled(put map[string]bool) {
	for i := 0; i < 400; i++ {
		seen := map[string]bool{}
		for _, c := range w.cons {
			c.mu.Lock()
			for _, e := range c.got {
				seen[e] = true
			}
			c.mu.Unlock()
		}
		w.mu.Lock()
		for _, e := range w.dflt {
			seen[e] = true
		}
		w.mu.Unlock()
		all := true
		for e := range put {
			if !seen[e] {
				all = false
			}
		}
		if all {
			return
		}
		time.Sleep(5 * time.Millisecond)
	}
}

// relayPanic holds the first panic raised by an operation on the relay in a concurrent run.
var relayPanic struct {
	mu   sync.Mutex
	what string
}

func relayRunConcurrent(rng *rand.Rand, nWorkers, opsPerWorker int, log *relayLog, steer ...string) (w *relayWorld, put map[string]bool, consNames []string) {
	var envNames []string
	for i := 1; i <= nWorkers*opsPerWorker; i++ {
		envNames = append(envNames, fmt.Sprintf("a%d", i), fmt.Sprintf("b%d", i))
	}
	for i := 1; i <= nWorkers*2; i++ {
		consNames = append(consNames, fmt.Sprintf("c%d", i))
	}
	consNames = append(consNames, "cz")
	w = newRelayWorld(envNames, consNames, nil)
	if len(steer) > 0 && steer[0] != "" {
		w.gate = &relayGate{kind: steer[0], reached: make(chan struct{}), release: make(chan struct{})}
	}
	put = map[string]bool{}
	var putMu sync.Mutex
	do := func(op, a1, a2 string) {
		id := 0
		if log != nil {
			id = log.call(op, a1, a2)
		}
		var args []tla.Val
		for _, a := range []string{a1, a2} {
			if a != "" {
				args = append(args, a)
			}
		}
		r := func() (r string) {
			defer func() {
				if p := recover(); p != nil {
					buf := make([]byte, 4096)
					buf = buf[:runtime.Stack(buf, false)]
					relayPanic.mu.Lock()
					if relayPanic.what == "" {
						relayPanic.what = fmt.Sprintf("%s(%s %s) panicked: %v @ %s", op, a1, a2, p, topFrame(string(buf)))
					}
					relayPanic.mu.Unlock()
					r = "panic"
				}
			}()
			return w.exec(&tla.Action{Name: op, Args: args})
		}()
		if log != nil {
			log.ret(id, r)
		}
	}
	// scripts are drawn before the run so that they are a function of the seed only
	type op struct{ op, a1, a2 string }
	scripts := make([][]op, nWorkers)
	envNo := 0
	for k := 0; k < nWorkers; k++ {
		myCons := []string{consNames[2*k], consNames[2*k+1]}
		state := []int{0, 0} // 0 fresh, 1 subscribed, 2 closed
		cacheOn := map[string]bool{}
		for i := 0; i < opsPerWorker; i++ {
			switch c := rng.Intn(10); {
			case c < 5:
				envNo++
				scripts[k] = append(scripts[k], op{"Put", fmt.Sprintf("%c%d", "ab"[rng.Intn(2)], envNo), ""})
			case c < 7:
				j := rng.Intn(2)
				if state[j] == 0 {
					state[j] = 1
					scripts[k] = append(scripts[k], op{"Subscribe", myCons[j], []string{"A", "B", "AB"}[rng.Intn(3)]})
				} else if state[j] == 1 {
					state[j] = 2
					scripts[k] = append(scripts[k], op{"CloseConsumer", myCons[j], ""})
				}
			default:
				if k == 0 { // one worker toggles the cache predicates
					key := []string{"A", "AB"}[rng.Intn(2)]
					if cacheOn[key] {
						scripts[k] = append(scripts[k], op{"ReleasePred", key, ""})
					} else {
						scripts[k] = append(scripts[k], op{"CachePred", key, ""})
					}
					cacheOn[key] = !cacheOn[key]
				} else {
					envNo++
					scripts[k] = append(scripts[k], op{"Put", fmt.Sprintf("%c%d", "ab"[rng.Intn(2)], envNo), ""})
				}
			}
		}
	}
	var wg sync.WaitGroup
	start := make(chan struct{})
	for k := 0; k < nWorkers; k++ {
		wg.Add(1)
		go func(k int) {
			defer wg.Done()
			<-start
			for _, o := range scripts[k] {
				if o.op == "Put" {
					putMu.Lock()
					put[o.a1] = true
					putMu.Unlock()
				}
				do(o.op, o.a1, o.a2)
			}
		}(k)
	}
	close(start)
	if g := w.gate; g != nil {
		// one operation is held inside a predicate while the others run on; then it is let go
		select {
		case <-g.reached:
			time.Sleep(time.Duration(200+rng.Intn(1800)) * time.Microsecond)
		case <-time.After(20 * time.Millisecond):
		}
		close(g.release)
	}
	wg.Wait()
	// drain the cache into a final catch-all consumer; whatever it gets had been cached
	do("Subscribe", "cz", "AB")
	w.waitSettled(put)
	return w, put, consNames
}

// relayRaceOp is one operation of a two-operation race scenario.
type relayRaceOp struct{ op, a1, a2 string }

// relayRaces enumerates the race scenarios: a prelude executed sequentially, one operation (a Put) that is held at a
// gate - inside the evaluation of a cache predicate (between the scan of the consumers and the cache insertion) or of a
// consumer's predicate (inside the scan) - and a second operation issued while the first one is held.
func relayRaces() (out []struct {
	prelude     []relayRaceOp
	held, other relayRaceOp
	gate        string
}) {
	preludes := [][]relayRaceOp{
		{{"CachePred", "A", ""}},
		{{"CachePred", "AB", ""}, {"Subscribe", "c1", "B"}},
		{{"Subscribe", "c1", "B"}},
		{{"Subscribe", "c1", "A"}},
		{{"CachePred", "A", ""}, {"Subscribe", "c1", "A"}, {"CloseConsumer", "c1", ""}},
		{{"CachePred", "A", ""}, {"Put", "a3", ""}},
	}
	others := []relayRaceOp{{"Subscribe", "c2", "A"}, {"Subscribe", "c2", "B"}, {"Subscribe", "c2", "AB"}, {"Put", "a2", ""}, {"Put", "b1", ""},
		{"CachePred", "AB", ""}, {"CachePred", "A", ""}, {"ReleasePred", "A", ""}, {"ReleasePred", "AB", ""}, {"CloseConsumer", "c1", ""}}
	for _, pre := range preludes {
		for _, gate := range []string{"cache", "cons"} {
			for _, held := range []relayRaceOp{{"Put", "a1", ""}, {"Put", "b2", ""}} {
				for _, o := range others {
					// the alphabet of Relay.tla: a cache predicate is enabled once and released only when enabled,
					// a consumer is closed once
					cacheOn, closed := map[string]bool{}, map[string]bool{}
					for _, x := range pre {
						switch x.op {
						case "CachePred":
							cacheOn[x.a1] = true
						case "CloseConsumer":
							closed[x.a1] = true
						}
					}
					if (o.op == "CachePred" && cacheOn[o.a1]) || (o.op == "ReleasePred" && !cacheOn[o.a1]) || (o.op == "CloseConsumer" && closed[o.a1]) {
						continue
					}
					out = append(out, struct {
						prelude     []relayRaceOp
						held, other relayRaceOp
						gate        string
					}{pre, held, o, gate})
				}
			}
		}
	}
	return
}

// relayRunRace executes one race scenario on a real relay and records it like a concurrent run.
func relayRunRace(prelude []relayRaceOp, held, other relayRaceOp, gate string, log *relayLog, consNames []string) (w *relayWorld, put map[string]bool, gated bool) {
	envNames := []string{"a1", "a2", "a3", "b1", "b2"}
	w = newRelayWorld(envNames, consNames, nil)
	put = map[string]bool{}
	do := func(o relayRaceOp) {
		if o.op == "Put" {
			put[o.a1] = true
		}
		id := log.call(o.op, o.a1, o.a2)
		var args []tla.Val
		for _, a := range []string{o.a1, o.a2} {
			if a != "" {
				args = append(args, a)
			}
		}
		r := func() (r string) {
			defer func() {
				if p := recover(); p != nil {
					r = "panic"
				}
			}()
			return w.exec(&tla.Action{Name: o.op, Args: args})
		}()
		log.ret(id, r)
	}
	for _, o := range prelude {
		do(o)
	}
	put[held.a1] = true
	if other.op == "Put" {
		put[other.a1] = true
	}
	w.gate = &relayGate{kind: gate, reached: make(chan struct{}), release: make(chan struct{})}
	d1, d2 := make(chan struct{}), make(chan struct{})
	go func() { defer close(d1); do(held) }()
	select {
	case <-w.gate.reached:
		gated = true
	case <-d1:
	case <-time.After(50 * time.Millisecond):
	}
	go func() { defer close(d2); do(other) }()
	select { // the second operation completes - or waits for the first one, which the relay's locks decide
	case <-d2:
	case <-time.After(3 * time.Millisecond):
	}
	close(w.gate.release)
	<-d1
	<-d2
	do(relayRaceOp{"Subscribe", "cz", "AB"})
	w.waitSettled(put)
	return
}

// relayAccount is the exactly-once accounting monitor: it needs no knowledge
// of the schedule. It returns "" or a description of an impossible observation.
func relayAccount(w *relayWorld, put map[string]bool, preds map[string]string) string {
	places := map[string]int{}
	for cn, c := range w.cons {
		c.mu.Lock()
		cnt := map[string]int{}
		for _, e := range c.got {
			cnt[e]++
		}
		c.mu.Unlock()
		for e, n := range cnt {
			if n > 1 {
				return fmt.Sprintf("envelope %s was handed %d times to consumer %s", e, n, cn)
			}
			if !put[e] {
				return fmt.Sprintf("consumer %s got envelope %s that was never put", cn, e)
			}
			if p, ok := preds[cn]; ok && !strings.Contains(strings.ToLower(p), e[:1]) {
				return fmt.Sprintf("consumer %s (predicate %s) was handed envelope %s, which its predicate rejects", cn, p, e)
			}
			places[e] |= 1
		}
	}
	w.mu.Lock()
	defer w.mu.Unlock()
	cnt := map[string]int{}
	for _, e := range w.dflt {
		cnt[e]++
	}
	for e, n := range cnt {
		if n > 1 {
			return fmt.Sprintf("envelope %s went %d times to the default handler", e, n)
		}
		if places[e] != 0 {
			return fmt.Sprintf("envelope %s went to the default handler AND to a consumer", e)
		}
		places[e] |= 2
	}
	for e := range put {
		if places[e] == 0 {
			return fmt.Sprintf("envelope %s was put into the open relay and reached nobody (no consumer, not cached, no default handler): lost", e)
		}
	}
	return ""
}

// TestRelayTrace records concurrent executions of a real relay as ndjson for RelayTrace.tla.
func TestRelayTrace(t *testing.T) {
	out := os.Getenv("VERIF_TRACE_OUT")
	if out == "" {
		t.Skip()
	}
	res := NewResult("relaytrace")
	defer func() {
		if err := res.Write(); err != nil {
			t.Fatal(err)
		}
	}()
	f, err := os.Create(out)
	if err != nil {
		t.Fatal(err)
	}
	defer f.Close()
	enc := json.NewEncoder(f)
	traces := EnvInt("VERIF_TRACES", 100)
	workers, ops := EnvInt("VERIF_TRACE_WORKERS", 3), EnvInt("VERIF_TRACE_OPS", 5)
	lines := 0
	for i := 0; i < traces; i++ {
		rng := rand.New(rand.NewSource(Seed()*104729 + int64(i)))
		log := &relayLog{}
		steer := ""
		if k := EnvInt("VERIF_TRACE_STEER_EVERY", 0); k > 0 && i%k == k-1 { // thorough tier: some random runs with one operation held at a gate
			steer = []string{"cache", "cons"}[(i/k)%2]
		}
		w, put, consNames := relayRunConcurrent(rng, workers, ops, log, steer)
		if steer != "" && w.gate != nil && atomic.LoadInt32(&w.gate.fired) == 1 {
			res.Add("steered_"+steer, 1)
		}
		fin := relayEvent{Ev: "final", Got: map[string][]string{}, Dflt: []string{}, Cch: []string{}}
		for _, cn := range consNames {
			c := w.cons[cn]
			c.mu.Lock()
			fin.Got[cn] = append([]string{}, c.got...)
			c.mu.Unlock()
		}
		w.mu.Lock()
		fin.Dflt = append(fin.Dflt, w.dflt...)
		w.mu.Unlock()
		if what := relayAccount(w, put, nil); what != "" {
			res.Violate("C18", "monitor", "account|"+strings.Fields(what)[2], what, map[string]any{"driver": "relaytrace", "trace": i, "events": log.evs})
		}
		for _, e := range log.evs {
			_ = enc.Encode(e)
			lines++
		}
		_ = enc.Encode(fin)
		_ = enc.Encode(relayEvent{Ev: "reset", Dflt: []string{}, Cch: []string{}})
		lines += 2
		for _, c := range w.cons {
			_ = c.Close()
		}
		res.Add("ops", len(log.evs)/2)
		if i == 0 {
			res.Sample(map[string]any{"kind": "recorded concurrent trace", "events": log.evs})
		}
	}
	// race scenarios: two operations, the first held at a gate while the second is issued
	races := relayRaces()
	reps := EnvInt("VERIF_RACE_REPS", 1)
	for rep := 0; rep < reps; rep++ {
		for i, rc := range races {
			log := &relayLog{}
			var consNames []string
			for k := 1; k <= workers*2; k++ {
				consNames = append(consNames, fmt.Sprintf("c%d", k))
			}
			consNames = append(consNames, "cz")
			w, put, gated := relayRunRace(rc.prelude, rc.held, rc.other, rc.gate, log, consNames)
			if gated {
				res.Add("races_gated", 1)
			}
			fin := relayEvent{Ev: "final", Got: map[string][]string{}, Dflt: []string{}, Cch: []string{}}
			for _, cn := range consNames {
				c := w.cons[cn]
				c.mu.Lock()
				fin.Got[cn] = append([]string{}, c.got...)
				c.mu.Unlock()
			}
			w.mu.Lock()
			fin.Dflt = append(fin.Dflt, w.dflt...)
			w.mu.Unlock()
			if what := relayAccount(w, put, nil); what != "" {
				res.Violate("C18", "monitor", "account|"+strings.Fields(what)[2], what, map[string]any{"driver": "relayrace", "race": i, "events": log.evs})
			}
			for _, e := range log.evs {
				_ = enc.Encode(e)
				lines++
			}
			_ = enc.Encode(fin)
			_ = enc.Encode(relayEvent{Ev: "reset", Dflt: []string{}, Cch: []string{}})
			lines += 2
			for _, c := range w.cons {
				_ = c.Close()
			}
			res.Add("races", 1)
			if rep == 0 && i == 0 {
				res.Sample(map[string]any{"kind": "recorded race scenario", "gate": rc.gate, "events": log.evs})
			}
		}
	}
	res.Add("traces", traces)
	res.Add("trace_lines", lines)
}

// TestRelayStress runs many producers / subscribers concurrently and applies the accounting monitor.
func TestRelayStress(t *testing.T) {
	rounds := EnvInt("VERIF_STRESS_ROUNDS", 0)
	if rounds == 0 {
		t.Skip()
	}
	res := NewResult("relaystress")
	defer func() {
		if err := res.Write(); err != nil {
			t.Fatal(err)
		}
	}()
	workers, ops := EnvInt("VERIF_STRESS_WORKERS", 16), EnvInt("VERIF_STRESS_OPS", 400)
	for i := 0; i < rounds; i++ {
		rng := rand.New(rand.NewSource(Seed()*7 + int64(i)))
		w, put, _ := relayRunConcurrent(rng, workers, ops, nil)
		res.Add("stress_puts", len(put))
		res.Add("stress_rounds", 1)
		relayPanic.mu.Lock()
		pw := relayPanic.what
		relayPanic.what = ""
		relayPanic.mu.Unlock()
		if pw != "" {
			res.Violate("C18", "monitor", "panic|concurrent", "concurrent operations on the relay: "+pw,
				map[string]any{"driver": "relaystress", "seed": Seed(), "round": i, "workers": workers, "ops": ops})
		} else if what := relayAccount(w, put, nil); what != "" {
			res.Violate("C18", "monitor", "account|"+strings.Fields(what)[2], what,
				map[string]any{"driver": "relaystress", "seed": Seed(), "round": i, "workers": workers, "ops": ops})
		}
		for _, c := range w.cons {
			_ = c.Close()
		}
	}
}
