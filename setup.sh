#!/bin/sh
# Offline setup: copy go.sum, compile the harness once (warms the Go build cache), parse every specification.
set -e
cd "$(dirname "$0")"
export GOFLAGS=-mod=mod GOPROXY=off GOSUMDB=off GOTOOLCHAIN=local
cp /repo/go.sum harness/go.sum
mkdir -p harness/bin
(cd harness && go1.26 test -c -tags verif -o bin/drv.test ./drv)
rm -rf harness/bin
for f in spec/*.tla; do
  (cd spec && tla-sany "$(basename "$f")" >/dev/null 2>&1) || { echo "SANY failed on $f"; exit 1; }
done
rm -rf spec/states spec/*.old 2>/dev/null || true
echo setup ok
