#!/bin/sh
# Offline setup: copy go.sum, compile the harness packages once (warms the Go build cache), parse every specification.
set -e
cd "$(dirname "$0")"
export GOFLAGS=-mod=mod GOPROXY=off GOSUMDB=off GOTOOLCHAIN=local
cp /repo/go.sum harness/go.sum
mkdir -p harness/bin
for pkg in drv cdrv wiredrv scen; do
  if [ -d "harness/$pkg" ]; then (cd harness && go1.26 test -c -tags verif -o bin/$pkg.test ./$pkg); fi
done
rm -rf harness/bin
for f in spec/*.tla; do
  (cd spec && tla-sany "$(basename "$f")" >/dev/null 2>&1) || { echo "SANY failed on $f"; exit 1; }
done
rm -rf spec/states spec/*.old 2>/dev/null || true
echo setup ok
