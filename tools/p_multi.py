"""C20: Multi.tla graph (scenario x completion order) replayed in synctest bubbles on the real multi.Adjudicator / multi.Funder."""
import os
import vlib

CFG = """CONSTANTS MaxAssets = %d Methods = {%s}
SPECIFICATION Spec
INVARIANTS AtMostOnce SuccessSound FailureComplete EgoLast
CHECK_DEADLOCK FALSE
"""


def run(prop, tier, seed, scratch, t0):
    binary = vlib.build_harness(scratch)
    if tier == "quick":
        cfgs = [(3, ["Register", "Fund", "FundEgo0", "FundEgo1"]), (2, ["Progress", "Withdraw", "FundEgo2"])]
    else:
        cfgs = [(3, ["Register", "Progress", "Withdraw", "Fund", "FundEgo0", "FundEgo1", "FundEgo2"]),
                (4, ["Withdraw", "FundEgo1", "FundEgo2"])]
    tl, dr = [], []
    for k, (ma, ms) in enumerate(cfgs):
        r = vlib.tlc(scratch, "Multi", CFG % (ma, ", ".join('"%s"' % m for m in ms)), name="Multi_%d" % k, workers=1,
                     extra=["-dump", "dot,actionlabels", "graph.dot"], timeout=3000)
        if not r["ok"]:
            raise vlib.Inconclusive("TLC reports %s in Multi.tla itself" % r["violated"])
        dot = os.path.join(r["dir"], "graph.dot")
        dr.append(vlib.run_driver(binary, "TestMulti", dict(VERIF_DOT=dot, VERIF_SEED=seed), scratch, "multi%d" % k, timeout=3000))
        os.remove(dot)
        r["out"] = ""
        tl.append(r)
    counts = vlib.merge_counts(dr)
    viol = [v for d in dr for v in d["violations"]]
    cov = dict(
        states=sum(r["distinct"] for r in tl), transitions=counts.get("graph_edges", 0),
        traces_validated_against_impl=counts.get("behaviours", 0),
        samples=[s for d in dr for s in d["samples"]][:3],
        evaluations=counts.get("steps", 0), distinct_nontrivial=counts.get("edges_executed", 0),
        rule="scenario = (asset list of length 1..MaxAssets over ledgers (backend 1, A), (1, B), (2, A) and a non-multi asset, "
             "repetitions in any order) x every subset of registered ledgers x every subset of failing sub-calls x method; "
             "TLC enumerates every completion order of the concurrent sub-calls; each behaviour runs in a synctest bubble on "
             "the real multi.Adjudicator/Funder with per-ledger adjudicators/funders blocking on gates opened in the TLC-chosen "
             "order; after every step (quiescence) the per-ledger call state and count and the returned error are compared "
             "with the model; distinct_nontrivial = distinct graph edges executed",
        exhaustive=True, scenarios=counts.get("scenarios", 0), driver_counts=counts,
        tlc=[dict(config=r["cmd"].split("-config ")[1].split()[0], generated=r["generated"], distinct=r["distinct"],
                  wall_s=round(r["wall"], 1)) for r in tl],
        checker_cmd="tlc -dump dot,actionlabels graph.dot Multi.tla ; drv.test -test.run ^TestMulti$",
    )
    assumptions = ["3 ledgers on 2 backends, asset lists up to length 3 (4 in thorough)",
                   "context time-outs of Fund are not triggered (sub-calls are always released)"]
    return vlib.finish(prop, tier, seed, t0, cov, viol, assumptions)


def replay(prop, path, scratch):
    print("replay: multi vectors are Multi.tla paths; re-run ./check C20 (deterministic). vector:")
    print(open(path).read()[:3000])
    return 0
