"""C10: Persist.tla (R1: crash consistency of the persister's write units, incl. crash/restore/continue) +
Machine.tla graph histories executed on real persistence.StateMachine over a fault-injecting store."""
import concurrent.futures as cf
import os
import vlib
import p_machine

PCFG = """CONSTANTS N = %d Me = %d MaxVer = %d WithNarrow = FALSE
SPECIFICATION PSpec
INVARIANTS CrashConsistent RestoredSigsSound PCurrentSigned PStagingSigsSound
CHECK_DEADLOCK FALSE
"""


def run(prop, tier, seed, scratch, t0):
    binary = vlib.build_harness(scratch)
    if tier == "quick":
        runs = [(2, 0, 1, "mem", dict(VERIF_WALKS=1000, VERIF_WALKDEPTH=30, VERIF_NODE_STRIDE=1))]
        pcfg = (2, 0, 1)
    else:
        runs = [(2, 0, 2, "mem", dict(VERIF_WALKS=20000, VERIF_WALKDEPTH=40, VERIF_NODE_STRIDE=1)),
                (2, 1, 1, "leveldb", dict(VERIF_WALKS=2000, VERIF_WALKDEPTH=30, VERIF_NODE_STRIDE=16)),
                (3, 1, 1, "mem", dict(VERIF_WALKS=5000, VERIF_WALKDEPTH=40, VERIF_NODE_STRIDE=2))]
        pcfg = (2, 1, 1)

    def r1():
        r = vlib.tlc(scratch, "Persist", PCFG % pcfg, name="Persist_MC", workers=max(4, vlib.NCPU // 2), timeout=3000)
        if not r["ok"]:
            raise vlib.Inconclusive("TLC reports %s in Persist.tla itself: specification error" % r["violated"])
        r["out"] = ""
        return r

    def one(cfg):
        n, me, mv, store, denv = cfg
        tag = "N%dMe%dV%d%s" % (n, me, mv, store)
        r = vlib.tlc(scratch, "Machine", (p_machine.CFG % (n, me, mv)).replace("WithNarrow = TRUE", "WithNarrow = FALSE"), name="MachineP_" + tag, workers=1,
                     extra=["-dump", "dot,actionlabels", "graph.dot"], timeout=3000)
        if not r["ok"]:
            raise vlib.Inconclusive("TLC reports %s in Machine.tla itself" % r["violated"])
        dot = os.path.join(r["dir"], "graph.dot")
        env = dict(denv, VERIF_DOT=dot, VERIF_N=n, VERIF_ME=me, VERIF_STORE=store, VERIF_SEED=seed, VERIF_SCRATCH=scratch)
        d = vlib.run_driver(binary, "TestPersist", env, scratch, tag, timeout=6000)
        os.remove(dot)
        r["out"] = ""
        return r, d

    with cf.ThreadPoolExecutor(max_workers=3) as ex:
        f1 = ex.submit(r1)
        fs = [ex.submit(one, c) for c in runs]
        pr = f1.result()
        rd = [f.result() for f in fs]
    tl = [pr] + [r for r, _ in rd]
    dr = [d for _, d in rd]
    counts = vlib.merge_counts(dr)
    viol = [v for d in dr for v in d["violations"]]
    cov = dict(
        states=sum(r["distinct"] for r in tl), transitions=sum(r["generated"] for r in tl),
        traces_validated_against_impl=counts.get("walks", 0) + counts.get("edges_executed", 0),
        samples=[s for d in dr for s in d["samples"]][:3],
        evaluations=counts.get("crash_points", 0), distinct_nontrivial=counts.get("edges_executed", 0),
        rule="histories = every edge of the Machine.tla graph reached by its shortest path (each step of every replay "
             "checked) + seeded walks; every operation goes through persistence.StateMachine over keyvalue.PersistRestorer "
             "over a store wrapper that records the complete store content after every write unit (Put/Delete/Batch.Apply); "
             "for the store frozen at EVERY write boundary of EVERY call RestoreChannel is run and compared (index, params, "
             "phase, current tx, staged state, each staged signature re-verified against the restored staged state, peers, "
             "parent) with snapshots of the live machine before/after the call; walks additionally crash at random "
             "boundaries and continue with the restored machine. evaluations = (history step, crash point) pairs restored; "
             "distinct_nontrivial = distinct graph edges executed through the persisting wrapper",
        exhaustive=True, crash_restore_continue=counts.get("crash_restore_continue", 0), write_units=counts.get("write_units", 0),
        tlc=[dict(config=r["cmd"].split("-config ")[1].split()[0], generated=r["generated"], distinct=r["distinct"],
                  wall_s=round(r["wall"], 1)) for r in tl],
        stores=sorted({c[3] for c in runs}), driver_counts=counts,
        checker_cmd="tlc Persist_MC.cfg Persist.tla ; tlc -dump dot,actionlabels graph.dot Machine.tla ; drv.test -test.run ^TestPersist$",
    )
    assumptions = ["a batch is atomic (as both stores promise); torn batches are not modelled",
                   "bounds of Machine.tla (see C01); CheckUpdate is not part of the persisting wrapper",
                   "LevelDB only in the thorough tier"]
    return vlib.finish(prop, tier, seed, t0, cov, viol, assumptions)


def replay(prop, path, scratch):
    print("replay: persist vectors are Machine.tla paths; re-run ./check C10 (deterministic per seed). vector:")
    print(open(path).read()[:3000])
    return 0
