"""C07: Countersign.tla (acceptability predicate + crafted-update cases) -> real client with a malicious peer that owns a valid key."""
import os
import vlib

PCFG = "SPECIFICATION Spec\nCHECK_DEADLOCK FALSE\n"


def run(prop, tier, seed, scratch, t0):
    binary = vlib.build_harness(scratch, pkg="./cdrv", name="cdrv.test")
    r = vlib.tlc(scratch, "Countersign", PCFG, name="Countersign", workers=1, timeout=600)
    if not r["ok"]:
        raise vlib.Inconclusive("TLC reports %s in Countersign.tla itself" % r["violated"])
    cases = os.path.join(scratch, "cs-cases.txt")
    open(cases, "w").write(r["out"])
    ncases = sum(1 for ln in r["out"].splitlines() if ln.startswith('"{'))
    r["out"] = ""
    results, crashes, logged = vlib.run_supervised(binary, "TestCountersign", dict(VERIF_CASES=cases, VERIF_SEED=seed), scratch,
                                                   "countersign", 2 * ncases, "C07")
    # virtual channels: the hub of a virtual channel and the pairs of funding / settlement proposals
    rv = vlib.tlc(scratch, "VirtualFund", PCFG, name="VirtualFund", workers=1, timeout=600)
    if not rv["ok"]:
        raise vlib.Inconclusive("TLC reports %s in VirtualFund.tla itself" % rv["violated"])
    vcases = os.path.join(scratch, "vf-cases.txt")
    open(vcases, "w").write(rv["out"])
    nv = sum(1 for ln in rv["out"].splitlines() if ln.startswith('"{'))
    rv["out"] = ""
    res2, crashes2, logged2 = vlib.run_supervised(binary, "TestVirtualFund", dict(VERIF_CASES=vcases, VERIF_SEED=seed), scratch,
                                                  "virtualfund", 2 * nv, "C07")
    results, crashes, logged, ncases = results + res2, crashes + crashes2, logged + logged2, ncases + nv
    viol = list(crashes)
    for d in results:
        viol += d["violations"]
    for v in logged:
        if not any(x["sig"] == v["sig"] for x in viol):
            viol.append(dict(property=v["property"], kind=v["kind"], sig=v["sig"], what=v["what"], replay=""))
    counts = vlib.merge_counts(results)
    mon = [v for v in viol if v["kind"] == "monitor"]
    drift = sorted({v["sig"] + ": " + v["what"][:200] for v in viol if v["kind"] != "monitor"})[:10]
    cov = dict(
        states=r["distinct"] or 1, transitions=r["generated"] or 1,
        traces_validated_against_impl=counts.get("evaluations", 0),
        samples=[s for d in results for s in d["samples"]][:3],
        evaluations=counts.get("evaluations", 0), distinct_nontrivial=sum(d["distinct"].get("case", 0) for d in results),
        rule="situations of the honest client (plain channel; parent with one locked sub-allocation of a really opened "
             "sub-channel; sub-channel proposal accepted and funding update awaited) x the honest update and every "
             "single-feature mutant a malicious peer holding its valid key can craft (signature over another state / by another "
             "key / garbage, version +0/+2, other id, sum +1, negative balance, wrong actor, sum-preserving theft, locked id / "
             "amount / index-map entry / index-map length / added / removed, funding that debits only one party / nobody / other "
             "id / other amount / with index map) x native / protobuf serializer; the peer's real client opens the channels, the "
             "crafted update is signed with its real key and injected; observable: a ChannelUpdateAcc of the honest client whose "
             "signature verifies over the crafted state; verdict of the TLA+ predicate Acceptable. VirtualFund.tla: the honest client is the HUB of a "
             "virtual channel between two parties both controlled by the adversary; a case is the PAIR of funding (or, after an "
             "honest funding, settlement) proposals on the hub's two ledger channels, the honest pair and every single-feature "
             "mutant (only one proposal arrives; ledger update signed by another key / version +0/+2; the two proposals carry "
             "different fully signed states of the virtual channel; its state signed by the sender only / badly; sub-allocation "
             "amount +1; index map swapped / missing / short; virtual flag unset; locked funds in the virtual channel; funding that "
             "lets the hub pay all / more / nothing; settlement that credits the hub less / swaps the credits / keeps the "
             "sub-allocation / uses a non-final state), on either ledger channel; observable: the hub's ChannelUpdateAcc for "
             "either ledger channel. distinct_nontrivial = distinct "
             "(situation, mutant, serializer, verdict, observed) classes",
        exhaustive=True, cases=ncases, crashes=len(crashes), driver_counts=counts,
        tlc=[dict(config="Countersign.cfg", generated=r["generated"], distinct=r["distinct"], wall_s=round(r["wall"], 1)),
             dict(config="VirtualFund.cfg", generated=rv["generated"], distinct=rv["distinct"], wall_s=round(rv["wall"], 1))],
        checker_cmd="tlc Countersign.tla > cases ; tlc VirtualFund.tla > vcases ; cdrv.test -test.run '^TestCountersign$|^TestVirtualFund$'",
    )
    assumptions = ["the user's update handler accepts every update it is shown (the property constrains what may reach a signature, "
                   "not the user's choice)", "automatically accepted updates covered: sub-channel funding and settlement (client as "
                   "proposee), virtual-channel funding and settlement (client as hub); end points of a virtual channel accept "
                   "nothing automatically (they propose)"]
    return vlib.finish(prop, tier, seed, t0, cov, mon, assumptions, drift=drift)


def replay(prop, path, scratch):
    print("replay: re-run ./check C07; case:")
    print(open(path).read()[:3000])
    return 0
