#!/bin/sh
# usage: tools/mutest.sh <patch.diff> <prop> [<prop>...]   — applies a seeded change to /repo, runs the quick checks, reverts.
patch="$1"; shift
cd /repo || exit 2
if [ -n "$(git status --porcelain)" ]; then echo "/repo not clean"; exit 2; fi
git apply "$patch" || { echo "patch does not apply"; exit 2; }
trap 'git -C /repo checkout -- . ; git -C /repo clean -fdq' EXIT INT TERM
cd /verif
for p in "$@"; do
  ./check "$p" --tier "${TIER:-quick}" 2>/dev/null | grep -E "^(VIOLATION|KNOWN-FINDING|  what)" | cut -c1-400 | head -8
  echo "== $p rc=$? (exit of pipeline; see VIOLATION lines)"
done
