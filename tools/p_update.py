"""C06: Update.tla (burst-level model of the update protocol) -> TLC exhaustive check of the C06 formulas (R1) +
TLC-simulated schedules replayed on two real clients in synctest bubbles with a scheduled bus (R2); verdict by
property monitors on the real observations, conformance with the detailed model reported as drift."""
import concurrent.futures as cf
import os, shutil
import vlib

CFG = """CONSTANTS MaxVer = %d T = %d MaxUpd = %d
SPECIFICATION Spec
INVARIANTS VersionsClose UniquePerVersion AgreeAtRest OkReachesPeer PhaseOK
%s
CONSTRAINT VerBound
CHECK_DEADLOCK FALSE
"""
PROPS = "PROPERTIES OkMeansCurrent RejectUnchanged"


def run(prop, tier, seed, scratch, t0):
    binary = vlib.build_harness(scratch, pkg="./cdrv", name="cdrv.test")
    if tier == "quick":
        mc, sims = (2, 2, 1), [(3, 2, 2, 800, 30)]
    else:
        mc, sims = (2, 2, 2), [(3, 2, 2, 10000, 40), (3, 4, 3, 5000, 50)]
    tl, dr = [], []

    def r1():
        r = vlib.tlc(scratch, "Update", CFG % (mc + (PROPS,)), name="Update_MC", workers=max(4, vlib.NCPU // 2), timeout=6000)
        if not r["ok"]:
            raise vlib.Inconclusive("TLC reports %s in Update.tla itself: specification error" % r["violated"])
        r["out"] = ""
        return r

    def sim(i, c):
        mv, T, mu, num, depth = c
        simdir = os.path.join(scratch, "usim%d" % i)
        os.makedirs(os.path.join(simdir, "b"))
        rs = vlib.tlc(scratch, "Update", CFG % (mv, T, mu, ""), name="Update_sim%d" % i, workers=1,
                      simulate="file=%s/b/t,num=%d" % (simdir, num), extra=["-depth", str(depth), "-seed", str(seed)], timeout=6000)
        rs["out"] = ""
        shards = vlib.NCPU
        with cf.ThreadPoolExecutor(max_workers=shards) as ex:
            ds = list(ex.map(lambda k: vlib.run_driver(binary, "TestUpdate", dict(VERIF_SIM_DIR=os.path.join(simdir, "b"), VERIF_T=T,
                                                                                  VERIF_SHARD=k, VERIF_SHARDS=shards, VERIF_SEED=seed),
                                                       scratch, "upd%d_%d" % (i, k), timeout=6000), range(shards)))
        shutil.rmtree(simdir)
        return rs, ds

    with cf.ThreadPoolExecutor(max_workers=2) as ex:
        f1 = ex.submit(r1)
        for i, c in enumerate(sims):
            rs, ds = sim(i, c)
            tl.append(rs)
            dr += ds
        tl.insert(0, f1.result())
    # every edge of the exhaustively checked (small) graph of Update.tla
    # (always the small constants: with two updates per party in flight the dumped graph has > 8 GB)
    rg = vlib.tlc(scratch, "Update", CFG % ((2, 2, 1) + ("",)), name="Update_graph", workers=1,
                  extra=["-dump", "dot,actionlabels", "graph.dot"], timeout=3000)
    if not rg["ok"]:
        raise vlib.Inconclusive("TLC reports %s in Update.tla itself" % rg["violated"])
    gdot = os.path.join(rg["dir"], "graph.dot")
    rg["out"] = ""
    tl.append(rg)
    gsh = vlib.NCPU
    with cf.ThreadPoolExecutor(max_workers=gsh) as ex:
        dg = list(ex.map(lambda k: vlib.run_driver(binary, "TestUpdate", dict(VERIF_DOT=gdot, VERIF_T=mc[1], VERIF_SHARD=k, VERIF_SHARDS=gsh, VERIF_SEED=seed),
                                                   scratch, "updg%d" % k, timeout=6000), range(gsh)))
    os.remove(gdot)
    dr += dg
    # Early.tla: updates issued at the seam between opening and updating (version-1 cache, concurrent openings)
    re_ = vlib.tlc(scratch, "Early", "SPECIFICATION Spec\nINVARIANTS AtMostOnce HandledWhenOpen NotBeforeOpen\nCHECK_DEADLOCK FALSE\n",
                   name="Early", workers=1, extra=["-dump", "dot,actionlabels", "graph.dot"], timeout=600)
    if not re_["ok"]:
        raise vlib.Inconclusive("TLC reports %s in Early.tla itself" % re_["violated"])
    edot = os.path.join(re_["dir"], "graph.dot")
    re_["out"] = ""
    tl.append(re_)
    eshards = vlib.NCPU
    with cf.ThreadPoolExecutor(max_workers=eshards) as ex:
        de = list(ex.map(lambda k: vlib.run_driver(binary, "TestEarly", dict(VERIF_DOT=edot, VERIF_SHARD=k, VERIF_SHARDS=eshards, VERIF_SEED=seed),
                                                   scratch, "early%d" % k, timeout=3000), range(eshards)))
    os.remove(edot)
    for d in de:
        d["counts"]["early_paths"] = d["counts"].pop("behaviours", 0)
        for k in ("graph_states", "graph_edges", "paths", "edges_executed"):
            d["counts"].pop(k, None)
    dr += de
    counts = vlib.merge_counts(dr)
    allv = [v for d in dr for v in d["violations"]]
    viol = [v for v in allv if v["kind"] == "monitor"]
    drift = sorted({v["sig"] + ": " + v["what"][:200] for v in allv if v["kind"] != "monitor"})[:10]
    cov = dict(
        states=tl[0]["distinct"], transitions=tl[0]["generated"],
        traces_validated_against_impl=counts.get("behaviours", 0),
        samples=[s for d in dr for s in d["samples"]][:2],
        evaluations=counts.get("env_steps", 0), distinct_nontrivial=counts.get("behaviours", 0),
        rule="every edge of the exhaustively model-checked graph of Update.tla (small constants) is replayed after its shortest path "
             "and continued until nothing is left to do; in addition TLC simulates behaviours of Update.tla with larger constants (programs of Update calls by either party, sequential and concurrent, "
             "every delivery order of the envelopes in flight, accept/reject, delayed answers, cancelled/expired call "
             "contexts, contexts that end in the instant in which the call has taken the response (rejection or acceptance) from its receiver - DeliverResLate, driven "
             "from go-perun's pluggable logger); each is replayed on two real clients in a synctest bubble: scheduled bus (native serializer round "
             "trip), strict ledger, recording persisters, scripted handlers; after every environment step (quiescence) the "
             "C06 monitors run on the real observations (every enabled transaction re-verified; success => proposed state "
             "current; rejection => unchanged and ready; without time-out versions differ by <= 1 and one state per version; "
             "agreement after everything was delivered and answered) and the observable state (current states, phases, "
             "call results, handler requests, envelopes in flight) is compared with the model (drift). "
             "Early.tla adds the seam between opening and updating: A opens up to two channels with B, also at the same time; "
             "B's funding call is held by the ledger so that A's first update reaches a B that does not know the channel yet "
             "(version-1 cache), the openings finish in any order, the user accepts or rejects; EVERY path of that graph is "
             "replayed; a request that reaches the handler again is answered the other way round; monitors: success => both "
             "at version 1, rejection => both at version 0, a further update works on every channel. "
             "distinct_nontrivial = Update.tla behaviours replayed",
        exhaustive=False, model_checked_exhaustively="Update.tla MaxVer=%d T=%d MaxUpd=%d" % mc, driver_counts=counts,
        tlc=[dict(config=r["cmd"].split("-config ")[1].split()[0], generated=r["generated"], distinct=r["distinct"],
                  wall_s=round(r["wall"], 1)) for r in tl],
        checker_cmd="tlc Update_MC.cfg Update.tla ; tlc -simulate file=..,num=N Update.tla ; tlc -dump Early.tla ; cdrv.test -test.run '^TestUpdate$|^TestEarly$'",
    )
    assumptions = ["one or two channels between two honest clients; envelopes are neither lost nor duplicated (a cancelled context stands for a time-out)",
                   "the unit of scheduling is the environment step (delivery, answer, call start, cancellation); goroutine "
                   "schedules inside a client between two blocking points are those of the Go scheduler in the bubble"]
    return vlib.finish(prop, tier, seed, t0, cov, viol, assumptions, drift=drift)


def replay(prop, path, scratch):
    print("replay: update vectors are Update.tla behaviours; re-run ./check C06 with the same VERIF_SEED. vector:")
    print(open(path).read()[:3000])
    return 0
