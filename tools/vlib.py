"""Shared orchestration for /verif/check: scratch dirs, harness build, TLC runs,
driver runs, known findings, evidence files.  Python is used for orchestration
only (DESIGN.md 3.1); verdicts come from the Go drivers (real code) and TLC."""
import json, os, re, shutil, subprocess, sys, tempfile, time, glob

VERIF = os.path.dirname(os.path.dirname(os.path.abspath(__file__)))
SPEC = os.path.join(VERIF, "spec")
HARNESS = os.environ.get("VERIF_HARNESS") or os.path.join(VERIF, "harness")
REPO = os.environ.get("VERIF_REPO", "/repo")
GOENV = dict(GOFLAGS="-mod=mod", GOPROXY="off", GOSUMDB="off", GOTOOLCHAIN="local")
GO = os.environ.get("VERIF_GO", "go1.26")
NCPU = os.cpu_count() or 4


class Inconclusive(Exception):
    pass


def log(*a):
    print(*a, file=sys.stderr, flush=True)


class Scratch:
    """mktemp -d outside /repo and /verif, removed on exit."""

    def __enter__(self):
        base = os.environ.get("TMPDIR", "/var/tmp")
        os.makedirs(base, exist_ok=True)
        self.dir = tempfile.mkdtemp(prefix="verif-", dir=base)
        return self.dir

    def __exit__(self, *a):
        if os.environ.get("VERIF_KEEP"):
            log("keeping scratch", self.dir)
        else:
            shutil.rmtree(self.dir, ignore_errors=True)


def go_env():
    e = dict(os.environ)
    e.update(GOENV)
    return e


def build_harness(scratch, pkg="./drv", name="drv.test", race=False):
    """Compile the driver test binary against /repo's current working tree with -tags verif."""
    shutil.copyfile(os.path.join(REPO, "go.sum"), os.path.join(HARNESS, "go.sum"))
    out = os.path.join(scratch, name)
    cmd = [GO, "test", "-c", "-tags", "verif", "-o", out]
    if race:
        cmd.append("-race")
    cmd.append(pkg)
    t0 = time.time()
    p = subprocess.run(cmd, cwd=HARNESS, env=go_env(), stdout=subprocess.PIPE, stderr=subprocess.STDOUT, text=True)
    if p.returncode != 0:
        log(p.stdout)
        raise Inconclusive("harness does not build against /repo (exit %d)" % p.returncode)
    log("built %s in %.1fs" % (name, time.time() - t0))
    return out


_TLC_STATS = re.compile(r"(\d+) states generated, (\d+) distinct states found, (\d+) states left on queue")


def tlc(scratch, module, cfg_text, name=None, workers=None, extra=(), timeout=1800, simulate=None, env_extra=None):
    """Run TLC on spec/<module>.tla with the given cfg text in its own directory.
    Returns dict(ok, generated, distinct, depth, out, violated, dir)."""
    name = name or module
    d = os.path.join(scratch, "tlc-" + name)
    os.makedirs(d, exist_ok=True)
    for f in glob.glob(os.path.join(SPEC, "*.tla")):
        shutil.copy(f, d)
    with open(os.path.join(d, name + ".cfg"), "w") as f:
        f.write(cfg_text)
    cmd = ["timeout", str(timeout), "tlc", "-workers", str(workers or NCPU), "-metadir", os.path.join(d, "md"),
           "-config", name + ".cfg"]
    if simulate:
        cmd += ["-simulate", simulate]
    covdir = os.environ.get("VERIF_TLC_COVERAGE")   # vacuity audit: per-action counts of every exhaustive run
    if covdir and not simulate:
        cmd += ["-coverage", "1"]
    cmd += list(extra) + [module + ".tla"]
    t0 = time.time()
    env = dict(os.environ)
    if (workers or NCPU) <= 4:
        env.setdefault("JAVA_TOOL_OPTIONS", "-XX:ParallelGCThreads=2")
    if env_extra:
        env.update(env_extra)
    p = subprocess.run(cmd, cwd=d, stdout=subprocess.PIPE, stderr=subprocess.STDOUT, text=True, env=env)
    out = p.stdout
    if covdir and not simulate:
        os.makedirs(covdir, exist_ok=True)
        with open(os.path.join(covdir, name + ".out"), "w") as f:
            f.write(out)
    res = dict(ok=False, generated=0, distinct=0, depth=0, out=out, violated=None, dir=d, wall=time.time() - t0,
               cmd=" ".join(cmd), rc=p.returncode)
    m = None
    for m in _TLC_STATS.finditer(out):
        pass
    if m:
        res["generated"], res["distinct"] = int(m.group(1)), int(m.group(2))
    m = re.search(r"depth of the complete state graph search is (\d+)", out)
    if m:
        res["depth"] = int(m.group(1))
    m = re.search(r"Invariant (\S+) is violated", out) or re.search(r"Temporal propert(?:ies were|y \S+ was) violated", out) \
        or re.search(r"Action property (\S+) is violated", out) or re.search(r"Deadlock reached", out) \
        or re.search(r"Assumption .* is false", out) or re.search(r"The postcondition .* false|Postcondition .* false", out)
    if m:
        res["violated"] = m.group(0)
    if p.returncode == 124:
        raise Inconclusive("TLC timed out after %ds on %s" % (timeout, name))
    if "Model checking completed. No error has been found." in out or (simulate and p.returncode == 0 and not res["violated"]) \
            or ("Finished in" in out and p.returncode == 0 and not res["violated"]):
        res["ok"] = True
    elif not res["violated"]:
        log(out[-4000:])
        raise Inconclusive("TLC failed on %s (exit %d)" % (name, p.returncode))
    shutil.rmtree(os.path.join(d, "md"), ignore_errors=True)
    return res


def sany(module_path):
    p = subprocess.run(["tla-sany", module_path], stdout=subprocess.PIPE, stderr=subprocess.STDOUT, text=True,
                       cwd=os.path.dirname(module_path))
    return p.returncode == 0 and "Semantic errors" not in p.stdout and "***Parse Error***" not in p.stdout, p.stdout


def library_crash(out):
    """If the Go process died of a panic / runtime fatal error raised INSIDE go-perun code (first frame that is not Go
    runtime / sync is a go-perun frame), return (message, frame); None for anything else (harness bugs, kills)."""
    m = re.search(r"^(panic: .*|fatal error: .*)$", out, re.M)
    if not m:
        return None
    for ln in out[m.end():].splitlines():
        fm = re.match(r"^([\w./*()\[\]-]+)\(.*\)$", ln.strip()) if not ln.startswith("\t") else None
        if not fm or ln.startswith("goroutine ") or ln.startswith("created by"):
            continue
        fr = fm.group(1)
        if fr.startswith(("runtime.", "internal/", "sync.", "sync/", "syscall.", "panic(")):
            continue
        if fr.startswith("perun.network/go-perun/"):
            return m.group(1)[:200], fr.replace("perun.network/go-perun/", "")
        return None
    return None


def run_driver(binary, test, env, scratch, tag, timeout=3600, args=(), crash_prop=None):
    """Run one Go driver test; returns its parsed result JSON. crash_prop: a death of the process inside go-perun code
    (see library_crash) is returned as a monitor violation of that property instead of being inconclusive."""
    out = os.path.join(scratch, "res-%s.json" % tag)
    if os.environ.get("VERIF_TIER", "quick") == "quick":
        timeout = min(timeout, 900)  # no quick driver needs more than ~2 min; a driver that hangs is inconclusive after 15
    e = go_env()
    e.update({k: str(v) for k, v in env.items()})
    e["VERIF_OUT"] = out
    e.setdefault("VERIF_REPLAY_DIR", os.path.join(scratch, "replays"))
    cmd = ["timeout", str(timeout), binary, "-test.run", "^%s$" % test, "-test.timeout", "%ds" % (timeout + 60)] + list(args)
    t0 = time.time()
    p = subprocess.run(cmd, cwd=scratch, env=e, stdout=subprocess.PIPE, stderr=subprocess.STDOUT, text=True)
    if p.returncode == 124:
        raise Inconclusive("driver %s timed out" % test)
    if not os.path.exists(out) or (p.returncode != 0 and crash_prop):
        lc = library_crash(p.stdout) if crash_prop else None
        if lc:
            rp = os.path.join(scratch, "replays")
            os.makedirs(rp, exist_ok=True)
            dst = os.path.join(rp, "%s-crash-%s.txt" % (crash_prop, tag))
            mm = re.search(r"^(panic: .*|fatal error: .*)$", p.stdout, re.M)
            with open(dst, "w") as f:
                f.write("driver %s, environment %s\n\n" % (test, json.dumps({k: str(v) for k, v in env.items()})))
                f.write(p.stdout[mm.start():mm.start() + 6000])
            return dict(driver=test, counts={}, distinct={}, samples=[], _wall=time.time() - t0, _rc=p.returncode, _stdout_tail="",
                        violations=[dict(property=crash_prop, kind="monitor", sig="crash|" + lc[1],
                                         what="the process died inside go-perun while the driver %s was running its operations: %s @ %s "
                                              "(the operation in progress never completed)" % (test, lc[0], lc[1]), replay=dst)])
    if not os.path.exists(out):
        log(p.stdout[-6000:])
        raise Inconclusive("driver %s produced no result (exit %d)" % (test, p.returncode))
    with open(out) as f:
        r = json.load(f)
    r["_wall"] = time.time() - t0
    r["_stdout_tail"] = p.stdout[-2000:]
    r["_rc"] = p.returncode
    if p.returncode != 0:
        log(p.stdout[-4000:])
        raise Inconclusive("driver %s failed (exit %d)" % (test, p.returncode))
    return r


def load_known():
    path = os.path.join(VERIF, "known_findings.json")
    if not os.path.exists(path):
        return []
    with open(path) as f:
        return json.load(f).get("findings", [])


def merge_counts(results):
    tot = {}
    for r in results:
        for k, v in r.get("counts", {}).items():
            tot[k] = tot.get(k, 0) + v
    return tot


def finish(prop, tier, seed, t0, coverage, violations, assumptions, drift=None, level="model_checking"):
    """violations: list of dicts(property, kind, sig, what, replay) from drivers.
    Prints KNOWN-FINDING / VIOLATION lines for `prop`, writes evidence, returns exit code."""
    # only property monitors decide; everything else a driver reports (conformance drift, leaks, set-up problems) is recorded
    other = [v for v in violations if v.get("kind", "monitor") != "monitor"]
    violations = [v for v in violations if v.get("kind", "monitor") == "monitor"]
    if other:
        drift = list(drift or []) + sorted({v["sig"] + ": " + v["what"][:200] for v in other})[:10]
    known = [k for k in load_known() if k["property"] == prop]
    mine = [v for v in violations if v["property"] == prop]
    rc = 0
    n_known = n_new = 0
    printed = set()
    keepdir = os.path.join(VERIF, "replays")
    os.makedirs(keepdir, exist_ok=True)
    for v in mine:
        k = next((k for k in known if v["sig"] == k["sig"] or (k.get("sig_prefix") and v["sig"].startswith(k["sig_prefix"]))), None)
        if k:
            n_known += 1
            if k["sig"] not in printed:
                printed.add(k["sig"])
                print("KNOWN-FINDING: property=%s %s" % (prop, k["what"]))
            continue
        n_new += 1
        if v["sig"] in printed:
            continue
        printed.add(v["sig"])
        rp = v.get("replay") or ""
        if rp and os.path.exists(rp):
            dst = os.path.join(keepdir, "%s-%s.json" % (prop, re.sub(r"[^A-Za-z0-9_.-]+", "_", v["sig"])[:80]))
            shutil.copyfile(rp, dst)
            rp = dst
        print("VIOLATION property=%s replay=%s" % (prop, rp or "-"))
        print("  what: %s" % v["what"][:1500])
        rc = 1
    coverage = dict(coverage)
    if drift:
        coverage["conformance_drift"] = drift
    coverage["known_findings_seen"] = n_known
    ev = dict(property_id=prop, tier=tier, seed=int(seed), level=level, coverage=coverage,
              assumptions=assumptions, wall_s=round(time.time() - t0, 2), violations=n_new)
    evdir = os.environ.get("VERIF_EVIDENCE", os.path.join(VERIF, "evidence"))   # mutant / benign runs write elsewhere
    os.makedirs(evdir, exist_ok=True)
    with open(os.path.join(evdir, prop + ".json"), "w") as f:
        json.dump(ev, f, indent=1, sort_keys=True)
        f.write("\n")
    log("%s %s: %s (%.1fs) %s" % (prop, tier, "VIOLATION" if rc else "ok", time.time() - t0,
                                  json.dumps({k: v for k, v in coverage.items() if isinstance(v, (int, bool))})))
    return rc


def _panic_site(out):
    """Extract 'panic message @ first go-perun frame' from a crashed Go process' output."""
    m = re.search(r"^(panic: .*|fatal error: .*)$", out, re.M)
    msg = m.group(1)[:160] if m else "process died"
    site = "?"
    tail = out[m.start():] if m else out
    fm = re.search(r"^(perun\.network/go-perun/\S+?)\((?:0x|\{|\.\.\.|\))", tail, re.M)
    if fm:
        site = fm.group(1).replace("perun.network/go-perun/", "")
    return msg, site


def run_supervised(binary, test, env, scratch, tag, total, prop, timeout=3000, max_crashes=300):
    """Run a driver whose process can be killed by a panic of go-perun inside a goroutine: the driver writes its
    progress (case index TAB description) before every case; after a crash the case in flight is recorded as a
    violation (panic) and the driver is restarted behind it. Returns (list of driver results, crash violations)."""
    results, crashes = [], []
    start = 0
    progress = os.path.join(scratch, "progress-%s" % tag)
    violog = os.path.join(scratch, "viol-%s.jsonl" % tag)
    for attempt in range(max_crashes + 1):
        if start >= total:
            break
        for f in (progress,):
            if os.path.exists(f):
                os.remove(f)
        out = os.path.join(scratch, "res-%s-%d.json" % (tag, attempt))
        e = go_env()
        e.update({k: str(v) for k, v in env.items()})
        e.update(VERIF_OUT=out, VERIF_START=str(start), VERIF_PROGRESS=progress, VERIF_VIOL_LOG=violog)
        e.setdefault("VERIF_REPLAY_DIR", os.path.join(scratch, "replays"))
        p = subprocess.run(["timeout", str(timeout), binary, "-test.run", "^%s$" % test, "-test.timeout", "%ds" % (timeout + 60)],
                           cwd=scratch, env=e, stdout=subprocess.PIPE, stderr=subprocess.STDOUT, text=True)
        if p.returncode == 124:
            raise Inconclusive("driver %s timed out" % test)
        if p.returncode == 0 and os.path.exists(out):
            with open(out) as f:
                results.append(json.load(f))
            break
        # crashed: attribute to the case in flight
        if not os.path.exists(progress):
            log(p.stdout[-3000:])
            raise Inconclusive("driver %s died before its first case (exit %d)" % (test, p.returncode))
        idx, what = open(progress).read().split("\t", 1)
        if "VERIF-WATCHDOG" in p.stdout:
            # the driver's real-time watchdog ended a case that never came to rest; it has logged what it saw durably
            crashes.append(dict(property=prop, kind="conformance", sig="watchdog|%s" % what.split("|")[0],
                                what="case %s (%s) did not come to rest in real time (driver watchdog)" % (idx, what), replay="", case=what))
            start = int(idx) + 1
            continue
        msg, site = _panic_site(p.stdout)
        rp = os.path.join(scratch, "replays")
        os.makedirs(rp, exist_ok=True)
        rpf = os.path.join(rp, "%s-crash-%s-%s.txt" % (prop, tag, idx))
        with open(rpf, "w") as f:
            f.write("case %s: %s\n\n%s\n" % (idx, what, p.stdout[-6000:]))
        kind = "monitor"
        if "main bubble goroutine has exited" in msg:
            # the test runner's report of goroutines left over at the end of a bubble (a leak, or a harness step that was not
            # finished): not a panic of the code under test
            kind, site = "conformance", "leftover-goroutines"
        elif library_crash(p.stdout) is None and site == "?":
            kind = "conformance"  # no go-perun frame anywhere: the harness died
        crashes.append(dict(property=prop, kind=kind, sig="panic|%s|%s" % (site, what.split("|")[0] if "|" in what else what),
                            what="the client process panicked while handling case %s (%s): %s @ %s" % (idx, what, msg, site),
                            replay=rpf, case=what))
        start = int(idx) + 1
    else:
        raise Inconclusive("driver %s crashed more than %d times" % (test, max_crashes))
    # violations logged durably by crashed runs (the result file of a crashed run is lost)
    logged = []
    if os.path.exists(violog):
        for ln in open(violog):
            try:
                logged.append(json.loads(ln))
            except ValueError:
                pass
    return results, crashes, logged
