"""C19: Clone.tla -> TLC (all behaviours of clone + modifications) -> real Clone() of every cloneable type; machine clones on the Machine.tla graph."""
import concurrent.futures as cf
import json, os, shutil
import vlib
import p_machine

CFG = """CONSTANTS Leaves = {%s} MaxMut = %d
SPECIFICATION Spec
INVARIANTS OnlyOwnChanges
PROPERTIES EqualAtClone Independent
CHECK_DEADLOCK FALSE
"""


def run(prop, tier, seed, scratch, t0):
    binary = vlib.build_harness(scratch)
    leaves_file = os.path.join(scratch, "leaves.json")
    vlib.run_driver(binary, "TestCloneLeaves", {}, scratch, "leaves")
    leaves = json.load(open(os.path.join(scratch, "res-leaves.json")))
    dotdir = os.path.join(scratch, "clonedots")
    os.makedirs(dotdir)
    maxmut = 2

    def one(item):
        name, ls = item
        cfg = CFG % (", ".join('"%s"' % l for l in ls), maxmut)
        r = vlib.tlc(scratch, "Clone", cfg, name="Clone_" + name, workers=1,
                     extra=["-dump", "dot,actionlabels", "graph.dot"], timeout=1800)
        if not r["ok"]:
            raise vlib.Inconclusive("TLC reports %s in Clone.tla itself (%s)" % (r["violated"], name))
        shutil.move(os.path.join(r["dir"], "graph.dot"), os.path.join(dotdir, name + ".dot"))
        r["out"] = ""
        return r

    with cf.ThreadPoolExecutor(max_workers=8) as ex:
        tl = list(ex.map(one, sorted(leaves.items())))
    d = vlib.run_driver(binary, "TestClone", dict(VERIF_DOT_DIR=dotdir, VERIF_SEED=seed), scratch, "clone", timeout=3000)
    shutil.rmtree(dotdir)
    # machine clones: every state of the Machine.tla graph
    mcfgs = [(2, 0, 1)] if tier == "quick" else [(2, 0, 2), (2, 1, 1), (3, 1, 1)]
    mres = []
    for (n, me, mv) in mcfgs:
        tag = "N%dMe%dV%d" % (n, me, mv)
        r = vlib.tlc(scratch, "Machine", p_machine.CFG % (n, me, mv), name="MachineClone_" + tag, workers=1,
                     extra=["-dump", "dot,actionlabels", "graph.dot"], timeout=3000)
        if not r["ok"]:
            raise vlib.Inconclusive("TLC reports %s in Machine.tla itself" % r["violated"])
        dot = os.path.join(r["dir"], "graph.dot")
        md = vlib.run_driver(binary, "TestMachineClone", dict(VERIF_DOT=dot, VERIF_N=n, VERIF_ME=me, VERIF_SEED=seed),
                             scratch, "mclone" + tag, timeout=3000)
        os.remove(dot)
        r["out"] = ""
        tl.append(r)
        mres.append(md)
    counts = vlib.merge_counts([d] + mres)
    viol = d["violations"] + [v for m in mres for v in m["violations"]]
    cov = dict(
        states=sum(r["distinct"] for r in tl), transitions=sum(r["generated"] for r in tl),
        traces_validated_against_impl=counts.get("behaviours", 0) + counts.get("machine_states_cloned", 0),
        samples=(d["samples"] + [s for m in mres for s in m["samples"]])[:5],
        evaluations=counts.get("steps", 0) + counts.get("machine_clone_steps", 0),
        distinct_nontrivial=counts.get("edges_executed", 0) + counts.get("machine_states_cloned", 0),
        rule="per cloneable type/shape (Balances, Allocation, State, Params, Transaction with partial signature sets, "
             "persistence.CloneSource/FromSource; nil and empty slices, index maps) TLC enumerates every behaviour of Clone.tla "
             "with <= MaxMut modifications of any leaf on either side before/after cloning, in-place and by slot; the driver "
             "executes each on real values, compares every leaf of both sides with the model after every step, checks the "
             "type's Equal right after cloning and that no pointer / backing array / map is reachable from both (except "
             "app, asset, account, logger). Machine clones: every state of the Machine.tla graph is reached on a real machine, "
             "cloned, compared and walked for shared memory, then every state-changing operation is applied to one side and "
             "the other side must keep its projection. distinct_nontrivial = distinct Clone.tla edges executed + machine states cloned",
        exhaustive=True, subjects=counts.get("subjects", 0), driver_counts=counts,
        checker_cmd="tlc -config Clone_<subject>.cfg -dump dot,actionlabels graph.dot Clone.tla ; drv.test -test.run '^TestClone$|^TestMachineClone$'",
    )
    if counts.get("subjects_without_graph", 0):
        raise vlib.Inconclusive("subjects without graph: %s" % d.get("notes"))
    assumptions = ["MaxMut=%d modifications per behaviour" % maxmut, "sim backend address/asset/signature types",
                   "documented shared leaves (app, asset, account) and the logger are not mutation targets"]
    return vlib.finish(prop, tier, seed, t0, cov, viol, assumptions)


def replay(prop, path, scratch):
    print("replay of clone vectors: re-run ./check C19 (deterministic); vector:", open(path).read()[:2000])
    return 0
