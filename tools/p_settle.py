"""C03 / C04: Settle.tla (life of a ledger channel on the strict reference ledger; adversary mode: B registers outdated
states, A only watches) -> TLC exhaustive check + state graph; every edge replayed after its shortest path on two real
clients in synctest bubbles (scheduled bus, strict ledger, real local watcher)."""
import concurrent.futures as cf
import os
import vlib

CFG = """CONSTANTS A0 = %(a0)d B0 = %(b0)d MaxVer = %(mv)d CD = %(cd)d FShift = %(fs)d Adversary = %(adv)s Deposit = 100
SPECIFICATION Spec
%(inv)s
CHECK_DEADLOCK FALSE
"""
INV = "INVARIANTS Conservation HonestPayout PayoutAtLeastNewest HonestNotRobbed"
SCFG = """CONSTANTS P0 = %(p0)d MaxP = %(mp)d MaxS = %(ms)d CD = %(cd)d Adversary = %(adv)s Hon = "%(hon)s" Ballast = %(bal)s Deposit = 100
SPECIFICATION Spec
%(inv)s
CHECK_DEADLOCK FALSE
"""
SINV = "INVARIANTS Conservation HonestPayout HonestNotRobbed"


def run_vector(scratch, binary, path, tag):
    """Replays one recorded behaviour (driver, cfg, steps = labels of Settle.tla / SubSettle.tla actions) on real clients."""
    import json
    rp = json.load(open(path))
    c = rp["cfg"]
    if rp["driver"] == "settle":
        cfg = CFG % dict(a0=c["A0"], b0=c["B0"], mv=3, cd=c["CD"], fs=c["FShift"], adv="TRUE" if c["Adversary"] else "FALSE", inv="")
        mod, test = "Settle", "TestSettle"
        env = dict(VERIF_A0=c["A0"], VERIF_B0=c["B0"], VERIF_CD=c["CD"], VERIF_FSHIFT=c["FShift"], VERIF_ADVERSARY="1" if c["Adversary"] else "0")
    else:
        nm = sum(1 for x in rp["steps"] if x.startswith(("PayS", "HoldS", "FinalizeS", "AdvRegisterEchoS")))
        cfg = SCFG % dict(p0=c["P0"], mp=4 if len(rp["steps"]) > 6 else 3, ms=2 if nm > 1 else 1, cd=c["CD"],
                          adv="TRUE" if c["Adversary"] else "FALSE", hon=c["Hon"], bal="TRUE" if c.get("Ballast") else "FALSE", inv="")
        mod, test = "SubSettle", "TestSubSettle"
        env = dict(VERIF_P0=c["P0"], VERIF_CD=c["CD"], VERIF_ADVERSARY="1" if c["Adversary"] else "0", VERIF_HON=c["Hon"],
                   VERIF_BALLAST="1" if c.get("Ballast") else "0")
    r = vlib.tlc(scratch, mod, cfg, name="Vector_%s" % tag, workers=1, extra=["-dump", "dot,actionlabels", "graph.dot"], timeout=3000)
    if not r["ok"]:
        raise vlib.Inconclusive("TLC failed on %s.tla (replay of a recorded behaviour)" % mod)
    dot = os.path.join(r["dir"], "graph.dot")
    d = vlib.run_driver(binary, test, dict(env, VERIF_DOT=dot, VERIF_REPLAY_STEPS=os.path.abspath(path)), scratch, "vector%s" % tag, timeout=1200)
    os.remove(dot)
    return d


def known_replays(prop, scratch, binary, dr):
    """Every listed finding of the property is replayed from its committed vector, whatever the seed / tier samples: it is
    reported (KNOWN-FINDING) exactly as long as the real code still fails on it."""
    for i, k in enumerate(f for f in vlib.load_known() if f["property"] == prop and f.get("replay")):
        d = run_vector(scratch, binary, os.path.join(vlib.VERIF, k["replay"]), "%s_%d" % (prop, i))
        d["counts"] = dict(known_finding_replays=1)
        dr.append(d)


def sub_runs(prop, tier, seed, scratch, binary, tl, dr, design_cex):
    """SubSettle.tla: the same two properties for a ledger channel with a sub-channel."""
    adv = prop == "C04"
    if tier == "quick":
        base, stride = dict(p0=2, mp=3, ms=1, cd=1), 3
    else:
        base, stride = dict(p0=2, mp=4, ms=2, cd=1), 1
    shards = vlib.NCPU
    # variants: (honest party, ballast sub-channel). Adversary mode: either party honest, the second one with the ballast
    # sub-channel (S is then the second locked sub-allocation); honest mode: with and without ballast.
    variants = [("A", False), ("B", True)] if adv else [("A", False), ("A", True)]
    if tier != "quick" and adv:
        variants = [("A", False), ("B", True), ("A", True), ("B", False)]
    if tier == "quick" and not adv:
        stride = 2 * stride
    for hon, ballast in variants:
        c = dict(base, adv="TRUE" if adv else "FALSE", hon=hon, bal="TRUE" if ballast else "FALSE")
        r1 = vlib.tlc(scratch, "SubSettle", SCFG % dict(c, inv=SINV), name="SubSettleMC_%s%s%d" % (prop, hon, ballast), workers=4, timeout=3000)
        design_cex.append(r1["violated"] or "none")
        r = vlib.tlc(scratch, "SubSettle", SCFG % dict(c, inv=""), name="SubSettle_%s%s%d" % (prop, hon, ballast), workers=1,
                     extra=["-dump", "dot,actionlabels", "graph.dot"], timeout=3000)
        if not r["ok"]:
            raise vlib.Inconclusive("TLC failed on SubSettle.tla: %s" % r["violated"])
        dot = os.path.join(r["dir"], "graph.dot")
        r["out"] = ""
        tl.append(r)
        env = dict(VERIF_DOT=dot, VERIF_P0=c["p0"], VERIF_CD=c["cd"], VERIF_ADVERSARY="1" if adv else "0", VERIF_HON=hon,
                   VERIF_BALLAST="1" if ballast else "0", VERIF_SHARDS=shards, VERIF_SEED=seed, VERIF_STRIDE=stride)
        with cf.ThreadPoolExecutor(max_workers=shards) as ex:
            ds = list(ex.map(lambda k: vlib.run_driver(binary, "TestSubSettle", dict(env, VERIF_SHARD=k), scratch,
                                                       "subsettle%s%d_%d" % (hon, ballast, k), timeout=12000), range(shards)))
        os.remove(dot)
        # seeded random behaviours of the same graph (TLC simulation)
        import shutil
        simdir = os.path.join(scratch, "subsim%s%d" % (hon, ballast))
        os.makedirs(os.path.join(simdir, "b"))
        nsim = 400 if tier == "quick" else 3000
        rs = vlib.tlc(scratch, "SubSettle", SCFG % dict(c, inv=""), name="SubSettleSim_%s%s%d" % (prop, hon, ballast), workers=1,
                      simulate="file=%s/b/t,num=%d" % (simdir, nsim), extra=["-depth", "16", "-seed", str(seed)], timeout=3000)
        rs["out"] = ""
        senv = dict(env, VERIF_SIM_DIR=os.path.join(simdir, "b"), VERIF_STRIDE=1)
        del senv["VERIF_DOT"]
        with cf.ThreadPoolExecutor(max_workers=shards) as ex:
            ds += list(ex.map(lambda k: vlib.run_driver(binary, "TestSubSettle", dict(senv, VERIF_SHARD=k), scratch,
                                                        "subsettlesim%s%d_%d" % (hon, ballast, k), timeout=12000), range(shards)))
        shutil.rmtree(simdir)
        for d in ds:
            d["counts"]["sub_behaviours"] = d["counts"].get("behaviours", 0)
            d["counts"]["sub_edges_executed"] = d["counts"].get("edges_executed", 0)
            d["counts"]["sub_graph_edges"] = d["counts"].pop("graph_edges", 0)
            d["counts"]["sub_graph_states"] = d["counts"].pop("graph_states", 0)
        dr += ds


def run(prop, tier, seed, scratch, t0):
    binary = vlib.build_harness(scratch, pkg="./cdrv", name="cdrv.test")
    adv = prop == "C04"
    if tier == "quick":
        cfgs = [dict(a0=2, b0=2, mv=2, cd=2, fs=0), dict(a0=1, b0=3, mv=2, cd=2, fs=1)] if not adv else [dict(a0=2, b0=2, mv=2, cd=2, fs=0)]
    else:
        cfgs = [dict(a0=2, b0=2, mv=3, cd=2, fs=0), dict(a0=1, b0=3, mv=3, cd=2, fs=1), dict(a0=3, b0=0, mv=2, cd=1, fs=0)]
    tl, dr, design_cex = [], [], []
    shards = vlib.NCPU
    for i, c in enumerate(cfgs):
        c = dict(c, adv="TRUE" if adv else "FALSE")
        # R1: the property formulas on the design. A counter-example found here is only a verdict if the real code
        # reproduces it: every edge of the graph is replayed below and judged by the monitors on the real ledger.
        r1 = vlib.tlc(scratch, "Settle", CFG % dict(c, inv=INV), name="SettleMC_%s%d" % (prop, i), workers=4, timeout=3000)
        design_cex.append(r1["violated"] or "none")
        r = vlib.tlc(scratch, "Settle", CFG % dict(c, inv=""), name="Settle_%s%d" % (prop, i), workers=1,
                     extra=["-dump", "dot,actionlabels", "graph.dot"], timeout=3000)
        if not r["ok"]:
            raise vlib.Inconclusive("TLC failed on Settle.tla: %s" % r["violated"])
        dot = os.path.join(r["dir"], "graph.dot")
        r["out"] = ""
        tl.append(r)
        env = dict(VERIF_DOT=dot, VERIF_A0=c["a0"], VERIF_B0=c["b0"], VERIF_CD=c["cd"], VERIF_FSHIFT=c["fs"],
                   VERIF_ADVERSARY="1" if adv else "0", VERIF_SHARDS=shards, VERIF_SEED=seed)
        with cf.ThreadPoolExecutor(max_workers=shards) as ex:
            ds = list(ex.map(lambda k: vlib.run_driver(binary, "TestSettle", dict(env, VERIF_SHARD=k), scratch,
                                                       "settle%d_%d" % (i, k), timeout=6000), range(shards)))
        os.remove(dot)
        # seeded random behaviours (TLC simulation): path dependence that shortest-path replay does not reach
        import shutil
        simdir = os.path.join(scratch, "ssim%d" % i)
        os.makedirs(os.path.join(simdir, "b"))
        nsim = 1500 if tier == "quick" else 20000
        rs = vlib.tlc(scratch, "Settle", CFG % dict(c, inv=""), name="SettleSim_%s%d" % (prop, i), workers=1,
                      simulate="file=%s/b/t,num=%d" % (simdir, nsim), extra=["-depth", "14", "-seed", str(seed)], timeout=3000)
        rs["out"] = ""
        senv = dict(env, VERIF_SIM_DIR=os.path.join(simdir, "b"))
        del senv["VERIF_DOT"]
        if not adv:
            senv["VERIF_NOWATCH"] = "B"  # in the simulated behaviours of the honest runs B never calls Channel.Watch
        with cf.ThreadPoolExecutor(max_workers=shards) as ex:
            ds2 = list(ex.map(lambda k: vlib.run_driver(binary, "TestSettle", dict(senv, VERIF_SHARD=k), scratch,
                                                        "settlesim%d_%d" % (i, k), timeout=6000), range(shards)))
        shutil.rmtree(simdir)
        dr += ds2
        for d in ds:
            d["counts"]["graph_states"] = 0
            d["counts"]["graph_edges"] = 0
        ds[0]["counts"]["graph_edges"] = r["generated"] - 1
        dr += ds
    sub_runs(prop, tier, seed, scratch, binary, tl, dr, design_cex)
    known_replays(prop, scratch, binary, dr)
    counts = vlib.merge_counts(dr)
    allv = [v for d in dr for v in d["violations"]]
    viol = [v for v in allv if v["kind"] == "monitor"]
    drift = sorted({v["sig"] + ": " + v["what"][:200] for v in allv if v["kind"] != "monitor"})[:10]
    if adv:
        rule = ("every edge of the reachable graph of Settle.tla in adversary mode - payments (also with the update held in "
                "flight at each of its three stages), final update, B registering EVERY earlier fully signed version directly on "
                "the ledger at every point, clock ticks, settlement - replayed after its shortest path and continued by a shortest path to A's settlement: A is an unmodified "
                "client with Channel.Watch and the real local.Watcher on the strict ledger's event subscription; monitors on the "
                "real ledger: conservation at every step; once A has settled the concluded version is >= the newest version "
                "ever enabled at A and A's account >= its balance in that state")
    else:
        rule = ("every edge of the reachable graph of Settle.tla - initial balances / funding agreement, accepted and rejected "
                "payments in both directions, updates held in flight, optional final update, either side settling first, "
                "cooperatively or through registration and time-out - replayed after its shortest path and continued by a shortest path "
                "to the settlement of both, on two honest clients; "
                "monitors on the strict ledger: funding takes exactly the agreed amounts, conservation at every step, after both "
                "settled each account = deposit - funding + balance in the last state both signed and nothing remains held")
    cov = dict(
        states=sum(r["distinct"] for r in tl), transitions=sum(r["generated"] for r in tl),
        traces_validated_against_impl=counts.get("behaviours", 0),
        samples=[s for d in dr for s in d["samples"]][:2],
        evaluations=counts.get("env_steps", 0), distinct_nontrivial=counts.get("edges_executed", 0),
        rule=rule + ". SubSettle.tla adds the same for a ledger channel with a sub-channel: payments in both channels, a "
             "sub-channel update held at the responder's handler and a settlement attempt that times out meanwhile, finalising "
             "the sub-channel (by either party) and withdrawing it into the parent, settlement of the parent with the "
             "sub-channel still open (registration of both, both challenge periods); variant with a second, idle sub-channel "
             "opened first (the sub-channel under test is then the second locked sub-allocation, every registration carries two "
             "sub-channel states)" +
             (", the adversary registering every earlier (parent, sub-channel) pair of states it holds, either party honest"
              if adv else "") +
             "; quick: every 3rd edge of that graph (offset by seed), thorough: every edge; distinct_nontrivial = distinct graph "
             "edges executed", exhaustive=True, driver_counts=counts,
        design_level_counterexamples=design_cex,
        tlc=[dict(config=r["cmd"].split("-config ")[1].split()[0], generated=r["generated"], distinct=r["distinct"],
                  wall_s=round(r["wall"], 1)) for r in tl],
        checker_cmd="tlc -dump dot,actionlabels graph.dot Settle.tla | SubSettle.tla ; cdrv.test -test.run '^TestSettle$|^TestSubSettle$'",
    )
    assumptions = ["one asset, two parties; one sub-channel (no sub-sub-channels, no virtual channels); updates are held in flight only "
                   "in the ledger-channel scenarios (Settle.tla), in SubSettle.tla only at the sub-channel's handler",
                   "the strict reference ledger of the harness stands for the contracts (verifies signatures, versions, time-outs, registered state)",
                   "steps are separated by quiescence; envelopes are delivered explicitly by the driver"]
    if adv:
        assumptions.append("the adversary deviates only by registering earlier fully signed states; its client runs no refuting watcher")
    return vlib.finish(prop, tier, seed, t0, cov, viol, assumptions, drift=drift)


def replay(prop, path, scratch):
    """Re-executes a recorded behaviour on real clients; exit 1 if the violation is reproduced."""
    binary = vlib.build_harness(scratch, pkg="./cdrv", name="cdrv.test")
    d = run_vector(scratch, binary, path, "replay")
    for v in d["violations"]:
        print("%s property=%s %s: %s" % ("REPRODUCED" if v.get("kind") == "monitor" else "deviation", v["property"], v["sig"], v["what"][:600]))
    return 1 if any(v.get("kind") == "monitor" for v in d["violations"]) else 0
