"""C05: Watcher.tla (rule of the property stated directly) -> exhaustive graph (one sub-channel) + simulated behaviours
(two sub-channels) replayed in synctest bubbles on the real local.Watcher with a scripted RegisterSubscriber."""
import concurrent.futures as cf
import os, shutil
import vlib

CFG = """CONSTANTS Subs = {%s} MaxVer = %d Start = 0 Hold = FALSE Backlog = FALSE
SPECIFICATION Spec
INVARIANTS OneCall CallNewest
PROPERTIES RelayIncreasing RefusedStopKeeps
CHECK_DEADLOCK FALSE
"""


def run(prop, tier, seed, scratch, t0):
    binary = vlib.build_harness(scratch)
    shards = vlib.NCPU
    if tier == "quick":
        graph_cfg, sim_cfgs, mc_cfg = ('"S1"', 2), [('"S1", "S2"', 2, 1500, 30)], None
    else:
        graph_cfg, sim_cfgs, mc_cfg = ('"S1"', 3), [('"S1", "S2"', 3, 20000, 40), ('"S1", "S2"', 2, 20000, 25)], ('"S1", "S2"', 2)
    tl, dr = [], []
    # exhaustive graph
    r = vlib.tlc(scratch, "Watcher", CFG % graph_cfg, name="Watcher_graph", workers=1,
                 extra=["-dump", "dot,actionlabels", "graph.dot"], timeout=3000)
    if not r["ok"]:
        raise vlib.Inconclusive("TLC reports %s in Watcher.tla itself" % r["violated"])
    dot = os.path.join(r["dir"], "graph.dot")
    r["out"] = ""
    tl.append(r)

    def shard(k):
        return vlib.run_driver(binary, "TestWatcher", dict(VERIF_DOT=dot, VERIF_SHARD=k, VERIF_SHARDS=shards, VERIF_SEED=seed),
                               scratch, "wgraph%d" % k, timeout=6000)

    with cf.ThreadPoolExecutor(max_workers=shards) as ex:
        gres = list(ex.map(shard, range(shards)))
    os.remove(dot)
    dr += gres
    # the same graph for watching that starts with a later transaction (Start = 1): nothing is registered yet then either
    r1 = vlib.tlc(scratch, "Watcher", (CFG % graph_cfg).replace("Start = 0", "Start = 1"), name="Watcher_graph1", workers=1,
                  extra=["-dump", "dot,actionlabels", "graph.dot"], timeout=3000)
    if not r1["ok"]:
        raise vlib.Inconclusive("TLC reports %s in Watcher.tla itself (Start = 1)" % r1["violated"])
    dot1 = os.path.join(r1["dir"], "graph.dot")
    r1["out"] = ""
    tl.append(r1)
    with cf.ThreadPoolExecutor(max_workers=shards) as ex:
        g1 = list(ex.map(lambda k: vlib.run_driver(binary, "TestWatcher", dict(VERIF_DOT=dot1, VERIF_SHARD=k, VERIF_SHARDS=shards, VERIF_SEED=seed,
                                                                              VERIF_START_VER=1), scratch, "wgraph1_%d" % k, timeout=6000), range(shards)))
    os.remove(dot1)
    for d in g1:
        d["counts"].pop("graph_states", None)
        d["counts"].pop("graph_edges", None)
    dr += g1
    # Register calls that stay in progress while transactions are published and another event arrives (Hold)
    # (MaxVer = 2 in both tiers: with 3 versions the graph needs 5-7 GB per driver process and has tens of millions of
    # windows; the thorough tier runs EVERY window of the MaxVer = 2 graph, the quick tier every 4th)
    rh = vlib.tlc(scratch, "Watcher", (CFG % ('"S1"', 2)).replace("Hold = FALSE", "Hold = TRUE"), name="Watcher_hold", workers=1,
                  extra=["-dump", "dot,actionlabels", "graph.dot"], timeout=3000)
    if not rh["ok"]:
        raise vlib.Inconclusive("TLC reports %s in Watcher.tla itself (Hold)" % rh["violated"])
    doth = os.path.join(rh["dir"], "graph.dot")
    rh["out"] = ""
    tl.append(rh)
    with cf.ThreadPoolExecutor(max_workers=shards) as ex:
        gh = list(ex.map(lambda k: vlib.run_driver(binary, "TestWatcher", dict(VERIF_DOT=doth, VERIF_SHARD=k, VERIF_SHARDS=shards, VERIF_SEED=seed,
                                                                              VERIF_WINDOW_STRIDE=4 if tier == "quick" else 1),
                                                   scratch, "whold_%d" % k, timeout=6000), range(shards)))
    os.remove(doth)
    for d in gh:
        d["counts"].pop("graph_states", None)
        d["counts"].pop("graph_edges", None)
    dr += gh
    # backlog: only progressed / concluded events, the client reads at the end
    bdir = os.path.join(scratch, "wbacklog")
    os.makedirs(os.path.join(bdir, "b"))
    bcfg = (CFG % ('"S1"', 2)).replace("Backlog = FALSE", "Backlog = TRUE").replace("PROPERTIES RelayIncreasing RefusedStopKeeps\n", "")
    rb = vlib.tlc(scratch, "Watcher", bcfg, name="Watcher_backlog", workers=1,
                  simulate="file=%s/b/t,num=%d" % (bdir, 60 if tier == "quick" else 600), extra=["-depth", "40", "-seed", str(seed)], timeout=3000)
    rb["out"] = ""
    tl.append(rb)
    db = vlib.run_driver(binary, "TestWatcher", dict(VERIF_SIM_DIR=os.path.join(bdir, "b"), VERIF_SEED=seed, VERIF_LAZY=1), scratch, "wbacklog", timeout=6000)
    db["counts"]["backlog_behaviours"] = db["counts"].get("behaviours", 0)
    dr.append(db)
    shutil.rmtree(bdir)
    # simulated behaviours with two sub-channels
    for i, (subs, mv, num, depth) in enumerate(sim_cfgs):
        simdir = os.path.join(scratch, "wsim%d" % i)
        os.makedirs(os.path.join(simdir, "b"))
        cfgtext = (CFG % (subs, mv)).replace("PROPERTIES RelayIncreasing RefusedStopKeeps\n", "")
        rs = vlib.tlc(scratch, "Watcher", cfgtext, name="Watcher_sim%d" % i, workers=1,
                      simulate="file=%s/b/t,num=%d" % (simdir, num), extra=["-depth", str(depth), "-seed", str(seed)], timeout=3000)
        rs["out"] = ""
        tl.append(rs)
        dr.append(vlib.run_driver(binary, "TestWatcher", dict(VERIF_SIM_DIR=os.path.join(simdir, "b"), VERIF_SEED=seed),
                                  scratch, "wsim%d" % i, timeout=6000))
        shutil.rmtree(simdir)
    if mc_cfg:
        rm = vlib.tlc(scratch, "Watcher", CFG % mc_cfg, name="Watcher_MC2", workers=vlib.NCPU, timeout=6000)
        if not rm["ok"]:
            raise vlib.Inconclusive("TLC reports %s in Watcher.tla itself" % rm["violated"])
        rm["out"] = ""
        tl.append(rm)
    counts = vlib.merge_counts(dr)
    counts["graph_states"] = gres[0]["counts"].get("graph_states", 0)
    counts["graph_edges"] = gres[0]["counts"].get("graph_edges", 0)
    viol = [v for d in dr for v in d["violations"]]
    cov = dict(
        states=sum(r["distinct"] for r in tl if r["distinct"]), transitions=counts["graph_edges"],
        traces_validated_against_impl=counts.get("behaviours", 0),
        samples=[s for d in dr for s in d["samples"]][:3],
        evaluations=counts.get("steps", 0), distinct_nontrivial=counts.get("edges_executed", 0) + counts.get("walks", 0),
        rule="(a) every edge of the complete reachable graph of Watcher.tla for one sub-channel (publish parent/sub with "
             "locked lists, registered/progressed/concluded events with every version for every watched channel and "
             "succeeding/failing Register, start/stop/refused stop) executed after its shortest path; (b) TLC-simulated "
             "behaviours with two sub-channels. Each behaviour runs in a synctest bubble on the real local.Watcher with a "
             "scripted RegisterSubscriber; after every step (quiescence + 50 ms virtual time) the Register calls made "
             "(parent version, ordered sub-channel versions), the events on every AdjudicatorSub and the result of the API "
             "call are compared with the model's `out`; distinct_nontrivial = distinct graph edges executed + simulated behaviours",
        exhaustive=True, driver_counts=counts,
        tlc=[dict(config=r["cmd"].split("-config ")[1].split()[0], generated=r["generated"], distinct=r["distinct"],
                  wall_s=round(r["wall"], 1)) for r in tl],
        checker_cmd="tlc -dump dot,actionlabels graph.dot Watcher.tla ; tlc -simulate file=..,num=N Watcher.tla ; drv.test -test.run ^TestWatcher$",
    )
    assumptions = ["single ledger (the multi-ledger branch of the watcher is outside the property)",
                   "steps are separated by quiescence: concurrent API calls/events are not interleaved inside one step",
                   "sub-channels locked in the parent's transaction are watched or archived (as in the client)"]
    return vlib.finish(prop, tier, seed, t0, cov, viol, assumptions)


def replay(prop, path, scratch):
    print("replay: watcher vectors are Watcher.tla behaviours; re-run ./check C05 (deterministic per seed). vector:")
    print(open(path).read()[:3000])
    return 0
