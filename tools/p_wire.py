"""C13..C17: Wire.tla -> TLC (model-side theorems as ASSUMEs + exported cases) -> real go-perun codecs (harness/wiredrv).

One module serves the five wire-format properties:
  C13  mut cases   -> TestWireMut  (structured + random mutants, decoders in memory-limited child processes)
  C14  enc cases   -> TestWireEnc  (translation validation of the format, round trips, protobuf agreement)
  C15  pair cases  -> TestWirePair (Equal vs encodings vs model; signature quadruples)
  C16  chunk cases -> TestWireChunk (chunking readers, native + protobuf, ioConn)
  C17  id cases    -> TestWireID   (NewParams / Clone / Encode / Decode / ID / machine state ids)
"""
import json, os, subprocess
import vlib

CFG = """CONSTANTS Mode = "%(mode)s" Deep = %(deep)s Need <- NeedDef MaxChunk = %(maxchunk)d Single = FALSE
SPECIFICATION CSpec
INVARIANT Framing
CHECK_DEADLOCK FALSE
"""

PROPS = {
    "C13": dict(mode="mut", test="TestWireMut"),
    "C14": dict(mode="enc", test="TestWireEnc"),
    "C15": dict(mode="pair", test="TestWirePair"),
    "C16": dict(mode="chunk", test="TestWireChunk"),
    "C17": dict(mode="id", test="TestWireID"),
}

RULES = {
    "C13": "TLC enumerates, for every value/envelope of the bounded domain, the valid token stream and every structured mutant of it (each "
           "count/length/backend-id/type/option/mask/big-int/blob token replaced by boundary and unknown values, truncation after and inside every "
           "token, address arrays grown to the participant limit and limit+1, ill-formed values with inconsistent counts) with the verdict of the "
           "grammar (value/error/any, over-limit => error); every stream is fed to the real decoder of its type, every envelope stream also to the "
           "protobuf decoder, in child processes with an address-space limit; protobuf mutants are enumerated by the driver by reflection over every "
           "field of the generated structs (missing sub-messages, repeated fields dropped/duplicated/cleared/grown past the limits, byte fields "
           "truncated/extended/emptied, unknown backend ids, out-of-range integers) and marshalled with proto.Marshal; RANDOM bit flips/splices are "
           "SAMPLED by seed (counts.random), not enumerated; distinct_nontrivial = distinct (decoder, mutation class, outcome) triples",
    "C14": "TLC checks Enc injective, prefix-free and token-deterministic over the bounded domain and exports every value with its token stream; "
           "for each the real encoder must produce exactly the concretised stream, the real decoder must return a value whose harness-side "
           "projection is the abstract value and leave exactly the sentinel unread, re-encoding must reproduce the bytes, 2 and 3 consecutive "
           "envelopes must decode in order, and the protobuf serializer must decode its own encoding to the same abstract envelope; "
           "distinct_nontrivial = distinct (value type, message type) classes",
    "C15": "TLC exports every state of the pair domain with every single-field variant (id, version, final, app, data, each balance, each asset, "
           "each backend id, each locked id/amount/index-map entry, index-map length, dimensions, sub-allocation order/duplicates) plus identical "
           "pairs, with the model's verdict per component; the real State/Allocation/Balances/SubAlloc comparison functions are compared with "
           "bytes.Equal of the real encodings and with the model, channel.Verify with (same signer and equal state) for every (signer, verifier); "
           "distinct_nontrivial = distinct single-field change kinds",
    "C16": "TLC exports envelope streams (1-3 envelopes, short ones and ones > 1500 and > 65000 bytes) with chunk schedules relative to token "
           "boundaries (all-at-once, bytewise, segments of 2/3/7/536/1400 bytes, cut before/inside/before-the-last-byte of every token, single cuts, "
           "cuts spanning envelope boundaries, seeded random partitions); each schedule is executed with the real native and protobuf "
           "EnvelopeSerializer.Decode and wirenet.ioConn.Recv over a reader that returns exactly the scheduled chunks and never EOF with data; "
           "the small behaviour spec CSpec (full-read token reader under arbitrary chunking) is model-checked (states/transitions below); "
           "distinct_nontrivial = distinct (serializer, schedule kind, number of envelopes)",
    "C17": "TLC checks that the id pre-image is injective in every listed field and exports every parameter set of the domain with every "
           "single-field variant and every constraint violation (expected accept/refuse, same/different id); executed with NewParams, Clone, "
           "Encode/Decode, CalcID and StateMachine.Init/Update; distinct_nontrivial = distinct variant kinds",
}

ASSUME = {
    "C13": ["sim backend (wallet address 64 bytes, wire address 32, asset 8, signature 64); 1-2 assets, 2-3 (and 9) participants, 0-2 sub-allocations; "
            "purely random byte strings are sampled, not characterised by the model",
            "an allocation attempt that does not fit into a 3 GiB address space counts as unbounded allocation"],
    "C14": ["bounded abstract domain: 1-2 (thorough 3) assets, 2-3 (thorough 4) and 9 participants, 0-2 (thorough 3) sub-allocations with/without index maps, "
            "amounts up to 2^31-1 (1-4 byte big integers; 128-byte ones appear as C13 mutants), all 17 message types",
            "maps with several entries (only wire address maps can have them with the single sim backend) are encoded in Go's random map order: "
            "every entry order is accepted as the encoding"],
    "C15": ["sim backend signatures (ECDSA over the state encoding); 2-3 signers; amounts are small integers"],
    "C16": ["the stream stays open: a reader that is asked for bytes beyond the last envelope reports that it would block (counted as failure); "
            "protobuf envelopes are limited to 65535 bytes by the frame format, longer ones are native-only"],
    "C17": ["collision resistance of SHA-256 is assumed; sim backend CalcID; 2-3 participants in id comparisons, 1024/1025 for the limit"],
}


def tlc_cases(scratch, mode, deep, tag):
    cfg = CFG % dict(mode=mode, deep="TRUE" if deep else "FALSE", maxchunk=3)
    r = vlib.tlc(scratch, "Wire", cfg, name="Wire_" + tag, workers=4, timeout=1500)
    if not r["ok"]:
        raise vlib.Inconclusive("TLC reports %s in Wire.tla itself (mode %s): specification error" % (r["violated"], mode))
    out = os.path.join(scratch, "cases-%s.txt" % tag)
    with open(out, "w") as f:
        f.write(r["out"])
    r["out"] = ""
    return r, out


def run(prop, tier, seed, scratch, t0):
    pr = PROPS[prop]
    binary = vlib.build_harness(scratch, pkg="./wiredrv", name="wire.test")
    deep = tier == "thorough"
    tl, dr = [], []
    r, cases = tlc_cases(scratch, pr["mode"], deep, pr["mode"])
    tl.append(r)
    env = dict(VERIF_CASES=cases, VERIF_SEED=seed, VERIF_TIER=tier)
    d = vlib.run_driver(binary, pr["test"], env, scratch, pr["mode"], timeout=3000)
    os.remove(cases)
    dr.append(d)
    counts = vlib.merge_counts(dr)
    viol = [v for d in dr for v in d["violations"] if v["kind"] == "monitor"]
    drift = [dict(sig=v["sig"], what=v["what"][:300]) for d in dr for v in d["violations"] if v["kind"] != "monitor"]
    drift += [dict(note=n[:300]) for d in dr for n in d.get("notes", [])][:20]
    cov = dict(
        states=sum(r["distinct"] for r in tl), transitions=sum(r["generated"] for r in tl),
        traces_validated_against_impl=counts.get("cases", 0),
        samples=[s for d in dr for s in d["samples"]][:4],
        distinct_nontrivial=sum(d["distinct"].get("case", 0) for d in dr),
        rule=RULES[prop], exhaustive=prop != "C13", counts=counts,
        tlc=[dict(config=r["cmd"].split("-config ")[1].split()[0], generated=r["generated"], distinct=r["distinct"], wall_s=round(r["wall"], 1)) for r in tl],
        checker_cmd="tlc -config Wire_%s.cfg Wire.tla > cases ; wire.test -test.run ^%s$" % (pr["mode"], pr["test"]),
    )
    return vlib.finish(prop, tier, seed, t0, cov, viol, ASSUME[prop], drift=drift or None)


def replay(prop, path, scratch):
    binary = vlib.build_harness(scratch, pkg="./wiredrv", name="wire.test")
    rp = json.load(open(path))
    cases = os.path.join(scratch, "replay-cases.txt")
    with open(cases, "w") as f:
        for ln in rp["lines"]:
            f.write(json.dumps(ln) + "\n")
    e = vlib.go_env()
    e.update(VERIF_CASES=cases, VERIF_SEED=str(rp.get("seed", 1)), VERIF_OUT=os.path.join(scratch, "replay.json"),
             VERIF_REPLAY_DIR=os.path.join(scratch, "rp"), VERIF_REPLAY="1")
    subprocess.run([binary, "-test.run", "^%s$" % rp["test"]], env=e, cwd=scratch, stdout=subprocess.DEVNULL, stderr=subprocess.DEVNULL)
    r = json.load(open(os.path.join(scratch, "replay.json")))
    mine = [v for v in r["violations"] if v["property"] == prop and v["kind"] == "monitor"]
    for v in mine:
        print("REPRODUCED property=%s %s" % (v["property"], v["what"][:1000]))
    return 1 if mine else 0
