"""C11: Store.tla graph (create / advance / remove of several channels) replayed on a real keyvalue.PersistRestorer."""
import concurrent.futures as cf
import os
import vlib

CFG = """CONSTANTS Chans = {%s} MaxAdv = %d
SPECIFICATION Spec
INVARIANTS ViewsConsistent
PROPERTIES Isolation
CHECK_DEADLOCK FALSE
"""


def run(prop, tier, seed, scratch, t0):
    binary = vlib.build_harness(scratch)
    if tier == "quick":
        runs = [("1,2,3", 1, "mem", dict(VERIF_WALKS=300, VERIF_NODE_STRIDE=1)),
                ("1,2", 9, "mem", dict(VERIF_WALKS=300, VERIF_NODE_STRIDE=1))]
    else:
        runs = [("1,2,3", 2, "mem", dict(VERIF_WALKS=5000, VERIF_NODE_STRIDE=1)),
                ("1,2", 9, "mem", dict(VERIF_WALKS=5000, VERIF_NODE_STRIDE=1)),
                ("1,2,3", 1, "leveldb", dict(VERIF_WALKS=500, VERIF_NODE_STRIDE=8)),
                ("1,2", 9, "leveldb", dict(VERIF_WALKS=500, VERIF_NODE_STRIDE=8))]

    def one(cfg):
        chans, adv, store, denv = cfg
        tag = "c%s_a%d_%s" % (chans.replace(",", ""), adv, store)
        r = vlib.tlc(scratch, "Store", CFG % (chans, adv), name="Store_" + tag, workers=1,
                     extra=["-dump", "dot,actionlabels", "graph.dot"], timeout=3000)
        if not r["ok"]:
            raise vlib.Inconclusive("TLC reports %s in Store.tla itself" % r["violated"])
        dot = os.path.join(r["dir"], "graph.dot")
        d = vlib.run_driver(binary, "TestStore", dict(denv, VERIF_DOT=dot, VERIF_STORE=store, VERIF_SEED=seed, VERIF_SCRATCH=scratch),
                            scratch, tag, timeout=6000)
        os.remove(dot)
        r["out"] = ""
        return r, d

    with cf.ThreadPoolExecutor(max_workers=2) as ex:
        rd = list(ex.map(one, runs))
    tl = [r for r, _ in rd]
    dr = [d for _, d in rd]
    counts = vlib.merge_counts(dr)
    viol = [v for d in dr for v in d["violations"]]
    cov = dict(
        states=sum(r["distinct"] for r in tl), transitions=counts.get("graph_edges", 0),
        traces_validated_against_impl=counts.get("walks", 0) + counts.get("edges_executed", 0),
        samples=[s for d in dr for s in d["samples"]][:3],
        evaluations=counts.get("steps", 0), distinct_nontrivial=counts.get("edges_executed", 0),
        rule="every edge of the reachable graph of Store.tla (create with every peer list and parent, advance the persisted "
             "machine, remove; incl. create-remove-create of one id) executed on a real keyvalue.PersistRestorer after the "
             "shortest path to its source, plus seeded walks; after EVERY step RestoreAll, RestorePeer for every peer, "
             "ActivePeers, RestoreChannel for every id and the raw key listing are compared with the model's live set and "
             "each restored channel with its own live machine; distinct_nontrivial = distinct graph edges executed; after every removal the store contents between its write units (a process that stops there) are restored as well: every other live channel must come back, with its own data, from RestoreChannel and from RestorePeer of each of its peers",
        exhaustive=True, stores=sorted({c[2] for c in runs}), driver_counts=counts,
        tlc=[dict(config=r["cmd"].split("-config ")[1].split()[0], generated=r["generated"], distinct=r["distinct"],
                  wall_s=round(r["wall"], 1)) for r in tl],
        checker_cmd="tlc -dump dot,actionlabels graph.dot Store.tla ; drv.test -test.run ^TestStore$",
    )
    assumptions = ["2-3 channel ids, 3 peers, 2-party channels, sim backend addresses; LevelDB only in the thorough tier"]
    return vlib.finish(prop, tier, seed, t0, cov, viol, assumptions)


def replay(prop, path, scratch):
    print("replay: store vectors are Store.tla paths; re-run ./check C11 (deterministic per seed). vector:")
    print(open(path).read()[:3000])
    return 0
