#!/bin/sh
# usage: tools/benign_wt.sh <patch.diff> [<prop>...]   (default: all 20)
# False-alarm probe: applies a property-preserving change to a PRIVATE worktree of /repo and runs the checks against it.
# Every check must exit 0 and print no VIOLATION line.  Evidence goes to a scratch directory.
patch="$1"; shift
[ $# -eq 0 ] && set -- C01 C02 C03 C04 C05 C06 C07 C08 C09 C10 C11 C12 C13 C14 C15 C16 C17 C18 C19 C20
wt=$(mktemp -d /var/tmp/benwt-XXXXXX); rmdir "$wt"
hz=$(mktemp -d /var/tmp/benhz-XXXXXX)
ev=$(mktemp -d /var/tmp/benev-XXXXXX)
git -C /repo worktree add -q --detach "$wt" HEAD || exit 2
trap 'git -C /repo worktree remove --force "$wt" 2>/dev/null; rm -rf "$hz" "$ev"' EXIT INT TERM
git -C "$wt" apply "$patch" || { echo "patch does not apply"; exit 2; }
cp -r /verif/harness/. "$hz"/
sed -i "s#=> /repo#=> $wt#" "$hz/go.mod"
bad=0
for p in "$@"; do
  out=$(VERIF_EVIDENCE="$ev" VERIF_REPO="$wt" VERIF_HARNESS="$hz" /verif/check "$p" --tier "${TIER:-quick}" 2>&1); rc=$?
  drift=$(python3 -c "import json,sys; e=json.load(open('$ev/$p.json')); print(len(e.get('coverage',{}).get('conformance_drift',[]) or []))" 2>/dev/null)
  if [ $rc -ne 0 ] || echo "$out" | grep -q "^VIOLATION"; then
    bad=1; echo "ALARM $p rc=$rc"; echo "$out" | grep -E "^(VIOLATION|  what|.*rror)" | cut -c1-400 | head -6
  else
    echo "silent $p drift=$drift"
  fi
done
exit $bad
