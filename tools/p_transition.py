"""C02: Transition.tla -> TLC (R1: rule as behaviour spec; R2: exported cases) -> real StateMachine.Update/CheckUpdate/Init."""
import concurrent.futures as cf
import json, os, subprocess
import vlib

CFG = """CONSTANTS NP = %(np)d App = "%(app)s" NAssets = %(na)d MaxAmt = %(amt)d MaxLock = %(lock)d MaxTotal = %(tot)d MaxVer = %(ver)d Export = TRUE
SPECIFICATION TSpec
INVARIANTS Conservation WellFormed
PROPERTIES NoRollback
CONSTRAINT VerBound
CHECK_DEADLOCK FALSE
"""


def configs(tier):
    base = [dict(np=2, app="none", na=1, amt=3, lock=1, tot=3, ver=2, scaled=True),
            dict(np=2, app="pay", na=1, amt=3, lock=1, tot=3, ver=2, scaled=True),
            dict(np=2, app="pay", na=2, amt=1, lock=1, tot=2, ver=1)]
    if tier == "thorough":
        base += [dict(np=2, app="none", na=2, amt=2, lock=1, tot=2, ver=1),
                 dict(np=2, app="pay", na=1, amt=4, lock=2, tot=4, ver=3),
                 dict(np=3, app="pay", na=1, amt=2, lock=1, tot=3, ver=1),
                 dict(np=3, app="none", na=1, amt=2, lock=1, tot=3, ver=1)]
    return base


def one(binary, scratch, c, seed):
    tag = "np%(np)d_%(app)s_a%(na)d_m%(amt)d_l%(lock)d_t%(tot)d_v%(ver)d" % c
    r = vlib.tlc(scratch, "Transition", CFG % c, name="Transition_" + tag, workers=4, timeout=3000)
    if not r["ok"]:
        raise vlib.Inconclusive("TLC reports %s in Transition.tla itself (%s): specification error" % (r["violated"], tag))
    out = os.path.join(scratch, "cases-%s.txt" % tag)
    with open(out, "w") as f:
        f.write(r["out"])
    r["out"] = ""
    d = vlib.run_driver(binary, "TestTransition", dict(VERIF_CASES=out, VERIF_NP=c["np"], VERIF_APP=c["app"], VERIF_SEED=seed),
                        scratch, tag, timeout=3000)
    if c.get("scaled"):
        # second pass: the same cases with every amount in units of 2^62 - totals cross 2^64 where single balances do not
        d2 = vlib.run_driver(binary, "TestTransition", dict(VERIF_CASES=out, VERIF_NP=c["np"], VERIF_APP=c["app"], VERIF_SEED=seed,
                                                            VERIF_SCALE_BITS=62), scratch, tag + "_scaled", timeout=3000)
        d["violations"] += d2["violations"]
        d["counts"]["scaled_evaluations"] = d2["counts"].get("evaluations", 0)
    os.remove(out)
    return r, d


def run(prop, tier, seed, scratch, t0):
    binary = vlib.build_harness(scratch)
    cfgs = configs(tier)
    tl, dr = [], []
    with cf.ThreadPoolExecutor(max_workers=4) as ex:
        for r, d in ex.map(lambda c: one(binary, scratch, c, seed), cfgs):
            tl.append(r)
            dr.append(d)
    counts = vlib.merge_counts(dr)
    viol = [v for d in dr for v in d["violations"]]
    distinct = sum(d["distinct"].get("case", 0) for d in dr)
    cov = dict(
        states=sum(r["distinct"] for r in tl), transitions=sum(r["generated"] for r in tl),
        traces_validated_against_impl=counts.get("cases", 0),
        samples=[s for d in dr for s in d["samples"]][:4],
        evaluations=counts.get("evaluations", 0), distinct_nontrivial=distinct,
        rule="TLC enumerates, for every current state of the bounded domain, every well-formed asset- and sum-preserving "
             "successor and every single-condition mutant of one (id, app, version, asset list, +-1 balance, negative, "
             "participant columns, ragged rows, locked vectors, ...) x every actor incl. the out-of-range one, each with the "
             "verdict of the TLA+ predicate Valid; each is executed with CheckUpdate and Update on a real machine that "
             "reached the current state by accepted updates; evaluations = (case, actor) pairs executed; "
             "distinct_nontrivial = distinct (app, mutant kind, verdict, first violated condition) classes executed",
        exhaustive=True, cases=counts.get("cases", 0), current_states=counts.get("current_states", 0),
        tlc=[dict(config=r["cmd"].split("-config ")[1].split()[0], generated=r["generated"], distinct=r["distinct"],
                  wall_s=round(r["wall"], 1)) for r in tl],
        checker_cmd="tlc -config Transition_<cfg>.cfg Transition.tla > cases ; drv.test -test.run ^TestTransition$",
    )
    assumptions = ["amounts are small integers (math/big itself is trusted); 2-3 participants; 1-2 assets; at most one locked "
                   "sub-allocation in current states; payment app and no-app; sim backend",
                   "backend ids of assets are not mutated (single backend in the tree)"]
    return vlib.finish(prop, tier, seed, t0, cov, viol, assumptions)


def replay(prop, path, scratch):
    binary = vlib.build_harness(scratch)
    rp = json.load(open(path))
    e = vlib.go_env()
    e.update(VERIF_CASES=os.path.abspath(path), VERIF_REPLAY_LINE=rp["case"], VERIF_NP=str(rp["np"]), VERIF_APP=rp["app"],
             VERIF_SCALE_BITS=str(rp.get("scale_bits", 0)),
             VERIF_OUT=os.path.join(scratch, "replay.json"), VERIF_REPLAY_DIR=os.path.join(scratch, "rp"))
    subprocess.run([binary, "-test.run", "^TestTransition$"], env=e, cwd=scratch)
    r = json.load(open(os.path.join(scratch, "replay.json")))
    for v in r["violations"]:
        print("REPRODUCED property=%s %s" % (v["property"], v["what"]))
    return 1 if r["violations"] else 0
