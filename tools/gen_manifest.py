#!/usr/bin/env python3
"""Regenerates /verif/MANIFEST.json from the table below (one entry per claimed property)."""
import json, subprocess
IDS = ["C%02d" % i for i in range(1, 21)]
HOOK_COMMITS = []
CLAIMED = {
 "C01": dict(
  text="TLC enumerates the complete reachable state graph of Machine.tla (every operation of the state machine, incl. wrong-phase calls, valid/foreign/replayed/garbage/malformed/empty signatures at every index, forced updates, all phase setters; N in {2,3}, every own index) and checks CurrentSigned/StagingSigsSound on the design; every edge of that graph is then executed on a real channel.StateMachine and after every step each stored signature of the staged and current transaction is re-verified with channel.Verify against Params().Parts. Exhaustive within the bounded alphabet, plus all 2-step prefixes and seeded random walks for path dependence.",
  note="Trusted: TLC, the sim backend's ECDSA, the harness projection. Bounds: candidate versions <= MaxVer (1 quick / 2 thorough), N <= 3, no-app; alphabet filters listed in the evidence.", ref="5/C01",
  technique="explicit TLA+ spec (Machine.tla), TLC exhaustive state graph, every transition replayed on the real object; signatures independently re-verified after each step"),
 "C09": dict(
  text="Machine.tla is written from the doc comments of each method and the phase table; TLC dumps its complete reachable graph with outcome-named actions (XOk/XErr). Every edge - all 12 phases x the complete operation alphabet, including every refused call - is executed on a real channel.StateMachine and compared: error/nil with the predicted outcome class, projected (phase, staged tx, current tx) with the predicted post-state, byte equality of both transactions around every refused call; a panic counts as neither success nor error.",
  note="Trusted: TLC, harness projection. The specification is the reference automaton (doc comments); bounds as for C01.", ref="5/C09",
  technique="explicit TLA+ spec (Machine.tla), TLC exhaustive state graph, every transition replayed on the real object with state comparison"),
 "C02": dict(
  text="Transition.tla transcribes the documented successor rule as a TLA+ predicate. TLC (a) checks the rule as a behaviour specification (funds conserved per asset, version +1, final is terminal, id/app/assets constant) and (b) enumerates for every current state of a bounded domain every well-formed conserving successor and every single-condition mutant of one, x every actor, with the predicate's verdict. Every case is executed on a real StateMachine that reached the current state by accepted updates (CheckUpdate, Update, staged state, Sig after refusal); Init cases likewise.",
  note="Trusted: TLC's evaluation of the predicate (independent of the Go code), math/big. Bounds: 2-3 participants, 1-2 assets, amounts <= 4, <= 1 locked sub-allocation in current states, payment app and no-app.", ref="5/C02",
  technique="explicit TLA+ spec of the transition rule (Transition.tla), TLC-enumerated cases with predicted verdicts executed against the real machine"),
 "C19": dict(
  text="Clone.tla defines deep-copy semantics over the mutable leaves of a value; TLC enumerates every behaviour (modifications of any leaf on either side, in place or by slot, before and after cloning) and the driver executes each on real values of every cloneable type and shape, comparing every leaf of both sides with the model after each step, plus Equal right after cloning and a reachability walk for memory reachable from both. Machine clones are taken in every state of the Machine.tla graph and every state-changing operation is applied to one side while the other must keep its projection.",
  note="Trusted: TLC, the harness leaf accessors and reflect walk. Bounds: MaxMut=2 modifications per behaviour; shapes listed in harness/drv/clone.go; machine graph bounds as C01.", ref="5/C19",
  technique="explicit TLA+ spec (Clone.tla + Machine.tla graph), TLC-enumerated behaviours replayed on real values with leaf-by-leaf comparison and shared-memory walk"),
 "C10": dict(
  text="Persist.tla models every call of the persisting state machine as the machine step followed by the store write units (batches / single puts) of its persister call, with a crash possible at every unit boundary and continuation from a restored machine; TLC checks CrashConsistent and RestoredSigsSound exhaustively. The histories of the Machine.tla graph (every edge after its shortest path, plus seeded walks) are executed on a real persistence.StateMachine over keyvalue.PersistRestorer over a store wrapper that freezes the store at EVERY write boundary; RestoreChannel on each frozen store is compared with snapshots of the live machine before/after the call (index, params, phase, current tx, staged state, every staged signature re-verified, peers, parent); walks also crash, restore and continue.",
  note="Trusted: TLC, the harness store wrapper (memorydb/LevelDB content copied at each unit), batch atomicity of both stores. Bounds as for C01; LevelDB in the thorough tier.", ref="5/C10",
  technique="explicit TLA+ specs (Persist.tla crash model checked by TLC; Machine.tla graph as history generator), exhaustive crash-point enumeration on the real persister with restore comparison"),
 "C11": dict(
  text="Store.tla defines the restorer views (RestorePeer, ActivePeers, RestoreAll, RestoreChannel, raw keys) as functions of the set of live channels; TLC dumps the complete reachable graph of create (every peer list / parent) / advance / remove over 2-3 channel ids incl. re-creation. Every edge is executed on a real keyvalue.PersistRestorer (memorydb; LevelDB in thorough) and after every step all views and the raw key listing are compared with the model and every restored channel with its own live machine (collect-then-use, as the client does). One channel has 10 participants (signature-key width).",
  note="Trusted: TLC, harness comparison. Bounds: 3 ids x 1-2 machine steps, 2 ids x 9 steps, 3 peers.", ref="5/C11",
  technique="explicit TLA+ spec (Store.tla), TLC exhaustive state graph, every transition replayed on the real persister with all restorer views compared"),
 "C20": dict(
  text="Multi.tla models multi.Adjudicator.dispatch and multi.Funder.Fund: one sub-call per distinct (backend, ledger) of the asset list in first-occurrence order, any completion order, error as soon as a failed or missing ledger is collected, egoistic ledger only after all others succeeded; TLC checks AtMostOnce/SuccessSound/EgoLast and enumerates every scenario (asset lists with repetitions and a non-multi asset x registered subsets x failing subsets x method) x every completion order. Each behaviour is replayed in a synctest bubble on the real code with per-ledger adjudicators/funders blocking on gates opened in the TLC-chosen order; per-ledger call states/counts and the result are compared after every step.",
  note="Trusted: TLC, synctest quiescence, harness fakes. Bounds: 3 ledgers on 2 backends, lists <= 3 (4 thorough). A result reported later than specified (but equal) counts as conformance drift, not as violation.", ref="5/C20",
  technique="explicit TLA+ spec (Multi.tla), TLC exhaustive state graph incl. all completion orders, every behaviour replayed on the real code with gated sub-calls"),
 "C05": dict(
  text="Watcher.tla states the property's rule directly (when to refute, with which parent/sub-channel/archived versions in which order, when to relay, refused stop). TLC checks OneCall/CallNewest/RelayIncreasing/RefusedStopKeeps and dumps the complete reachable graph for one sub-channel; every edge is replayed after its shortest path, plus TLC-simulated behaviours with two sub-channels, in synctest bubbles on the real local.Watcher with a scripted RegisterSubscriber: Register arguments, events on every AdjudicatorSub and API results are compared with the model after every step; leftover blocked goroutines and panics are violations.",
  note="Trusted: TLC, synctest quiescence (virtual 1 ms drain timer), harness fakes. Bounds: versions <= 2 (3 thorough), 1 sub-channel exhaustively, 2 by simulation; steps separated by quiescence.", ref="5/C05",
  technique="explicit TLA+ spec (Watcher.tla), TLC exhaustive state graph + simulated behaviours, every behaviour replayed on the real watcher with outputs compared per step"),
 "C18": dict(
  text="Relay.tla gives the sequential meaning of wire.Relay with its cache (put fan-out / cache / default handler, subscribe taking cached envelopes, cache predicates, consumer close, relay close); TLC checks NoWrongNoDup/ExactlyOnePlace and dumps the reachable graph. (a) Every edge is replayed on a real relay with recording consumers; (b) seeded concurrent runs of the real relay are recorded (call/return per operation under one log mutex, final bags) and validated by TLC against RelayTrace.tla, which linearises each operation between its call and return and treats the asynchronous consumer removal as a silent step; (c) free-running 16-goroutine stress with a schedule-independent exactly-once accounting monitor.",
  note="Trusted: TLC, log mutex ordering, recording consumers. Interleavings inside the relay come from the Go scheduler (not enumerated); no hooks in /repo were needed. Bounds: 3-4 envelopes x 2-3 consumers sequentially; 300/3000 recorded traces.", ref="5/C18",
  technique="explicit TLA+ spec (Relay.tla) + trace validation of recorded concurrent executions by TLC (RelayTrace.tla) + exhaustive sequential replay"),
 "C06": dict(
  text="Update.tla models the update protocol at burst granularity (call start, channel-mutex hand-over, stage/sign/send, delivery, handler answer, accept/reject, response cache of the channel relay, cancelled/expired contexts); TLC checks the five C06 formulas exhaustively on the design and simulates behaviours, each of which is replayed on two real clients (one or two channels of the pair, steps interleaved) in a synctest bubble with a scheduled bus, strict ledger, recording persisters and scripted handlers. The verdict comes from property monitors on the real observations after every environment step; the comparison with the detailed model is reported as conformance drift.",
  note="Trusted: TLC, synctest quiescence, harness environment. Bounds: 2 honest clients, versions <= 3, <= 2-3 Update calls per party, no lost/duplicated envelopes; behaviours are sampled by TLC simulation (800 quick / 30000 thorough), the design check is exhaustive.", ref="5/C06",
  technique="explicit TLA+ spec (Update.tla) model-checked by TLC; TLC-simulated schedules replayed on two real clients with scheduled message delivery; property monitors + step-wise conformance"),
 "C03": dict(
  text="Settle.tla models the life of a ledger channel on the strict reference ledger (funding agreement, accepted/rejected payments in both directions, updates held in flight, optional paying final update, either side settling first - cooperatively or through registration and the challenge period); TLC checks Conservation and HonestPayout exhaustively and dumps the graph. Every edge is replayed after its shortest path, plus TLC-simulated behaviours, on two honest real clients in synctest bubbles; monitors on the real strict ledger: funding takes exactly the agreed amounts, conservation at every step, after both settled each account = deposit - funding + balance in the last state both signed, nothing remains held.",
  note="Trusted: TLC, synctest virtual time, the harness' strict ledger (signature/version/time-out/registered-state checks) as stand-in for the contracts. Bounds: 2 parties, 1 asset, versions <= 2 (3 thorough); sub-channel open/close is not part of the scenarios yet (DESIGN.md, limits).", ref="5/C03",
  technique="explicit TLA+ spec (Settle.tla), TLC exhaustive state graph + simulation, behaviours replayed on two real clients against a strict reference ledger with money monitors"),
 "C04": dict(
  text="Settle.tla in adversary mode: party B additionally registers EVERY earlier fully signed version directly on the ledger at every point of every history (also at each stage of an update in flight, and interleaved with the delivery of the response and the ledger's event emission) and concludes after the challenge period; A is an unmodified client that only watches (real local.Watcher on the ledger's subscription). TLC checks the formulas on the design; every edge of the graph and TLC-simulated behaviours are replayed on real clients; monitor on the real ledger: once A has settled its account is at least its balance in the newest state ever enabled at A (and conservation).",
  note="Trusted as for C03. The adversary deviates only by registering/concluding earlier signed states; its client runs no refuting watcher. One genuine defect is recorded as known finding (registration while an update proposed by the honest client is in flight).", ref="5/C04",
  technique="explicit TLA+ spec (Settle.tla, adversary mode), TLC exhaustive state graph + simulation, behaviours replayed on real clients with the real watcher against a strict reference ledger"),
}
NA_REASON = "check not built yet (work in progress, see DESIGN.md section 11); not a statement that the technique cannot apply"
checks = []
for i in IDS:
    if i in CLAIMED:
        c = CLAIMED[i]
        checks.append(dict(property_id=i, quick_cmd="./check %s --tier quick" % i, thorough_cmd="./check %s --tier thorough" % i,
                           evidence_file="/verif/evidence/%s.json" % i, replay_cmd_template="./check %s --replay {path}" % i,
                           engine="tlc+go-driver",
                           level_claimed=dict(category="model_checking", text=c["text"], design_ref=c["ref"]),
                           level_note=c["note"], technique=c["technique"]))
m = dict(version=1, setup_cmd="./setup.sh",
         hooks=dict(guard="verif", enable="go1.26 test -c -tags verif (harness module with replace perun.network/go-perun => /repo)",
                    baseline_off_cmd="cd /repo && go test -vet=off -count=1 -timeout 25m ./...",
                    source_commits=HOOK_COMMITS, add_only=True),
         engines=[dict(name="tlc+go-driver", path="/verif/check", serves_properties=sorted(CLAIMED),
                       kind_free_text="TLA+ specifications in /verif/spec checked by TLC; state graphs / behaviours / case sets replayed on the real go-perun objects and traces of the real code validated by TLC (harness in /verif/harness)")],
         checks=checks,
         notes="See DESIGN.md. known_findings.json lists recorded and fixed defects; seeded/ holds confirmed seeded changes and which checks detect them.",
         not_applicable=[dict(property_id=i, reason=NA_REASON) for i in IDS if i not in CLAIMED])
json.dump(m, open("/verif/MANIFEST.json", "w"), indent=1)
print("claimed:", sorted(CLAIMED))
