"""C01 / C09: Machine.tla -> TLC (R1 + state-graph dump) -> real channel.StateMachine (R2)."""
import concurrent.futures as cf
import os, subprocess, time
import vlib

CFG = """CONSTANTS N = %d Me = %d MaxVer = %d WithNarrow = TRUE
SPECIFICATION Spec
INVARIANTS TypeOK CurrentSigned StagingSigsSound UnsignedOnlyAdopted
PROPERTIES PhaseMoves OwnSigOnlyWhenSigning
"""


def configs(tier):
    if tier == "quick":
        return [(2, 0, 1), (2, 1, 1)], dict(VERIF_SEQLEN=2, VERIF_WALKS=2000, VERIF_WALKDEPTH=30)
    return [(2, 0, 2), (2, 1, 2), (3, 0, 1), (3, 1, 1), (3, 2, 1)], dict(VERIF_SEQLEN=2, VERIF_WALKS=30000, VERIF_WALKDEPTH=40)


def one(binary, scratch, n, me, maxver, denv, seed):
    tag = "N%dMe%dV%d" % (n, me, maxver)
    r = vlib.tlc(scratch, "Machine", CFG % (n, me, maxver), name="Machine_" + tag, workers=1,
                 extra=["-dump", "dot,actionlabels", "graph.dot"], timeout=3000)
    if not r["ok"]:
        raise vlib.Inconclusive("TLC reports %s in Machine.tla itself (%s): specification error, not a verdict on the code"
                                % (r["violated"], tag))
    dot = os.path.join(r["dir"], "graph.dot")
    env = dict(denv, VERIF_DOT=dot, VERIF_N=n, VERIF_ME=me, VERIF_SEED=seed,
               VERIF_WORKERS=max(2, vlib.NCPU // 2))
    d = vlib.run_driver(binary, "TestMachine", env, scratch, tag, timeout=3000)
    os.remove(dot)
    return r, d


TCFG = """CONSTANTS N = 2 Me = 0 MaxVer = %d WithNarrow = FALSE LogFile = "%s"
SPECIFICATION TSpec
INVARIANTS CurrentSigned StagingSigsSound
CONSTRAINT Mark
POSTCONDITION Accepted
CHECK_DEADLOCK FALSE
"""


def scenario_traces(prop, scratch, seed, tl, dr):
    import json, re
    sbin = vlib.build_harness(scratch, pkg="./scen", name="scen.test")
    tdir = os.path.join(scratch, "tlc-MachineTrace")
    os.makedirs(tdir, exist_ok=True)
    trace = os.path.join(tdir, "trace.ndjson")
    d = vlib.run_driver(sbin, "TestRepoScenarios", dict(VERIF_TRACE_OUT=trace, VERIF_SEED=seed), scratch, "scen", timeout=1200)
    lines = [json.loads(ln) for ln in open(trace) if ln.strip()]
    maxv = max([1] + [max(l["cv"], l["sv"]) for l in lines]) + 1
    rt = vlib.tlc(scratch, "MachineTrace", TCFG % (maxv, "trace.ndjson"), name="MachineTrace", workers=1, timeout=3000)
    out = rt["out"]
    rt["out"] = ""
    tl.append(rt)
    info = dict(scenarios=d["counts"].get("scenarios", 0), traces=d["counts"].get("traces", 0), lines=len(lines), accepted=rt["ok"])
    d["counts"] = dict(scenario_traces=info["traces"], scenario_trace_lines=len(lines))
    if not rt["ok"]:
        viol = rt["violated"] or ""
        inv = "nvariant" in viol
        if not inv and "ostcondition" not in viol:
            raise vlib.Inconclusive("TLC failed on MachineTrace: %s" % viol)
        m = re.search(r"high-water mark\D+(\d+)", out)
        k = min(int(m.group(1)), len(lines)) - 1 if m else len(lines) - 1
        lo = k
        while lo > 0 and lines[lo]["ev"] != "reset":
            lo -= 1
        rp = os.path.join(scratch, "replays")
        os.makedirs(rp, exist_ok=True)
        dst = os.path.join(rp, "%s-scenario-trace.ndjson" % prop)
        with open(dst, "w") as f:
            for l in lines[lo:k + 1]:
                f.write(json.dumps(l) + "\n")
        bad = lines[k]
        if inv and prop == "C01":
            d["violations"].append(dict(property="C01", kind="monitor", sig="scenario|%s|%s" % (bad["scen"], viol.split()[1] if len(viol.split()) > 1 else "invariant"),
                                        what="in the repository's scenario '%s' the machine of %s (channel %s...) reaches a state that violates %s: "
                                             "the recorded trace up to that state is the replay" % (bad["scen"], bad["who"], bad["ch"][:8], viol), replay=dst))
        elif not inv and prop == "C09":
            d["violations"].append(dict(property="C09", kind="monitor", sig="scenario|%s|%s" % (bad["scen"], bad["ev"]),
                                        what="in the repository's scenario '%s' the machine of %s (channel %s...) makes a step that no operation of "
                                             "Machine.tla explains: persister call '%s' leading to phase %s, current v%d, staged v%d (line %d of its "
                                             "trace)" % (bad["scen"], bad["who"], bad["ch"][:8], bad["ev"], bad["ph"], bad["cv"], bad["sv"], k - lo), replay=dst))
    else:
        # negative control of the binding: the same log with one signature flag of an enabled state cleared must be rejected
        neg = [dict(l) for l in lines]
        k = next((i for i, l in enumerate(neg) if l["ev"] == "enabled" and l["cv"] >= 1), None)
        if k is not None:
            neg[k]["csig"] = [neg[k]["csig"][0], False]
            ndir = os.path.join(scratch, "tlc-MachineTrace_neg")
            os.makedirs(ndir, exist_ok=True)
            with open(os.path.join(ndir, "trace_neg.ndjson"), "w") as f:
                for l in neg:
                    f.write(json.dumps(l) + "\n")
            rn = vlib.tlc(scratch, "MachineTrace", TCFG % (maxv, "trace_neg.ndjson"), name="MachineTrace_neg", workers=1, timeout=3000)
            if rn["ok"]:
                raise vlib.Inconclusive("negative control: a corrupted scenario trace was accepted by MachineTrace.tla")
            info["negative_control"] = "rejected as required"
    dr.append(d)
    return info


def proof(scratch):
    """C01 at the level of the specification for every N and MaxVer: tlapm re-checks spec/proofs/MachineProof.tla (the
    conjunction of StagingSigsSound and CurrentSigned is an inductive invariant of Machine!Spec).  The proof depends on the
    specification only, never on /repo: its outcome is evidence and has no influence on the verdict."""
    import re
    import shutil
    d = os.path.join(scratch, "proof")
    os.makedirs(d, exist_ok=True)
    try:
        shutil.copy(os.path.join(vlib.VERIF, "spec", "Machine.tla"), d)
        shutil.copy(os.path.join(vlib.VERIF, "spec", "proofs", "MachineProof.tla"), d)
        p = subprocess.run(["tlapm", "--threads", "8", "MachineProof.tla"], cwd=d, text=True, timeout=600,
                           stdout=subprocess.PIPE, stderr=subprocess.STDOUT)
        m = re.search(r"All (\d+) obligations proved", p.stdout)
        if m:
            return dict(theorem="Machine!Spec => [](CurrentSigned /\\ StagingSigsSound), N, MaxVer arbitrary", prover="tlapm (TLAPS)",
                        obligations=int(m.group(1)), proved=True)
        m = re.search(r"(\d+)/(\d+) obligations failed", p.stdout)
        return dict(proved=False, detail=m.group(0) if m else p.stdout[-300:])
    except Exception as e:  # tool missing, time-out
        return dict(proved=False, detail=repr(e))
    finally:
        shutil.rmtree(d, ignore_errors=True)


def run(prop, tier, seed, scratch, t0):
    binary = vlib.build_harness(scratch)
    cfgs, denv = configs(tier)
    tl, dr = [], []
    with cf.ThreadPoolExecutor(max_workers=3) as ex:
        futs = [ex.submit(one, binary, scratch, n, me, mv, denv, seed) for (n, me, mv) in cfgs]
        for f in futs:
            r, d = f.result()
            tl.append(r)
            dr.append(d)
    # R3: the repository's own client scenarios, recorded at the persister (the linearisation point of every machine
    # operation inside a real client) and validated by TLC against Machine.tla (MachineTrace.tla)
    scen = scenario_traces(prop, scratch, seed, tl, dr)
    if prop == "C09":  # channel.ActionMachine: ActionMachine.tla, every edge
        for (n, me) in ([(2, 0), (2, 1)] if tier == "quick" else [(2, 0), (2, 1), (3, 1)]):
            ra = vlib.tlc(scratch, "ActionMachine", "CONSTANTS N = %d Me = %d MaxVer = 2\nSPECIFICATION Spec\nINVARIANTS CurrentAfterInit\n"
                          "CHECK_DEADLOCK FALSE\n" % (n, me), name="ActionMachine_N%dMe%d" % (n, me), workers=1,
                          extra=["-dump", "dot,actionlabels", "graph.dot"], timeout=3000)
            if not ra["ok"]:
                raise vlib.Inconclusive("TLC reports %s in ActionMachine.tla itself" % ra["violated"])
            adot = os.path.join(ra["dir"], "graph.dot")
            da = vlib.run_driver(binary, "TestActionMachine", dict(VERIF_DOT=adot, VERIF_N=n, VERIF_ME=me, VERIF_SEED=seed), scratch,
                                 "am%d%d" % (n, me), timeout=3000)
            os.remove(adot)
            da["counts"] = dict(actionmachine_edges=da["counts"].get("edges_executed", 0), actionmachine_steps=da["counts"].get("steps", 0))
            ra["out"] = ""
            tl.append(ra)
            dr.append(da)
    counts = vlib.merge_counts(dr)
    viol = [v for d in dr for v in d["violations"]]
    other = "C09" if prop == "C01" else "C01"
    drift = sorted({v["sig"] for v in viol if v["property"] == other})
    samples = [s for d in dr for s in d["samples"]][:4]
    nontriv = counts.get("edges_executed_total", 0)
    scen_rule = (" In addition (R3) the repository's own client scenarios (payments with / without app, dispute, sub-channels, sub-channel "
                 "dispute, forced progression, persistence / restore, virtual channel optimistic / dispute) run with a recording persister; "
                 "the machine-level trace of every (client, channel) - kind of persister call and projected state with re-verified "
                 "signatures after every machine operation - is validated by TLC against Machine.tla (MachineTrace.tla: every line "
                 "must be explained by an operation of the specification, CurrentSigned / StagingSigsSound evaluated in every state; "
                 "a corrupted copy of the log must be rejected).")
    if prop == "C01":
        rule = ("every edge (abstract machine state, operation with arguments, predicted result class) of the reachable graph of "
                "Machine.tla executed on a real channel.StateMachine; after every step every stored signature of StagingTX()/"
                "CurrentTX() is re-verified with channel.Verify against Params().Parts and the transaction's own state; "
                "distinct = distinct graph edges executed")
    else:
        rule = ("every edge of the reachable graph of Machine.tla (12 phases x complete operation alphabet, incl. refused calls) "
                "executed on a real channel.StateMachine and compared: error/nil vs. predicted outcome class, projected "
                "(phase, staged tx, current tx) vs. predicted post-state, byte-equality of both transactions around every "
                "refused call, panics; distinct = distinct graph edges executed")
    cov = dict(
        states=sum(r["distinct"] for r in tl), transitions=counts.get("graph_edges", 0),
        traces_validated_against_impl=counts.get("walks", 0) + counts.get("gseq_sequences", 0) + counts.get("graph_states", 0),
        samples=samples, evaluations=counts.get("steps", 0), distinct_nontrivial=nontriv, rule=rule + scen_rule,
        exhaustive=True, recorded_scenario_traces=scen, specification_proof=proof(scratch) if prop == "C01" else None,
        tlc=[dict(config=r["cmd"].split("-config ")[1].split()[0], generated=r["generated"], distinct=r["distinct"],
                  depth=r["depth"], wall_s=round(r["wall"], 1)) for r in tl],
        configurations=["N=%d Me=%d MaxVer=%d" % c for c in cfgs],
        driver_counts={k: v for k, v in counts.items() if not k.startswith("edges_") or k == "edges_executed_total"},
        edges_executed_per_action={k[6:]: v for k, v in counts.items() if k.startswith("edges_") and k != "edges_executed_total"},
        checker_cmd="tlc -config Machine_<cfg>.cfg -dump dot,actionlabels graph.dot Machine.tla ; drv.test -test.run ^TestMachine$",
    )
    assumptions = [
        "sim backend (the only backend in the tree); no-app; participants N<=3; candidate versions <= MaxVer",
        "alphabet restrictions of Machine.tla: CheckUpdate/SetProgressing/SetProgressed candidates near the current version; "
        "AddSig offers signatures by any participant over the staged state, the current state and the staged state's twin, plus garbage",
        "ForceUpdate only on machines with a current state (the property's quantifier)",
    ]
    return vlib.finish(prop, tier, seed, t0, cov, viol, assumptions, drift=drift)


def replay(prop, path, scratch):
    binary = vlib.build_harness(scratch)
    e = vlib.go_env()
    e.update(VERIF_REPLAY=os.path.abspath(path), VERIF_OUT=os.path.join(scratch, "replay.json"))
    p = subprocess.run([binary, "-test.run", "^TestMachineReplay$", "-test.v"], env=e, cwd=scratch, text=True,
                       stdout=subprocess.PIPE, stderr=subprocess.STDOUT)
    print(p.stdout)
    return 1 if "REPRODUCED property=" in p.stdout else 0
