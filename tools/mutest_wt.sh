#!/bin/sh
# usage: tools/mutest_wt.sh <patch.diff> <prop> [<prop>...]
# Like mutest.sh, but applies the seeded change to a PRIVATE worktree of /repo (HEAD) and a private copy of the harness,
# so that /repo is never touched (safe while other checks are running). Evidence files go to a scratch directory.
patch="$1"; shift
wt=$(mktemp -d /var/tmp/mutwt-XXXXXX); rmdir "$wt"
hz=$(mktemp -d /var/tmp/muthz-XXXXXX)
ev=$(mktemp -d /var/tmp/mutev-XXXXXX)
git -C /repo worktree add -q --detach "$wt" HEAD || exit 2
trap 'git -C /repo worktree remove --force "$wt" 2>/dev/null; rm -rf "$hz" "$ev"' EXIT INT TERM
git -C "$wt" apply "$patch" || { echo "patch does not apply"; exit 2; }
cp -r /verif/harness/. "$hz"/
sed -i "s#=> /repo#=> $wt#" "$hz/go.mod"
for p in "$@"; do
  VERIF_EVIDENCE="$ev" VERIF_REPO="$wt" VERIF_HARNESS="$hz" /verif/check "$p" --tier "${TIER:-quick}" 2>/dev/null | grep -E "^(VIOLATION|KNOWN-FINDING|  what)" | cut -c1-400 | head -8
  echo "== $p done"
done
