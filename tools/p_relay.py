"""C18: Relay.tla (sequential meaning) -> (a) every sequential history replayed on a real wire.Relay, (b) recorded
concurrent executions validated by TLC against RelayTrace.tla (linearisation between call and return), (c) free-running
stress with the exactly-once accounting monitor."""
import concurrent.futures as cf
import json, os, re, shutil
import vlib

CFG = """CONSTANTS AEnvs = {%s} BEnvs = {%s} Consumers = {%s}
SPECIFICATION Spec
INVARIANTS NoWrongNoDup ExactlyOnePlace NothingFromNowhere
CHECK_DEADLOCK FALSE
"""
TCFG = """CONSTANTS AEnvs = {%s} BEnvs = {%s} Consumers = {%s} LogFile = "trace.ndjson"
SPECIFICATION TSpec
CONSTRAINT Mark
POSTCONDITION Accepted
CHECK_DEADLOCK FALSE
"""


def names(prefix, n):
    return ", ".join('"%s%d"' % (prefix, i) for i in range(1, n + 1))


def run(prop, tier, seed, scratch, t0):
    binary = vlib.build_harness(scratch)
    if tier == "quick":
        gcfg, traces, tw, tops, rounds = (2, 1, 2), 300, 3, 6, 60
    else:
        gcfg, traces, tw, tops, rounds = (2, 2, 2), 1500, 3, 7, 800
    tl, dr = [], []
    # (a) sequential histories
    r = vlib.tlc(scratch, "Relay", CFG % (names("a", gcfg[0]), names("b", gcfg[1]), names("c", gcfg[2])), name="Relay_graph",
                 workers=1, extra=["-dump", "dot,actionlabels", "graph.dot"], timeout=3000)
    if not r["ok"]:
        raise vlib.Inconclusive("TLC reports %s in Relay.tla itself" % r["violated"])
    dot = os.path.join(r["dir"], "graph.dot")
    r["out"] = ""
    tl.append(r)
    shards = 8

    def shard(k):
        return vlib.run_driver(binary, "TestRelaySeq", dict(VERIF_DOT=dot, VERIF_SHARD=k, VERIF_SHARDS=shards), scratch,
                               "rseq%d" % k, timeout=6000)

    with cf.ThreadPoolExecutor(max_workers=shards) as ex:
        sres = list(ex.map(shard, range(shards)))
    os.remove(dot)
    dr += sres
    # (b) recorded concurrent traces validated by TLC
    tdir = os.path.join(scratch, "tlc-RelayTrace")
    os.makedirs(tdir, exist_ok=True)
    trace = os.path.join(tdir, "trace.ndjson")
    d = vlib.run_driver(binary, "TestRelayTrace", dict(VERIF_TRACE_OUT=trace, VERIF_TRACES=traces, VERIF_TRACE_WORKERS=tw,
                                                       VERIF_TRACE_OPS=tops, VERIF_SEED=seed), scratch, "rtrace", timeout=600, crash_prop="C18")
    dr.append(d)
    nenv = tw * tops + 1
    viol = [v for x in dr for v in x["violations"]]
    validated = traces
    rt = None
    if d.get("_rc", 0) == 0:  # (a driver that died inside the library has no complete log: its crash is the report)
        # TLC handles behaviours of at most 65535 states: the log is validated in pieces of whole traces
        pieces, cur = [], []
        for ln in open(trace):
            if not ln.strip():
                continue
            if '"ev":"reset"' in ln.replace(" ", "") and len(cur) > 12000:
                pieces.append(cur)
                cur = []
            cur.append(ln)
        if cur:
            pieces.append(cur)
        for k, piece in enumerate(pieces):
            pf = os.path.join(tdir, "piece%d.ndjson" % k)
            with open(pf, "w") as f:
                f.writelines(piece)
            rt = vlib.tlc(scratch, "RelayTrace", (TCFG % (names("a", nenv), names("b", nenv), names("c", 2 * tw) + ', "cz"')).replace(
                "trace.ndjson", "piece%d.ndjson" % k), name="RelayTrace", workers=1, timeout=3000)
            rt_out = rt["out"]
            rt["out"] = ""
            if k == 0 or not rt["ok"]:
                tl.append(rt)
            else:
                tl[-1]["generated"] += rt["generated"]
                tl[-1]["distinct"] += rt["distinct"]
            if not rt["ok"]:
                trace = pf
                break
    else:
        validated = 0
    if rt is not None and not rt["ok"]:
        if "ostcondition" not in (rt["violated"] or ""):
            raise vlib.Inconclusive("TLC failed on RelayTrace: %s" % rt["violated"])
        # no linearisation explains a recorded execution: cut it out of the log by the high-water mark of matched lines
        m = re.search(r"high-water mark\D+(\d+)", rt_out)
        rp = os.path.join(scratch, "replays")
        os.makedirs(rp, exist_ok=True)
        dst = os.path.join(rp, "C18-rejected-trace.ndjson")
        lines = [ln for ln in open(trace) if ln.strip()]
        lo = hi = min(int(m.group(1)), len(lines)) - 1 if m else 0
        while lo > 0 and '"ev":"reset"' not in lines[lo - 1].replace(" ", ""):
            lo -= 1
        while hi < len(lines) - 1 and '"ev":"reset"' not in lines[hi].replace(" ", ""):
            hi += 1
        with open(dst, "w") as f:
            f.writelines(lines[lo:hi + 1] if m else lines)
        ops = []
        for ln in lines[lo:hi + 1]:
            e = json.loads(ln)
            if e.get("ev") == "call":
                ops.append("%s(%s%s)" % (e["op"], e.get("a1", ""), "," + e["a2"] if e.get("a2") else ""))
        viol.append(dict(property="C18", kind="monitor", sig="trace-rejected",
                         what="a recorded concurrent execution of the real relay is not explained by any linearisation of "
                              "Relay.tla (results of the operations and final bags of envelopes per consumer/default handler); "
                              "operations of the rejected trace: %s; TLC matched the log up to line %s" %
                              (" ".join(ops)[:600], m.group(1) if m else "?"), replay=dst))
        validated = 0
    # negative control of the binding: one recorded trace with one delivered envelope removed must be rejected
    neg = "skipped (validation failed)"
    if rt is not None and rt["ok"]:
        neg = negative_control(scratch, trace, tdir, nenv, tw)
    # (c) stress
    ds = vlib.run_driver(binary, "TestRelayStress", dict(VERIF_STRESS_ROUNDS=rounds, VERIF_SEED=seed), scratch, "rstress", timeout=1200,
                         crash_prop="C18")
    dr.append(ds)
    viol += ds["violations"]
    # (d) wire.Receiver, the consumer go-perun subscribes itself: what the relay hands over must also come out of Next
    rr = vlib.tlc(scratch, "Receiver", "CONSTANTS MaxPut = %d\nSPECIFICATION Spec\nINVARIANTS NoLoss WaitsOnlyWhenEmpty\nCHECK_DEADLOCK FALSE\n"
                  % (3 if tier == "quick" else 4), name="Receiver", workers=1, extra=["-dump", "dot,actionlabels", "graph.dot"], timeout=600)
    if not rr["ok"]:
        raise vlib.Inconclusive("TLC reports %s in Receiver.tla itself" % rr["violated"])
    rdot = os.path.join(rr["dir"], "graph.dot")
    rr["out"] = ""
    tl.append(rr)
    dv = vlib.run_driver(binary, "TestReceiver", dict(VERIF_DOT=rdot, VERIF_SEED=seed), scratch, "receiver", timeout=1200, crash_prop="C18")
    os.remove(rdot)
    dr.append(dv)
    viol += dv["violations"]
    counts = vlib.merge_counts(dr)
    counts["graph_states"] = sres[0]["counts"].get("graph_states", 0)
    counts["graph_edges"] = sres[0]["counts"].get("graph_edges", 0)
    cov = dict(
        states=sum(x["distinct"] for x in tl), transitions=counts["graph_edges"],
        traces_validated_against_impl=validated + counts.get("behaviours", 0),
        samples=[s for x in dr for s in x["samples"]][:3],
        evaluations=counts.get("steps", 0) + counts.get("ops", 0) + counts.get("stress_puts", 0),
        distinct_nontrivial=counts.get("edges_executed", 0) + validated,
        rule="(a) every edge of the reachable graph of Relay.tla (put / subscribe with overlapping predicates / cache and "
             "release predicate / consumer close / relay close) executed on a real wire.Relay after its shortest path, the "
             "envelopes at every consumer and at the default handler compared after every step; (b) seeded concurrent runs "
             "(several goroutines issuing puts, subscriptions, closes, cache toggles) recorded as call/return events under one "
             "log mutex and validated by TLC against RelayTrace.tla: every operation linearised between its call and return, "
             "asynchronous consumer removal as silent step, final bags compared; (c) free-running stress (16 goroutines) with "
             "the schedule-independent accounting monitor (nothing lost, nothing twice, nothing to a rejecting consumer, "
             "default handler exclusive); (d) Receiver.tla (the consumer go-perun itself subscribes: Put, Next with a live / "
             "finished context, a waiting Next that meets a put, the end of its context, a close, or a put and the end of its "
             "context at the same instant): every edge of its graph on a real wire.Receiver, nothing put into an open "
             "receiver is lost, returned twice or out of order. distinct_nontrivial = graph edges executed + recorded traces accepted by TLC",
        exhaustive=True, trace_negative_control=neg, recorded_traces=traces, trace_lines=counts.get("trace_lines", 0), stress_puts=counts.get("stress_puts", 0),
        driver_counts=counts,
        tlc=[dict(config=x["cmd"].split("-config ")[1].split()[0], generated=x["generated"], distinct=x["distinct"],
                  wall_s=round(x["wall"], 1)) for x in tl],
        checker_cmd="tlc -dump dot,actionlabels graph.dot Relay.tla ; drv.test -test.run '^TestRelaySeq$|^TestRelayTrace$|^TestRelayStress$' ; tlc RelayTrace.tla",
    )
    assumptions = ["recording consumers observe Consumer.Put calls in (a)-(c); wire.Receiver is covered on its own in (d), one reader, buffer never full",
                   "interleavings inside the relay are produced by the Go scheduler (stress, recorded traces), not enumerated; "
                   "no gate hooks are used", "relay close only in sequential histories"]
    return vlib.finish(prop, tier, seed, t0, cov, viol, assumptions)


def negative_control(scratch, trace, tdir, nenv, tw):
    cur, chosen = [], None
    for ln in open(trace):
        if not ln.strip():
            continue
        d = json.loads(ln)
        if d.get("ev") == "reset":
            cur = []
            continue
        cur.append(d)
        if d.get("ev") == "final":
            full = [c for c, g in d["got"].items() if g]
            if full:
                d["got"][full[0]] = d["got"][full[0]][1:]
                chosen = cur
                break
    if chosen is None:
        return "skipped (no delivery in any recorded trace)"
    ndir = os.path.join(scratch, "tlc-RelayTrace_neg")
    os.makedirs(ndir, exist_ok=True)
    with open(os.path.join(ndir, "trace_neg.ndjson"), "w") as f:
        for d in chosen:
            f.write(json.dumps(d) + "\n")
    rn = vlib.tlc(scratch, "RelayTrace", (TCFG % (names("a", nenv), names("b", nenv), names("c", 2 * tw) + ', "cz"')).replace(
        "trace.ndjson", "trace_neg.ndjson"), name="RelayTrace_neg", workers=1, timeout=600)
    if rn["ok"] or "ostcondition" not in (rn["violated"] or ""):
        raise vlib.Inconclusive("negative control: a recorded trace with one delivered envelope removed was not rejected by "
                                "RelayTrace.tla (%s): the trace binding is vacuous" % (rn["violated"] or "accepted"))
    return "rejected as required (%d lines)" % len(chosen)


def replay(prop, path, scratch):
    print("replay: relay vectors are Relay.tla paths / recorded traces; re-run ./check C18 with the same VERIF_SEED. vector:")
    print(open(path).read()[:3000])
    return 0
