"""C12: Respond.tla (control flow of the self-answering update handlers: TLC checks that the channel mutex is released
whatever the remote party chooses) + Adversary.tla (message classes x life-cycle points x sequences) executed against a
real client under child-process supervision with an honest probe afterwards."""
import os
import json
import vlib

RCFG = "CONSTANT OneResponse = %s\nSPECIFICATION Spec\nINVARIANT AtMostOneResponse\nPROPERTY Released\nCHECK_DEADLOCK FALSE\n"
ACFG = "SPECIFICATION Spec\nCHECK_DEADLOCK FALSE\n"


def run(prop, tier, seed, scratch, t0):
    binary = vlib.build_harness(scratch, pkg="./cdrv", name="cdrv.test")
    tl = []
    r1 = vlib.tlc(scratch, "Respond", RCFG % "TRUE", name="Respond", workers=1, timeout=600)
    if not r1["ok"]:
        raise vlib.Inconclusive("TLC reports %s in Respond.tla (the repaired control flow)" % r1["violated"])
    r1["out"] = ""
    tl.append(r1)
    # negative control of the model: without the returns TLC must find the lock-up
    r0 = vlib.tlc(scratch, "Respond", RCFG % "FALSE", name="Respond_neg", workers=1, timeout=600)
    neg = "lock-up found" if not r0["ok"] else "NOT found"
    r0["out"] = ""
    r = vlib.tlc(scratch, "Adversary", ACFG, name="Adversary", workers=1, timeout=600)
    if not r["ok"]:
        raise vlib.Inconclusive("TLC failed on Adversary.tla")
    cases = os.path.join(scratch, "adv-cases.txt")
    open(cases, "w").write(r["out"])
    nall = sum(1 for ln in r["out"].splitlines() if ln.startswith('"{'))
    nsingles = sum(1 for ln in r["out"].splitlines() if ln.startswith('"{') and ln.count(",") < 40 and '\\",\\"' not in ln.split("seq")[1])
    r["out"] = ""
    tl.append(r)
    ndep = sum(1 for ln in r["out"].splitlines() if ln.startswith('"{') and 'dep\\":true' in ln)   # pairs that are always run
    pairs = 250 if tier == "quick" else 6000
    total = 2 * (nsingles + ndep + min(pairs, nall - nsingles - ndep))
    results, crashes, logged = vlib.run_supervised(binary, "TestAdversary", dict(VERIF_CASES=cases, VERIF_SEED=seed, VERIF_PAIRS=pairs),
                                                   scratch, "adversary", total, "C12", timeout=6000)
    viol = list(crashes)
    for d in results:
        viol += d["violations"]
    for n, v in enumerate(logged):
        if not any(x["sig"] == v["sig"] for x in viol):
            rp = os.path.join(scratch, "replays")
            os.makedirs(rp, exist_ok=True)
            rpf = os.path.join(rp, "C12-logged-%d.json" % n)
            with open(rpf, "w") as f:
                json.dump(dict(replay=v.get("replay_obj"), what=v["what"]), f, indent=1)
            viol.append(dict(property=v["property"], kind=v["kind"], sig=v["sig"], what=v["what"], replay=rpf))
    counts = vlib.merge_counts(results)
    mon = [v for v in viol if v["kind"] == "monitor"]
    drift = sorted({v["sig"] + ": " + v["what"][:200] for v in viol if v["kind"] != "monitor"})[:10]
    cov = dict(
        states=sum(x["distinct"] for x in tl) or 1, transitions=sum(x["generated"] for x in tl) or 1,
        traces_validated_against_impl=counts.get("evaluations", 0),
        samples=[s for d in results for s in d["samples"]][:3],
        evaluations=counts.get("evaluations", 0), distinct_nontrivial=sum(d["distinct"].get("case", 0) for d in results),
        rule="Adversary.tla enumerates 44 general message classes (20 from a stranger, 24 from the channel counterparty with its valid key: "
             "proposals of all kinds incl. malformed ones, updates for unknown / known channels with bad signatures, old / future "
             "versions, wrong actor, extra participant column, edited locked funds, virtual-channel funding / settlement proposals "
             "with junk, too many signatures, bad index maps or valid-but-unmatched, sync messages (empty, current, newer unsigned), "
             "responses for unknown channels / versions / wrong signatures, control messages) plus 14 classes that exist only at a "
             "deeper point (responses of every kind carrying the id of H's proposal in flight; parent updates that withdraw an open "
             "sub-channel, fund it again, re-fund a settled one or repeat its settlement; sub-channel updates) x 8 life-cycle points "
             "(no channel, open, own update in flight, peer's update at the handler, own proposal in flight, sub-channel open, "
             "sub-channel settled, hub of a funded virtual channel with lone / in-time / late settlement and funding proposals) x sequences of length 1 (all) and 2 (seeded sample), both "
             "serializers; each is materialised with real keys, passed through the real encoder+decoder and injected into a real "
             "client in a supervised child process; observables: process panic (with go-perun frame), leftover blocked goroutines, "
             "and an honest probe afterwards (update in each direction / channel opening) that must complete or be refused within "
             "60 s of virtual time. distinct_nontrivial = distinct (point, sequence, serializer) executed",
        exhaustive=False, sequences_enumerated=nall, crashes=len(crashes), driver_counts=counts,
        respond_model=dict(repaired_flow="Released holds", flow_without_return=neg),
        tlc=[dict(config=x["cmd"].split("-config ")[1].split()[0], generated=x["generated"], distinct=x["distinct"],
                  wall_s=round(x["wall"], 1)) for x in tl],
        checker_cmd="tlc Respond.tla ; tlc Adversary.tla > cases ; cdrv.test -test.run ^TestAdversary$ (supervised)",
    )
    assumptions = ["message classes, not arbitrary field values: each class is one representative (catalogue D.1 of DESIGN.md)",
                   "pairs are sampled by seed in the quick tier", "only decodable envelopes are delivered"]
    return vlib.finish(prop, tier, seed, t0, cov, mon, assumptions, drift=drift)


def replay(prop, path, scratch):
    print("replay: re-run ./check C12; case / crash log:")
    print(open(path).read()[:4000])
    return 0
