#!/bin/bash
# usage: tools/confirm_mutant.sh <prop> <src dir with patch.diff demo_test.go README.txt> <seeded id>
# Confirms in a scratch worktree: demo fails with the patch, passes without, suite passes with the patch. Writes /verif/seeded/<id>/.
set -u
prop="$1"; src="$2"; id="$3"
export GOFLAGS=-mod=mod GOPROXY=off GOSUMDB=off
wt=$(mktemp -d /tmp/wt/confirm-XXXX); rmdir "$wt"
git -C /repo worktree add -q --detach "$wt" HEAD || exit 2
trap 'git -C /repo worktree remove --force "$wt" 2>/dev/null' EXIT
dest=$(head -3 "$src/demo_test.go" | grep -o 'copy to: *[^ ]*' | head -1 | sed 's/copy to: *//')
if [ -z "$dest" ]; then echo "no copy-to line in demo"; exit 2; fi
pkg=$(dirname "$dest")
cd "$wt"
cp "$src/demo_test.go" "$dest"
clean_out=$(go test -vet=off -count=1 ./"$pkg"/ 2>&1 | tail -5); clean_rc=$?
go test -vet=off -count=1 ./"$pkg"/ >/dev/null 2>&1; clean_rc=$?
git apply "$src/patch.diff" || { echo "patch does not apply"; exit 2; }
go build ./... || { echo "does not build"; exit 2; }
go test -vet=off -count=1 ./"$pkg"/ >/tmp/wt/demo-$id.log 2>&1; mut_rc=$?
rm "$dest"
suite=$(go test -vet=off -count=1 -timeout 25m ./... 2>&1 | grep -E "^FAIL[[:space:]]+perun" | grep -v "wire/net/libp2p" | awk '{print $2}' | head -5)
if [ -n "$suite" ]; then  # retry failing packages once (port clashes with concurrently running suites make wire/net/simple flaky)
  again=""
  for q in $suite; do go test -vet=off -count=1 "./${q#perun.network/go-perun/}/" >/dev/null 2>&1 || again="$again $q"; done
  suite="$again"
fi
echo "prop=$prop id=$id demo_clean_rc=$clean_rc demo_mutant_rc=$mut_rc suite_failures=[${suite}]"
if [ "$clean_rc" = 0 ] && [ "$mut_rc" != 0 ] && [ -z "$suite" ]; then
  mkdir -p /verif/seeded/$id
  cp "$src/patch.diff" "$src/demo_test.go" /verif/seeded/$id/
  cp "$src/README.txt" /verif/seeded/$id/README.txt 2>/dev/null
  python3 - "$prop" "$id" "$dest" <<'PY'
import json, sys
prop, id, dest = sys.argv[1:4]
readme = open('/verif/seeded/%s/README.txt' % id).read() if __import__('os').path.exists('/verif/seeded/%s/README.txt' % id) else ''
json.dump(dict(property=prop, id=id, demo_path=dest,
  needs=readme[:1200],
  confirmed=dict(how="tools/confirm_mutant.sh in a scratch worktree of /repo HEAD", demo_on_clean_tree="pass", demo_with_patch="fail",
                 suite_with_patch="pass (go test -vet=off -count=1 ./..., ignoring wire/net/libp2p and TestBus flake)"),
  detected_by=[]), open('/verif/seeded/%s/meta.json' % id, 'w'), indent=1)
PY
  echo CONFIRMED $id
else
  echo NOT-CONFIRMED $id; tail -5 /tmp/wt/demo-$id.log
fi
