#!/usr/bin/env python3
"""Vacuity audit.  Run the checks with VERIF_TLC_COVERAGE=<dir> (every exhaustive TLC run then uses -coverage 1 and its output
is kept in <dir>), then: tools/coverage_audit.py <dir> lists, per TLC run, the actions of the specification that were never
taken.  An action that is never taken means that whatever it is supposed to exercise was not exercised by that run."""
import glob, os, re, sys

d = sys.argv[1]
for f in sorted(glob.glob(os.path.join(d, "*.out"))):
    txt = open(f).read()
    i = txt.rfind("The coverage statistics")
    blk = txt[i:] if i >= 0 else txt
    zero, tot = [], 0
    for m in re.finditer(r"^<(\w+) line \d+, col \d+ to line \d+, col \d+ of module \w+>: (\d+):(\d+)", blk, re.M):
        tot += 1
        if int(m.group(3)) == 0:
            zero.append(m.group(1))
    print("%-50s actions %2d never taken: %s" % (os.path.basename(f)[:-4], tot, ", ".join(zero) or "-"))
