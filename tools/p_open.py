"""C08: (a) Open.tla schedules of the opening protocol replayed on real clients (same channel on both sides; id depends on
both nonce shares); (b) Proposal.tla: well-formed proposals and every single-feature mutant delivered to a real client,
handler must run iff well-formed."""
import os
import vlib

PCFG = "SPECIFICATION Spec\nCHECK_DEADLOCK FALSE\n"


def run(prop, tier, seed, scratch, t0):
    binary = vlib.build_harness(scratch, pkg="./cdrv", name="cdrv.test")
    tl = []
    # (b) proposal cases
    r = vlib.tlc(scratch, "Proposal", PCFG, name="Proposal", workers=1, timeout=600)
    if not r["ok"]:
        raise vlib.Inconclusive("TLC reports %s in Proposal.tla itself" % r["violated"])
    cases = os.path.join(scratch, "proposal-cases.txt")
    open(cases, "w").write(r["out"])
    ncases = sum(1 for ln in r["out"].splitlines() if ln.startswith('"{'))
    r["out"] = ""
    tl.append(r)
    results, crashes, logged = vlib.run_supervised(binary, "TestProposalCases", dict(VERIF_CASES=cases, VERIF_SEED=seed), scratch,
                                                   "proposal", 2 * ncases, "C08")
    viol = list(crashes)
    seen = {(v["sig"]) for v in viol}
    for d in results:
        viol += d["violations"]
    for v in logged:   # from crashed runs
        if not any(x["sig"] == v["sig"] and x.get("what") == v.get("what") for x in viol):
            viol.append(dict(property=v["property"], kind=v["kind"], sig=v["sig"], what=v["what"], replay=""))
    dr = results
    # (a) opening schedules
    d_open = open_schedules(binary, tier, seed, scratch, tl)
    dr = dr + d_open
    for d in d_open:
        viol += d["violations"]
    counts = vlib.merge_counts(dr)
    allv = viol
    mon = [v for v in allv if v["kind"] == "monitor"]
    drift = sorted({v["sig"] + ": " + v["what"][:200] for v in allv if v["kind"] != "monitor"})[:10]
    distinct = sum(d["distinct"].get("case", 0) for d in dr)
    cov = dict(
        states=sum(x["distinct"] for x in tl) or 1, transitions=sum(x["generated"] for x in tl) or 1,
        traces_validated_against_impl=counts.get("behaviours", 0) + counts.get("evaluations", 0),
        samples=[s for d in dr for s in d["samples"]][:3],
        evaluations=counts.get("evaluations", 0) + counts.get("env_steps", 0),
        distinct_nontrivial=distinct + counts.get("behaviours", 0),
        rule="(b) Proposal.tla: every well-formed ledger / sub-channel / virtual channel proposal and every single-feature mutant "
             "(zero challenge duration, 1 or 3 participant columns, negative / ragged / empty allocation, pre-locked funds, every "
             "wrong peers list, unknown parent, parent of another peer, other / extra assets, other backend, funds above the "
             "parent's, shifted funding agreement, parents list of length 0/1/3 or unknown, 1/3 index maps, index-map entry out of "
             "range, over-long index map) x receiver with / without the parent channel x native / protobuf serializer, crafted as "
             "real messages and injected into a real client; observable: whether the scripted proposal handler is invoked, channels "
             "created, process panics (child-process supervision). (a) TLC-simulated schedules of the opening protocol replayed on "
             "two real clients: both channels compared (parameters, id, participant order, fully signed version-0 state = proposed "
             "balances); channel ids for pairs of runs differing in exactly one nonce share. distinct_nontrivial = distinct "
             "(kind, mutant, parent, serializer, verdict) classes + opening behaviours",
        exhaustive=True, proposal_cases=ncases, crashes=len(crashes), driver_counts=counts,
        tlc=[dict(config=x["cmd"].split("-config ")[1].split()[0], generated=x["generated"], distinct=x["distinct"],
                  wall_s=round(x["wall"], 1)) for x in tl],
        checker_cmd="tlc Proposal.tla > cases ; tlc -simulate Open.tla ; cdrv.test -test.run '^TestProposalCases$|^TestOpen$'",
    )
    assumptions = ["only decodable proposals are delivered (what does not survive the real encoder+decoder is counted as not decodable)",
                   "two-party channels; the receiver's parent channel holds I 9 / H 5 of one asset"]
    return vlib.finish(prop, tier, seed, t0, cov, mon, assumptions, drift=drift)


def open_schedules(binary, tier, seed, scratch, tl):
    cfg = open(os.path.join(vlib.SPEC, "Open.cfg.tmpl")).read()
    r = vlib.tlc(scratch, "Open", cfg, name="Open", workers=1, extra=["-dump", "dot,actionlabels", "graph.dot"], timeout=600)
    if not r["ok"]:
        raise vlib.Inconclusive("TLC reports %s in Open.tla itself" % r["violated"])
    dot = os.path.join(r["dir"], "graph.dot")
    r["out"] = ""
    tl.append(r)
    d = vlib.run_driver(binary, "TestOpen", dict(VERIF_DOT=dot, VERIF_SEED=seed), scratch, "open", timeout=3000)
    os.remove(dot)
    return [d]


def replay(prop, path, scratch):
    print("replay: re-run ./check C08; vector / crash log:")
    print(open(path).read()[:4000])
    return 0
