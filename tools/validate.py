#!/usr/bin/env python3
"""Validate MANIFEST.json and evidence/*.json against the schemas (needs jsonschema: python3-vt)."""
import json, glob, sys, jsonschema
m = json.load(open('/verif/MANIFEST.json'))
jsonschema.validate(m, json.load(open('/root/.vp/MANIFEST.schema.json')))
es = json.load(open('/root/.vp/EVIDENCE.schema.json'))
for f in sorted(glob.glob('/verif/evidence/*.json')):
    jsonschema.validate(json.load(open(f)), es)
    print('ok', f)
ids = {c['property_id'] for c in m['checks']} | {n['property_id'] for n in m.get('not_applicable', [])}
assert ids == {"C%02d" % i for i in range(1, 21)}, ids
print('manifest ok')
