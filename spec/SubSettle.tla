------------------------------ MODULE SubSettle ------------------------------
(***************************************************************************)
(* C03 / C04 with a sub-channel.  Clients A and B have a ledger channel L  *)
(* (A proposed it, so A is the one who may propose sub-channels) and, for  *)
(* part of its life, one sub-channel S funded from L.  Scenario steps:     *)
(* payments in L and in S (accepted / rejected), an update of S that stays *)
(* with the responder's handler (S is busy on both sides), a settlement    *)
(* attempt of L that times out because S is busy, finalising S and         *)
(* withdrawing it into L, a final update of L, settlement of L by either   *)
(* side first - cooperatively for a final state, else through registration *)
(* of L TOGETHER WITH the newest state of S and the challenge period.      *)
(* Adversary mode: party Adv registers any EARLIER fully signed state of L *)
(* (with any state of S it holds, if that state of L has S locked) or the  *)
(* newest L with an earlier S, at any point; Hon only watches L and S.     *)
(*                                                                         *)
(* One action = one environment step of the driver followed by quiescence. *)
(* Updates are not held in flight here (Settle.tla does that for L); the   *)
(* ledger is the strict reference ledger: a registration needs a higher    *)
(* version than the registered one of the same channel and must come       *)
(* before that channel's challenge period ends; L can be concluded once    *)
(* the periods of L and of the locked S have passed, with the registered   *)
(* states only; the outcome of S is added to L's balances.                 *)
(***************************************************************************)
EXTENDS Integers, Sequences, FiniteSets, TLC

CONSTANTS P0,         \* initial balance of each party in L (= funding)
          MaxP, MaxS, \* highest versions of L and S
          CD,         \* challenge duration in ticks
          Adversary,  \* TRUE: Adv registers outdated states, Hon only watches
          Hon,        \* the honest party in adversary mode
          Ballast,    \* TRUE: L carries a second sub-channel from the start (opened first, 1 + 1 locked, never used, never
                      \*   closed): S is then the SECOND locked sub-allocation of L, every registration of L carries two
                      \*   sub-channel states and L can never be final.  Its funds come on top of P0 and flow back to their
                      \*   owners when L is concluded, so no amount below changes.
          Deposit

P == {"A", "B"}
Peer(p) == IF p = "A" THEN "B" ELSE "A"
Adv == Peer(Hon)
SubFund == 1          \* each party puts 1 into S

VARIABLES ph,       \* history of L: sequence of [a, b, l] (balances of A and B, amount locked for S), index = version + 1
          sh,       \* history of S: sequence of [a, b] ; <<>> while S does not exist
          sub,      \* "none" | "open" | "final" (finalised by A, who proposed S) | "finalB" (finalised by B) | "settled"
          pfin,     \* the newest state of L is final
          hold,     \* "none" | proposer of the update of S that waits at the peer's handler
          tmo,      \* number of settlement attempts that timed out
          reg,      \* registered on the ledger: [p |-> version of L or -1, s |-> version of S or -1]
          regAt,    \* [p |-> time of the last accepted registration of L, s |-> ... of S]
          concl,    \* concluded with [p, s] (p = -1: not concluded)
          paid,     \* P -> withdrawn
          acct,     \* P -> ledger account
          now,
          nreg      \* registrations by the adversary
vars == <<ph, sh, sub, pfin, hold, tmo, reg, regAt, concl, paid, acct, now, nreg>>

NP == Len(ph) - 1
NS == Len(sh) - 1
PBal(p, v) == IF p = "A" THEN ph[v + 1].a ELSE ph[v + 1].b
SBal(p, w) == IF p = "A" THEN sh[w + 1].a ELSE sh[w + 1].b
Locked(v) == ph[v + 1].l
None2 == [p |-> -1, s |-> -1]
(* what the ledger pays p when L is concluded with (v, w) *)
Out(p, c) == PBal(p, c.p) + (IF Locked(c.p) > 0 THEN SBal(p, c.s) ELSE 0)
(* what p owns according to the newest agreed states *)
Own(p) == PBal(p, NP) + (IF Locked(NP) > 0 THEN SBal(p, NS) ELSE 0)

Init == /\ ph = << [a |-> P0, b |-> P0, l |-> 0] >> /\ sh = <<>> /\ sub = "none" /\ pfin = FALSE
        /\ hold = "none" /\ tmo = 0
        /\ reg = None2 /\ regAt = [p |-> 0, s |-> 0] /\ concl = None2
        /\ paid = [p \in P |-> FALSE]
        /\ acct = [p \in P |-> Deposit - P0]
        /\ now = 0 /\ nreg = 0

Quiet == reg.p = -1 /\ concl.p = -1 /\ ~paid["A"] /\ ~paid["B"]   \* no dispute yet: the channels can be used
CanP == Quiet /\ ~pfin /\ NP < MaxP
CanS == Quiet /\ sub = "open" /\ hold = "none" /\ NS < MaxS

Move(r, p, amt) == IF p = "A" THEN [r EXCEPT !.a = @ - amt, !.b = @ + amt] ELSE [r EXCEPT !.a = @ + amt, !.b = @ - amt]

(* payment of 1 in L *)
PayP(p, accept) ==
  /\ CanP /\ PBal(p, NP) >= 1
  /\ ph' = IF accept THEN Append(ph, Move(ph[NP + 1], p, 1)) ELSE ph
  /\ UNCHANGED <<sh, sub, pfin, hold, tmo, reg, regAt, concl, paid, acct, now, nreg>>

(* A proposes S, B accepts, L's funding update locks 2 *)
OpenSub ==
  /\ CanP /\ sub = "none" /\ PBal("A", NP) >= SubFund /\ PBal("B", NP) >= SubFund
  /\ ph' = Append(ph, [a |-> ph[NP + 1].a - SubFund, b |-> ph[NP + 1].b - SubFund, l |-> 2 * SubFund])
  /\ sh' = << [a |-> SubFund, b |-> SubFund] >> /\ sub' = "open"
  /\ UNCHANGED <<pfin, hold, tmo, reg, regAt, concl, paid, acct, now, nreg>>

(* payment of 1 in S *)
PayS(p, accept) ==
  /\ CanS /\ SBal(p, NS) >= 1
  /\ sh' = IF accept THEN Append(sh, Move(sh[NS + 1], p, 1)) ELSE sh
  /\ UNCHANGED <<ph, sub, pfin, hold, tmo, reg, regAt, concl, paid, acct, now, nreg>>

(* p's payment in S reaches the peer's handler, which does not answer yet: S is busy at both clients *)
HoldS(p) ==
  /\ ~Adversary /\ CanS /\ SBal(p, NS) >= 1
  /\ hold' = p
  /\ UNCHANGED <<ph, sh, sub, pfin, tmo, reg, regAt, concl, paid, acct, now, nreg>>
AnswerS(accept) ==
  /\ hold # "none"
  /\ sh' = IF accept THEN Append(sh, Move(sh[NS + 1], hold, 1)) ELSE sh
  /\ hold' = "none"
  /\ UNCHANGED <<ph, sub, pfin, tmo, reg, regAt, concl, paid, acct, now, nreg>>
(* q tries to settle L with a bounded context while S is busy: the call fails, nothing changes *)
SettleTimeout(q) ==
  /\ hold # "none" /\ tmo < 1 /\ Quiet
  /\ tmo' = tmo + 1
  /\ UNCHANGED <<ph, sh, sub, pfin, hold, reg, regAt, concl, paid, acct, now, nreg>>

(* final update of S by p (pays 0 or 1).  go-perun prepares the withdrawal of S into L at the party that ACCEPTS  *)
(* the final update and lets the proposer of S perform it: only an S finalised by its proposer A can be withdrawn   *)
(* into L off-chain; one finalised by B stays locked in L until L itself is settled (through registration).         *)
FinalizeS(p, amt) ==
  /\ CanS /\ amt \in 0..1 /\ SBal(p, NS) >= amt
  /\ sh' = Append(sh, Move(sh[NS + 1], p, amt)) /\ sub' = IF p = "A" THEN "final" ELSE "finalB"
  /\ UNCHANGED <<ph, pfin, hold, tmo, reg, regAt, concl, paid, acct, now, nreg>>
(* both settle the final S: it is withdrawn into L *)
SettleS ==
  /\ CanP /\ sub = "final"
  /\ ph' = Append(ph, [a |-> ph[NP + 1].a + SBal("A", NS), b |-> ph[NP + 1].b + SBal("B", NS), l |-> 0])
  /\ sub' = "settled"
  /\ UNCHANGED <<sh, pfin, hold, tmo, reg, regAt, concl, paid, acct, now, nreg>>

(* final update of L (only without locked funds: a final state with locked funds cannot be concluded directly) *)
FinalizeP(p, amt) ==
  /\ CanP /\ ~Ballast /\ Locked(NP) = 0 /\ amt \in 0..1 /\ PBal(p, NP) >= amt
  /\ ph' = Append(ph, Move(ph[NP + 1], p, amt)) /\ pfin' = TRUE
  /\ UNCHANGED <<sh, sub, hold, tmo, reg, regAt, concl, paid, acct, now, nreg>>

(***************************************************************************)
(* Ledger                                                                  *)
(***************************************************************************)
Newest2 == [p |-> NP, s |-> IF Locked(NP) > 0 THEN NS ELSE -1]
PeriodEnd(r, at) == LET e1 == at.p + CD
                        e2 == IF r.s >= 0 /\ Locked(r.p) > 0 THEN at.s + CD ELSE 0
                    IN IF e1 > e2 THEN e1 ELSE e2

(* Adv registers (v, w).  The ledger accepts a higher version of L within L's period (first registration: any),  *)
(* and independently a higher version of S within S's period.  Hon's watcher answers with the newest states.     *)
AdvRegister(v, w) ==
  /\ Adversary /\ nreg < 2 /\ hold = "none" /\ concl.p = -1
  /\ v \in 0..NP
  /\ IF Locked(v) > 0 THEN w \in 0..NS ELSE w = -1
  /\ v < NP \/ (w >= 0 /\ w < NS)                            \* an EARLIER state of L or of S
  /\ reg.p = -1 \/ (v > reg.p /\ now < regAt.p + CD) \/ (v = reg.p /\ w > reg.s /\ now < regAt.s + CD)
  /\ nreg' = nreg + 1
  /\ reg' = [p |-> NP, s |-> IF Locked(NP) > 0 THEN NS ELSE IF w > reg.s THEN w ELSE reg.s]
  /\ regAt' = [p |-> now, s |-> IF (Locked(NP) > 0 /\ NS > reg.s) \/ w > reg.s THEN now ELSE regAt.s]
  /\ UNCHANGED <<ph, sh, sub, pfin, hold, tmo, concl, paid, acct, now>>

(* Adv proposes a payment in S (1 to Hon), which waits for Hon's user; Adv registers an EARLIER state of L; Hon's     *)
(* watcher refutes with the newest states; before the ledger emits the events of that refutation Hon's user accepts  *)
(* the payment: Hon's newest state of S is now one version ahead of what its watcher has just registered.  If that   *)
(* refutation changed what is registered for S (Adv had registered an older S, or none), the ledger's event for S    *)
(* shows the watcher a version below its newest one and it registers the tree again.  If Adv had registered the      *)
(* CURRENT S (w = NS), the refutation changes nothing for S, no event follows, and go-perun's watcher - which reacts *)
(* to registered events only, never to newly published states - leaves S registered one version behind.  This is    *)
(* what the code does; HonestNotRobbed does NOT hold for that case (known finding, DESIGN.md 12.4).                  *)
AdvRegisterEchoS(v, w) ==
  /\ Adversary /\ nreg < 2 /\ hold = "none" /\ Quiet /\ sub = "open" /\ NS < MaxS /\ SBal(Adv, NS) >= 1
  /\ v \in 0..(NP - 1)
  /\ IF Locked(v) > 0 THEN w \in 0..NS ELSE w = -1
  /\ sh' = Append(sh, Move(sh[NS + 1], Adv, 1))
  /\ nreg' = nreg + 1
  /\ reg' = [p |-> NP, s |-> IF w = NS THEN NS ELSE NS + 1] /\ regAt' = [p |-> now, s |-> now]
  /\ UNCHANGED <<ph, sub, pfin, hold, tmo, concl, paid, acct, now>>

AdvConclude ==
  /\ Adversary /\ reg.p >= 0 /\ concl.p = -1 /\ now >= PeriodEnd(reg, regAt) /\ ~paid[Adv]
  /\ concl' = reg
  /\ paid' = [paid EXCEPT ![Adv] = TRUE]
  /\ acct' = [acct EXCEPT ![Adv] = @ + Out(Adv, reg)]
  /\ UNCHANGED <<ph, sh, sub, pfin, hold, tmo, reg, regAt, now, nreg>>

Tick == /\ now < 3 * CD
        /\ now' = now + 1
        /\ UNCHANGED <<ph, sh, sub, pfin, hold, tmo, reg, regAt, concl, paid, acct, nreg>>

(* Channel.Settle of L by p returns successfully *)
SettleP(p) ==
  /\ hold = "none" /\ ~paid[p] /\ (Adversary => p = Hon)
  /\ LET final == pfin /\ concl.p = -1 /\ reg.p <= NP
         needReg == ~final /\ concl.p = -1 /\ reg.p = -1
         reg1 == IF final THEN [p |-> NP, s |-> reg.s] ELSE IF needReg THEN Newest2 ELSE reg
         at1 == IF needReg THEN [p |-> now, s |-> now] ELSE regAt
         pe == PeriodEnd(reg1, at1)
         wait == IF final \/ concl.p # -1 THEN now ELSE IF now < pe THEN pe ELSE now
         cv == IF concl.p # -1 THEN concl ELSE reg1
     IN /\ (concl.p = -1 /\ ~final) => reg1 = Newest2          \* only the registered states can be withdrawn
        /\ reg' = reg1 /\ regAt' = at1 /\ now' = wait
        /\ concl' = cv
        /\ paid' = [paid EXCEPT ![p] = TRUE]
        /\ acct' = [acct EXCEPT ![p] = @ + Out(p, cv)]
  /\ UNCHANGED <<ph, sh, sub, pfin, hold, tmo, nreg>>

Next ==
  \/ \E p \in P, acc \in BOOLEAN : PayP(p, acc) \/ PayS(p, acc)
  \/ OpenSub \/ SettleS
  \/ \E p \in P : HoldS(p) \/ SettleTimeout(p) \/ SettleP(p)
  \/ \E acc \in BOOLEAN : AnswerS(acc)
  \/ \E p \in P, amt \in 0..1 : FinalizeS(p, amt) \/ FinalizeP(p, amt)
  \/ \E v \in 0..MaxP, w \in -1..MaxS : AdvRegister(v, w) \/ AdvRegisterEchoS(v, w)
  \/ AdvConclude \/ Tick
Spec == Init /\ [][Next]_vars

(***************************************************************************)
(* C03 / C04 on the design                                                 *)
(***************************************************************************)
Held == 2 * P0 - (IF paid["A"] THEN Out("A", concl) ELSE 0) - (IF paid["B"] THEN Out("B", concl) ELSE 0)
Conservation == acct["A"] + acct["B"] + Held = 2 * Deposit
HonestPayout == (~Adversary /\ paid["A"] /\ paid["B"]) =>
                  /\ \A p \in P : acct[p] = Deposit - P0 + Own(p)
                  /\ Held = 0
HonestNotRobbed == (Adversary /\ paid[Hon]) => acct[Hon] >= Deposit - P0 + Own(Hon)
=============================================================================
