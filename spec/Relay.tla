------------------------------- MODULE Relay -------------------------------
(***************************************************************************)
(* wire.Relay with its Cache (C18), every operation atomic: this is the    *)
(* sequential meaning of the relay, against which                          *)
(*  - every sequential history is replayed on a real wire.Relay (graph     *)
(*    dump, R2), and                                                       *)
(*  - concurrent executions of the real relay are validated by linearising *)
(*    each operation between its call and its return (RelayTrace.tla, R3). *)
(*                                                                         *)
(* An envelope has a type (its first letter); a predicate is the set of    *)
(* types it accepts.  Put(e): handed to every consumer subscribed with a   *)
(* matching predicate; if there is none and an enabled cache predicate     *)
(* matches it is kept in the cache; otherwise it goes to the default       *)
(* handler.  Subscribe(c, p): c takes - in order - all cached envelopes    *)
(* matching p.  A closed consumer is removed; subscribing a closed         *)
(* consumer fails and must not take anything out of the cache.             *)
(***************************************************************************)
EXTENDS Integers, Sequences, FiniteSets, TLC

CONSTANTS AEnvs,       \* names of the envelopes of type "a", e.g. {"a1","a2"}
          BEnvs,       \* names of the envelopes of type "b"
          Consumers    \* consumer names

Envs == AEnvs \cup BEnvs
Types == {"a", "b"}
TypeOf(e) == IF e \in AEnvs THEN "a" ELSE "b"
Preds == {"A", "B", "AB"}
Accepts(p) == CASE p = "A" -> {"a"} [] p = "B" -> {"b"} [] p = "AB" -> {"a", "b"}
Match(p, e) == TypeOf(e) \in Accepts(p)
CachePreds == {"A", "AB"}          \* identities of the cache predicates that can be enabled

VARIABLES subs,      \* Consumers -> "none" or the predicate it is subscribed with
          closedC,   \* closed consumers
          cpreds,    \* enabled cache predicates
          cache,     \* sequence of cached envelopes
          got,       \* Consumers -> sequence of envelopes handed to it (in order)
          dflt,      \* set of envelopes handed to the default handler
          put,       \* envelopes put so far (each at most once)
          open,      \* relay not closed
          res        \* result class of the last operation
vars == <<subs, closedC, cpreds, cache, got, dflt, put, open, res>>

Init == /\ subs = [c \in Consumers |-> "none"]
        /\ closedC = {} /\ cpreds = {} /\ cache = <<>>
        /\ got = [c \in Consumers |-> <<>>]
        /\ dflt = {} /\ put = {} /\ open = TRUE /\ res = "ok"

Matching(e) == { c \in Consumers : subs[c] # "none" /\ Match(subs[c], e) }
SelectSeq2(s, T(_)) == SelectSeq(s, T)

Put(e) ==
  /\ e \notin put
  /\ put' = put \cup {e}
  /\ res' = "ok"
  /\ IF ~open THEN UNCHANGED <<got, cache, dflt>>
     ELSE IF Matching(e) # {}
     THEN /\ got' = [c \in Consumers |-> IF c \in Matching(e) THEN Append(got[c], e) ELSE got[c]]
          /\ UNCHANGED <<cache, dflt>>
     ELSE IF \E k \in cpreds : Match(k, e)
     THEN cache' = Append(cache, e) /\ UNCHANGED <<got, dflt>>
     ELSE dflt' = dflt \cup {e} /\ UNCHANGED <<got, cache>>
  /\ UNCHANGED <<subs, closedC, cpreds, open>>

Subscribe(c, p) ==
  /\ subs[c] = "none"
  /\ IF ~open \/ c \in closedC
     THEN res' = "err" /\ UNCHANGED <<subs, cache, got>>
     ELSE /\ res' = "ok"
          /\ subs' = [subs EXCEPT ![c] = p]
          /\ LET M(e) == Match(p, e)
                 N(e) == ~Match(p, e)
             IN /\ got' = [got EXCEPT ![c] = @ \o SelectSeq(cache, M)]
                /\ cache' = SelectSeq(cache, N)
  /\ UNCHANGED <<closedC, cpreds, dflt, put, open>>

CachePred(k) == /\ k \notin cpreds
                /\ cpreds' = IF open THEN cpreds \cup {k} ELSE cpreds
                /\ res' = "ok"
                /\ UNCHANGED <<subs, closedC, cache, got, dflt, put, open>>
ReleasePred(k) == /\ k \in cpreds
                  /\ cpreds' = cpreds \ {k} /\ res' = "ok"
                  /\ UNCHANGED <<subs, closedC, cache, got, dflt, put, open>>

(* the consumer is closed; the relay removes it (sequential view: the     *)
(* asynchronous removal has happened when the next operation starts)       *)
CloseConsumer(c) == /\ c \notin closedC
                    /\ closedC' = closedC \cup {c}
                    /\ subs' = [subs EXCEPT ![c] = "none"]
                    /\ res' = "ok"
                    /\ UNCHANGED <<cpreds, cache, got, dflt, put, open>>

(* concurrent view: closing and the asynchronous removal are two steps; a  *)
(* closed consumer stays subscribed (and is handed envelopes) until removed *)
CloseOnly(c) == /\ c \notin closedC
                /\ closedC' = closedC \cup {c}
                /\ res' = "ok"
                /\ UNCHANGED <<subs, cpreds, cache, got, dflt, put, open>>
DeleteConsumer(c) == /\ c \in closedC /\ subs[c] # "none"
                     /\ subs' = [subs EXCEPT ![c] = "none"]
                     /\ UNCHANGED <<closedC, cpreds, cache, got, dflt, put, open, res>>

CloseRelay == /\ open
              /\ open' = FALSE
              /\ res' = IF cache = <<>> THEN "ok" ELSE "err"     \* Close reports a non-empty cache
              /\ cache' = <<>> /\ cpreds' = {}
              /\ subs' = [c \in Consumers |-> "none"]
              /\ UNCHANGED <<closedC, got, dflt, put>>

Next == \/ \E e \in Envs : Put(e)
        \/ \E c \in Consumers, p \in Preds : Subscribe(c, p)
        \/ \E k \in CachePreds : CachePred(k)
        \/ \E k \in CachePreds : ReleasePred(k)
        \/ \E c \in Consumers : CloseConsumer(c)
        \/ CloseRelay
Spec == Init /\ [][Next]_vars

(***************************************************************************)
(* C18 on the design                                                       *)
(***************************************************************************)
InSeq(s, e) == \E i \in 1..Len(s) : s[i] = e
Count(s, e) == Cardinality({ i \in 1..Len(s) : s[i] = e })
(* nothing reaches a consumer whose predicate rejects it; nothing twice *)
NoWrongNoDup == \A c \in Consumers, e \in Envs : Count(got[c], e) <= 1
(* every envelope put into the open relay is in exactly one place: with >= 1 consumers, in the cache, or at the default handler *)
Places(e) == (IF \E c \in Consumers : InSeq(got[c], e) THEN 1 ELSE 0) + (IF InSeq(cache, e) THEN 1 ELSE 0)
             + (IF e \in dflt THEN 1 ELSE 0)
ExactlyOnePlace == open => \A e \in put : Places(e) = 1
NothingFromNowhere == \A e \in Envs \ put : Places(e) = 0
(* a cached envelope goes to ONE later subscriber only *)
CachedOnce == \A e \in Envs : Cardinality({ c \in Consumers : InSeq(got[c], e) }) > 1 => e \notin dflt
=============================================================================
