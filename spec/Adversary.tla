----------------------------- MODULE Adversary -----------------------------
(***************************************************************************)
(* C12: the input space of the robustness check.  A remote party - a       *)
(* stranger S or the channel counterparty P, who owns a valid signing key  *)
(* - sends a sequence of decodable protocol messages to the honest client  *)
(* H at some point of a channel's life.  This module enumerates message    *)
(* CLASSES (catalogue D.1 of DESIGN.md) x life-cycle points x sequences;   *)
(* the driver materialises every class with real keys and the real         *)
(* serializers.  Requirement for every sequence: no panic, and afterwards  *)
(* H completes or refuses an honest probe on each of its channels within   *)
(* 60 s of virtual time.                                                   *)
(***************************************************************************)
EXTENDS Integers, Sequences, FiniteSets, TLC, Json

StrangerClasses ==
  { "s-ledgerprop-ok", "s-subprop-unknown", "s-subprop-foreign", "s-virtprop-noparents", "s-virtprop-oneparent", "s-virtprop-foreign",
    "s-update-unknown", "s-update-known-badsig", "s-acc-unknown", "s-rej-unknown", "s-acc-known-future",
    "s-sync-empty", "s-sync-known", "s-propacc-unknown", "s-proprej-unknown",
    "s-ping", "s-pong", "s-shutdown", "s-authresponse", "s-vfund-unknown", "s-vsettle-unknown",
    \* "u-": the same message from an address that never takes a message: whatever H sends back stays in Publish until
    \* the context H passed ends (as on wire.LocalBus and on a net.Bus whose dialer cannot reach the peer)
    "u-sync-known", "u-sync-current", "u-update-known-badsig", "u-subprop-foreign" }
PeerClasses ==
  { "p-update-valid", "p-update-old", "p-update-future", "p-update-wrongactor", "p-update-3cols", "p-update-lockedadded",
    "p-update-badsig", "p-vfund-junk", "p-vfund-manysigs", "p-vfund-badimap", "p-vfund-valid-unmatched",
    "p-vsettle-junk", "p-vsettle-manysigs", "p-sync-empty", "p-sync-current", "p-sync-newer-unsigned",
    "p-acc-wrongsig", "p-acc-future", "p-rej-current", "p-subprop-valid", "p-subprop-exceed", "p-subprop-twice",
    "p-propacc-unknown", "p-ledgerprop-again" }
Classes == StrangerClasses \cup PeerClasses
(* life-cycle points of H's channel with P *)
Points == { "nochannel", "open", "inflight", "handling", "proposing", "subopen", "subsettled", "hub" }
(* "proposing": H has proposed a second ledger channel to P and waits for the response (P knows the proposal id);
   "subopen": a sub-channel proposed by P is open and funded from the channel;
   "subsettled": that sub-channel was finalised and withdrawn into the channel by both parties;
   "hub": H also has a channel with X and is the hub of a funded virtual channel between P and X, both controlled by
          the adversary: valid settlement proposals for it and valid funding proposals for a second virtual channel
          arrive alone (the matching one never comes), in time, or only after the hub's matching time-out ("-late").
   Classes that only exist at these points: *)
Special ==
  [ proposing  |-> { "p-propacc-match-sub", "p-propacc-match-virtual", "p-propacc-match-ledger", "p-propacc-match-ledger-nopart",
                     "p-proprej-match", "s-propacc-match-sub", "s-proprej-match",
                     \* P accepts the proposal and then answers H's signature of the initial state of the NEW channel with a
                     \* rejection / a signature that is none / a response for version 1
                     "p-open-rej-v0", "p-open-accbad-v0", "p-open-acc-v1" },
    subopen    |-> { "p-update-withdraw-early", "p-update-fund-again", "p-subupdate-valid", "p-subupdate-badsig" },
    subsettled |-> { "p-update-refund-sub", "p-update-withdraw-again", "p-subupdate-settled" },
    hub        |-> { "p-vsettle-lone", "x-vsettle", "x-vsettle-late", "p-vfund2-lone", "x-vfund2", "x-vfund2-late",
                     \* a second virtual channel in which X owns nothing (2 / 0): honest proposals, and proposals whose index
                     \* map is one entry short (the unmapped participant is the one that owns nothing)
                     "p-vfund2z-lone", "x-vfund2z", "p-vfund2z-short", "x-vfund2z-short",
                     \* an ordinary update OF THE VIRTUAL CHANNEL ITSELF (which H knows only as its hub), valid and signed by the
                     \* end point that sends it; H's user accepts what it is shown
                     "x-vchan-update", "p-vchan-update" } ]
SpecialOf(pt) == IF pt \in DOMAIN Special THEN Special[pt] ELSE {}
(* classes that need the channel with P *)
NeedsChannel(c) == c \in PeerClasses \ {"p-propacc-unknown", "p-ledgerprop-again"}
OK(pt, c) == pt # "nochannel" \/ ~NeedsChannel(c)
At(pt) == { c \in Classes : OK(pt, c) } \cup SpecialOf(pt)

(* dep: both messages are specific to the point - they meet in the same piece of state of H (the hub's matching of
   proposals, H's pending proposal, the sub-channel): these pairs are always run, the others are sampled *)
(* net: the state of the network towards the adversary's addresses (P, X) while H handles the sequence - "ok"; "down":   *)
(* whatever H sends them fails at once; "stall": it stays in Publish until the context H passed ends (the remote party *)
(* has stopped reading).  The network is back before the honest probes.                                               *)
EmitN(pt, s, net) == PrintT(ToJson([point |-> pt, seq |-> s, net |-> net,
                                    dep |-> (Len(s) = 2 /\ s[1] \in SpecialOf(pt) /\ s[2] \in SpecialOf(pt))]))
Emit(pt, s) == EmitN(pt, s, "ok")
Singles == \A pt \in Points : \A c \in At(pt) : Emit(pt, <<c>>) /\ EmitN(pt, <<c>>, "down") /\ EmitN(pt, <<c>>, "stall")
(* "-x20": the same message twenty times in a row - more than any receiver of H buffers (16) *)
Floods == \A pt \in Points : \A c \in At(pt) : Emit(pt, <<c \o "-x20">>)
(* pairs: everything at the four basic points; at the three deeper points every pair with a point-specific class *)
Pairs == \A pt \in Points : \A c \in At(pt) : \A d \in At(pt) :
            (SpecialOf(pt) = {} \/ c \in SpecialOf(pt) \/ d \in SpecialOf(pt)) => Emit(pt, <<c, d>>)
ASSUME Singles /\ Floods /\ Pairs

VARIABLE dummy
Init == dummy = 0
Next == UNCHANGED dummy
Spec == Init /\ [][Next]_dummy
=============================================================================
