---------------------------- MODULE ActionMachine ----------------------------
(***************************************************************************)
(* C09 for channel.ActionMachine (channel/actionmachine.go): the machine   *)
(* that collects one action per participant and derives the next state     *)
(* from them.  Written from the doc comments: AddAction only in an action  *)
(* phase (InitActing, Acting) and only into an empty slot; Init / Update   *)
(* only from InitActing / Acting, they stage the state derived from the    *)
(* staged actions and clear the actions; every refused call leaves phase,  *)
(* staged actions, staged and current state untouched.  The operations of  *)
(* the embedded machine that are needed to move between the phases are     *)
(* included (Sig, AddSig, EnableInit, SetFunded, EnableUpdate,             *)
(* DiscardUpdate, SetRegistered).                                          *)
(*                                                                         *)
(* A state is abstracted to its version and the actions it was derived     *)
(* from; the action app of the harness accepts every action and writes the *)
(* actions into the balances, so the derived state is observable.          *)
(***************************************************************************)
EXTENDS Integers, FiniteSets, TLC

CONSTANTS N,       \* number of participants
          Me,      \* own index
          MaxVer   \* highest version

Part == 0..(N - 1)
Acts == {1, 2}                       \* action values; 0 = no action staged
None == [ver |-> -1, val |-> [i \in Part |-> 0]]

VARIABLES phase, acts, stg, sigs, cur
vars == <<phase, acts, stg, sigs, cur>>

Init == /\ phase = "InitActing" /\ acts = [i \in Part |-> 0]
        /\ stg = None /\ sigs = {} /\ cur = None

ActionPhase == phase \in {"InitActing", "Acting"}
SignPhase == phase \in {"InitSigning", "Signing"}

AddActionOk(i, a) == /\ ActionPhase /\ acts[i] = 0
                     /\ acts' = [acts EXCEPT ![i] = a]
                     /\ UNCHANGED <<phase, stg, sigs, cur>>
AddActionErr(i, a) == ~(ActionPhase /\ acts[i] = 0) /\ UNCHANGED vars

InitOk == /\ phase = "InitActing"
          /\ stg' = [ver |-> 0, val |-> acts] /\ sigs' = {}
          /\ acts' = [i \in Part |-> 0] /\ phase' = "InitSigning"
          /\ UNCHANGED cur
InitErr == phase # "InitActing" /\ UNCHANGED vars

UpdateOk == /\ phase = "Acting" /\ cur.ver < MaxVer
            /\ stg' = [ver |-> cur.ver + 1, val |-> acts] /\ sigs' = {}
            /\ acts' = [i \in Part |-> 0] /\ phase' = "Signing"
            /\ UNCHANGED cur
UpdateErr == phase # "Acting" /\ UNCHANGED vars

SigOk == SignPhase /\ sigs' = sigs \cup {Me} /\ UNCHANGED <<phase, acts, stg, cur>>
SigErr == ~SignPhase /\ UNCHANGED vars
(* a valid signature of participant j over the staged state *)
AddSigOk(j) == /\ SignPhase /\ j \notin sigs
               /\ sigs' = sigs \cup {j} /\ UNCHANGED <<phase, acts, stg, cur>>
AddSigErr(j) == ~(SignPhase /\ j \notin sigs) /\ UNCHANGED vars

EnableInitOk == /\ phase = "InitSigning" /\ sigs = Part
                /\ cur' = stg /\ stg' = None /\ sigs' = {} /\ phase' = "Funding"
                /\ UNCHANGED acts
EnableInitErr == ~(phase = "InitSigning" /\ sigs = Part) /\ UNCHANGED vars
SetFundedOk == phase = "Funding" /\ phase' = "Acting" /\ UNCHANGED <<acts, stg, sigs, cur>>
SetFundedErr == phase # "Funding" /\ UNCHANGED vars
EnableUpdateOk == /\ phase = "Signing" /\ sigs = Part
                  /\ cur' = stg /\ stg' = None /\ sigs' = {} /\ phase' = "Acting"
                  /\ UNCHANGED acts
EnableUpdateErr == ~(phase = "Signing" /\ sigs = Part) /\ UNCHANGED vars
DiscardUpdateOk == /\ phase = "Signing"
                   /\ stg' = None /\ sigs' = {} /\ phase' = "Acting"
                   /\ UNCHANGED <<acts, cur>>
DiscardUpdateErr == phase # "Signing" /\ UNCHANGED vars
(* an external phase change: possible once the init phases are over; staged actions and states stay *)
SetRegisteredOk == /\ phase \in {"Funding", "Acting", "Signing", "Registered"}
                   /\ phase' = "Registered" /\ UNCHANGED <<acts, stg, sigs, cur>>
SetRegisteredErr == phase \in {"InitActing", "InitSigning"} /\ UNCHANGED vars

Next ==
  \/ \E i \in Part, a \in Acts : AddActionOk(i, a) \/ AddActionErr(i, a)
  \/ InitOk \/ InitErr \/ UpdateOk \/ UpdateErr \/ SigOk \/ SigErr
  \/ \E j \in Part : AddSigOk(j) \/ AddSigErr(j)
  \/ EnableInitOk \/ EnableInitErr \/ SetFundedOk \/ SetFundedErr
  \/ EnableUpdateOk \/ EnableUpdateErr \/ DiscardUpdateOk \/ DiscardUpdateErr
  \/ SetRegisteredOk \/ SetRegisteredErr
Spec == Init /\ [][Next]_vars

(* actions are only ever staged in an action phase or kept across an external phase change *)
StagedMeansSigning == (stg # None) = (phase \in {"InitSigning", "Signing"} \/ (phase = "Registered" /\ stg # None))
CurrentAfterInit == (cur # None) = (phase \notin {"InitActing", "InitSigning"})
=============================================================================
