------------------------------- MODULE Multi -------------------------------
(***************************************************************************)
(* C20: multi.Adjudicator.dispatch and multi.Funder.Fund.                  *)
(*                                                                         *)
(* A request for a channel with asset list sc.assets is forwarded          *)
(* concurrently to the adjudicator / funder of every DISTINCT ledger of    *)
(* the list (a ledger is a pair backend id / ledger id; first-occurrence   *)
(* order), exactly once each, and to no other.  Sub-calls complete in any  *)
(* order; the request returns an error as soon as a failed sub-call (or a  *)
(* ledger without registered adjudicator / funder) is collected, and       *)
(* success when all were collected successfully.  An egoistic funder       *)
(* funds the selected ledger (index into the distinct ledgers) in a second *)
(* phase that starts only after all other ledgers were funded              *)
(* successfully.                                                           *)
(*                                                                         *)
(* The scenario (asset list, registered ledgers, failing sub-calls,        *)
(* method, egoistic index) is chosen in the initial state; Complete(l)     *)
(* lets the running sub-call on ledger l return - the Go driver holds the  *)
(* real sub-calls on gates and opens them in exactly this order.           *)
(***************************************************************************)
EXTENDS Integers, Sequences, FiniteSets, TLC

CONSTANTS MaxAssets,   \* asset lists of length 1..MaxAssets
          Methods      \* subset of {"Register","Progress","Withdraw","Fund","FundEgo0","FundEgo1","FundEgo2"}

Ledgers == {"1A", "1B", "2A"}          \* backend 1 ledger A, backend 1 ledger B, backend 2 ledger A
AssetKinds == Ledgers \cup {"plain"}   \* "plain": an asset that is no multi-ledger asset

AssetLists == UNION { [1..n -> AssetKinds] : n \in 1..MaxAssets }
Scenarios == { [assets |-> a, reg |-> r, fail |-> f, method |-> m] :
                  a \in AssetLists, r \in SUBSET Ledgers, f \in SUBSET Ledgers, m \in Methods }

(* distinct ledgers in first-occurrence order *)
RECURSIVE DistinctFrom(_, _, _)
DistinctFrom(a, i, acc) ==
  IF i > Len(a) THEN acc
  ELSE IF \E k \in 1..Len(acc) : acc[k] = a[i] THEN DistinctFrom(a, i + 1, acc)
  ELSE DistinctFrom(a, i + 1, Append(acc, a[i]))
Distinct(a) == DistinctFrom(a, 1, <<>>)
HasPlain(a) == \E i \in 1..Len(a) : a[i] = "plain"

EgoIdx(m) == CASE m = "FundEgo0" -> 0 [] m = "FundEgo1" -> 1 [] m = "FundEgo2" -> 2 [] OTHER -> -1
(* ledgers of phase 1 / phase 2 *)
Phase2(sc) == IF ~HasPlain(sc.assets) /\ EgoIdx(sc.method) >= 0 /\ EgoIdx(sc.method) < Len(Distinct(sc.assets))
              THEN { Distinct(sc.assets)[EgoIdx(sc.method) + 1] } ELSE {}
Phase1(sc) == IF HasPlain(sc.assets) THEN {}
              ELSE { Distinct(sc.assets)[i] : i \in 1..Len(Distinct(sc.assets)) } \ Phase2(sc)

VARIABLES sc, stage, call, ncalls, result
vars == <<sc, stage, call, ncalls, result>>

Init == /\ sc \in Scenarios
        /\ stage = "idle"
        /\ call = [l \in Ledgers |-> "idle"]
        /\ ncalls = [l \in Ledgers |-> 0]
        /\ result = "none"

(* start the sub-calls of a phase: registered ledgers run, a missing one is an immediate error *)
StartPhase(ls, st) ==
  /\ call' = [l \in Ledgers |-> IF l \in ls /\ l \in sc.reg THEN "running" ELSE call[l]]
  /\ ncalls' = [l \in Ledgers |-> IF l \in ls /\ l \in sc.reg THEN ncalls[l] + 1 ELSE ncalls[l]]
  /\ stage' = st

Invoke ==
  /\ stage = "idle"
  /\ ~(Phase1(sc) = {} /\ Phase2(sc) # {})      \* that case is InvokeEgoOnly
  /\ IF HasPlain(sc.assets)
     THEN /\ result' = "err" /\ stage' = "returned" /\ UNCHANGED <<call, ncalls>>
     ELSE /\ StartPhase(Phase1(sc), "phase1")
          /\ result' = IF Phase1(sc) \ sc.reg # {} THEN "err"
                       ELSE IF Phase1(sc) = {} /\ Phase2(sc) = {} THEN "ok" ELSE "none"
  /\ UNCHANGED sc

Running == { l \in Ledgers : call[l] = "running" }
AllOk(ls) == \A l \in ls : l \in sc.reg /\ call[l] = "ok"

(* The sub-call on l returns.  If it is collected before the request has  *)
(* returned it decides: failure -> error; last success of phase 1 ->       *)
(* phase 2 starts (egoistic) or success; last success of phase 2 -> ok.    *)
Complete(l) ==
  /\ call[l] = "running"
  /\ LET outcome == IF l \in sc.fail THEN "failed" ELSE "ok"
         call1 == [call EXCEPT ![l] = outcome]
         p1done == \A k \in Phase1(sc) : k \in sc.reg /\ call1[k] = "ok"
     IN IF result # "none"
        THEN /\ call' = call1 /\ UNCHANGED <<ncalls, result, stage>>     \* request already returned: nobody listens
        ELSE IF outcome = "failed"
        THEN /\ call' = call1 /\ result' = "err" /\ UNCHANGED <<ncalls, stage>>
        ELSE IF stage = "phase1" /\ p1done /\ Phase2(sc) # {}
        THEN /\ call' = [k \in Ledgers |-> IF k \in Phase2(sc) /\ k \in sc.reg THEN "running" ELSE call1[k]]
             /\ ncalls' = [k \in Ledgers |-> IF k \in Phase2(sc) /\ k \in sc.reg THEN ncalls[k] + 1 ELSE ncalls[k]]
             /\ stage' = "phase2"
             /\ result' = IF Phase2(sc) \ sc.reg # {} THEN "err" ELSE "none"
        ELSE IF (stage = "phase1" /\ p1done /\ Phase2(sc) = {}) \/ (stage = "phase2" /\ l \in Phase2(sc))
        THEN /\ call' = call1 /\ result' = "ok" /\ UNCHANGED <<ncalls, stage>>
        ELSE /\ call' = call1 /\ UNCHANGED <<ncalls, result, stage>>
  /\ UNCHANGED sc

(* All running sub-calls (at least two) return at the same instant: the request collects them in an order nobody    *)
(* controls.  Whatever that order is, the outcome is the one of completing them one after the other (a failure among *)
(* them decides for an error; otherwise the last success starts phase 2 or makes the request succeed).  The driver   *)
(* lets the real sub-calls leave a barrier together, several times per behaviour: this is where unsynchronised       *)
(* collection of the results shows.                                                                                  *)
CompleteAll ==
  /\ Cardinality(Running) >= 2
  /\ LET outs == [l \in Ledgers |-> IF call[l] = "running" THEN (IF l \in sc.fail THEN "failed" ELSE "ok") ELSE call[l]]
         anyFail == \E l \in Running : l \in sc.fail
         p1done == \A k \in Phase1(sc) : k \in sc.reg /\ outs[k] = "ok"
     IN IF result # "none"
        THEN /\ call' = outs /\ UNCHANGED <<ncalls, result, stage>>
        ELSE IF anyFail
        THEN /\ call' = outs /\ result' = "err" /\ UNCHANGED <<ncalls, stage>>
        ELSE IF stage = "phase1" /\ p1done /\ Phase2(sc) # {}
        THEN /\ call' = [k \in Ledgers |-> IF k \in Phase2(sc) /\ k \in sc.reg THEN "running" ELSE outs[k]]
             /\ ncalls' = [k \in Ledgers |-> IF k \in Phase2(sc) /\ k \in sc.reg THEN ncalls[k] + 1 ELSE ncalls[k]]
             /\ stage' = "phase2"
             /\ result' = IF Phase2(sc) \ sc.reg # {} THEN "err" ELSE "none"
        ELSE IF stage = "phase1" /\ p1done /\ Phase2(sc) = {}
        THEN /\ call' = outs /\ result' = "ok" /\ UNCHANGED <<ncalls, stage>>
        ELSE /\ call' = outs /\ UNCHANGED <<ncalls, result, stage>>
  /\ UNCHANGED sc

(* phase 1 may be empty for an egoistic funder with a single ledger: then phase 2 starts at once *)
InvokeEgoOnly ==
  /\ stage = "idle" /\ ~HasPlain(sc.assets) /\ Phase1(sc) = {} /\ Phase2(sc) # {}
  /\ StartPhase(Phase2(sc), "phase2")
  /\ result' = IF Phase2(sc) \ sc.reg # {} THEN "err" ELSE "none"
  /\ UNCHANGED sc

Next == \/ Invoke
        \/ InvokeEgoOnly
        \/ \E l \in Ledgers : Complete(l)
        \/ CompleteAll
Spec == Init /\ [][Next]_vars

Used == IF HasPlain(sc.assets) THEN {} ELSE Phase1(sc) \cup Phase2(sc)
(* exactly once to every distinct ledger of the asset list, to no other *)
AtMostOnce == \A l \in Ledgers : ncalls[l] <= 1 /\ (ncalls[l] = 1 => l \in Used /\ l \in sc.reg)
(* success only if every ledger is registered and every forwarded call succeeded *)
SuccessSound == result = "ok" => /\ Used \subseteq sc.reg
                                 /\ \A l \in Used : call[l] = "ok" /\ ncalls[l] = 1
(* a missing or failed ledger in a started phase makes the request fail *)
FailureComplete == (stage # "idle" /\ Running = {} /\ result = "none") => FALSE
(* egoistic: the selected ledger is called only after all others succeeded *)
EgoLast == \A l \in Phase2(sc) : ncalls[l] = 1 => AllOk(Phase1(sc))
=============================================================================
