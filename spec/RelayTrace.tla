----------------------------- MODULE RelayTrace -----------------------------
(***************************************************************************)
(* Trace validation (R3) of concurrent executions of the real wire.Relay   *)
(* against Relay.tla.  The log (ndjson, several traces separated by        *)
(* "reset") contains for every operation a "call" line (operation and      *)
(* arguments) and a "ret" line (result class), ordered by a sequence       *)
(* number taken under the log mutex, and a closing "final" line with the   *)
(* bag of envelopes observed at every consumer and at the default handler. *)
(* Each operation takes effect atomically at some point between its call   *)
(* and its return (Lin); the asynchronous removal of a closed consumer is  *)
(* a silent step.  A trace is accepted iff some choice of linearisation    *)
(* points explains all results and the final bags.                         *)
(***************************************************************************)
EXTENDS Relay, Json, TLCExt

CONSTANT LogFile
Log == ndJsonDeserialize(LogFile)

VARIABLES l,        \* next log line
          pending,  \* set of [id, op, a1, a2] called and not yet linearised
          done      \* function id -> result, linearised and not yet returned
tvars == <<vars, l, pending, done>>

TInit == Init /\ l = 1 /\ pending = {} /\ done = <<>>

Line == Log[l]
Is(ev) == l <= Len(Log) /\ Line.ev = ev

TCall == /\ Is("call")
         /\ pending' = pending \cup {[id |-> Line.id, op |-> Line.op, a1 |-> Line.a1, a2 |-> Line.a2]}
         /\ l' = l + 1
         /\ UNCHANGED <<vars, done>>

Do(o) == CASE o.op = "Put" -> Put(o.a1)
           [] o.op = "Subscribe" -> Subscribe(o.a1, o.a2)
           [] o.op = "CachePred" -> CachePred(o.a1)
           [] o.op = "ReleasePred" -> ReleasePred(o.a1)
           [] o.op = "CloseConsumer" -> CloseOnly(o.a1)

Lin == \E o \in pending :
         /\ Do(o)
         /\ pending' = pending \ {o}
         /\ done' = [i \in DOMAIN done \cup {o.id} |-> IF i = o.id THEN res' ELSE done[i]]
         /\ UNCHANGED l

TRet == /\ Is("ret")
        /\ Line.id \in DOMAIN done
        /\ done[Line.id] = Line.res
        /\ done' = [i \in DOMAIN done \ {Line.id} |-> done[i]]
        /\ l' = l + 1
        /\ UNCHANGED <<vars, pending>>

Silent == \E c \in Consumers : DeleteConsumer(c) /\ UNCHANGED <<l, pending, done>>

BagOf(s) == [e \in Envs |-> Count(s, e)]
SeqBag(j) == [e \in Envs |-> Cardinality({ i \in 1..Len(j) : j[i] = e })]
TFinal == /\ Is("final")
          /\ pending = {} /\ done = <<>>
          /\ \A c \in Consumers : BagOf(got[c]) = SeqBag(Line.got[c])
          /\ \A e \in Envs : (e \in dflt) = (Cardinality({ i \in 1..Len(Line.dflt) : Line.dflt[i] = e }) = 1)
          /\ Len(Line.dflt) = Cardinality(dflt)
          /\ BagOf(cache) = SeqBag(Line.cache)
          /\ l' = l + 1
          /\ UNCHANGED <<vars, pending, done>>

TReset == /\ Is("reset")
          /\ subs' = [c \in Consumers |-> "none"]
          /\ closedC' = {} /\ cpreds' = {} /\ cache' = <<>>
          /\ got' = [c \in Consumers |-> <<>>]
          /\ dflt' = {} /\ put' = {} /\ open' = TRUE /\ res' = "ok"
          /\ pending' = {} /\ done' = <<>>
          /\ l' = l + 1

TNext == TCall \/ Lin \/ TRet \/ Silent \/ TFinal \/ TReset
TSpec == TInit /\ [][TNext]_tvars

(* high-water mark of consumed lines *)
Mark == TLCSet(1, IF TLCGet(1) < l THEN l ELSE TLCGet(1))
ASSUME TLCSet(1, 0)
Accepted == IF TLCGet(1) = Len(Log) + 1 THEN TRUE ELSE PrintT(<<"high-water mark", TLCGet(1)>>) /\ FALSE
=============================================================================
