-------------------------------- MODULE Open --------------------------------
(***************************************************************************)
(* The two-party channel opening protocol (C08, first half), shaped after  *)
(* client/proposal.go: ProposeChannel / proposeTwoPartyChannel,            *)
(* handleChannelProposal, ProposalResponder.Accept -> acceptChannelProposal*)
(* -> completeCPP, the exchange of the version-0 signatures                *)
(* (initExchangeSigsAndEnable) with the version-0 cache of the client      *)
(* connection, and funding.                                                *)
(*                                                                         *)
(* Burst granularity with one additional scheduling point: the responder   *)
(* may be held INSIDE the publication of its acceptance (a slow goroutine), *)
(* so that the proposer's version-0 signature can arrive before the        *)
(* responder has created its channel - it must then be kept by the         *)
(* version-0 cache.                                                        *)
(***************************************************************************)
EXTENDS Integers, FiniteSets, TLC

VARIABLES pcA,     \* "idle" | "waitResp" | "waitSig" | "funding" | "open" | "rejected"
          pcB,     \* "idle" | "handler" | "accHeld" | "waitSig" | "funding" | "open" | "rejected"
          net,     \* envelopes in flight: subset of {"prop","propacc","proprej","sigA","sigB"}
          cacheA,  \* version-0 signatures cached at A's client connection
          cacheB
vars == <<pcA, pcB, net, cacheA, cacheB>>

Init == pcA = "idle" /\ pcB = "idle" /\ net = {} /\ cacheA = {} /\ cacheB = {}

(* when both sides have enabled the initial state both fund; the ledger then lets both calls return *)
Fund(a, b) == IF a = "funding" /\ b = "funding" THEN <<"open", "open">> ELSE <<a, b>>

Propose == /\ pcA = "idle"
           /\ pcA' = "waitResp" /\ net' = net \cup {"prop"}
           /\ UNCHANGED <<pcB, cacheA, cacheB>>

DeliverProp == /\ "prop" \in net /\ pcB = "idle"
               /\ net' = net \ {"prop"} /\ pcB' = "handler"
               /\ UNCHANGED <<pcA, cacheA, cacheB>>

(* B2: the responder creates its channel, sends its version-0 signature and takes a cached one *)
BCreate(n) == LET b1 == IF "sigA" \in cacheB THEN "funding" ELSE "waitSig"
                  f == Fund(pcA, b1)
              IN /\ pcA' = f[1] /\ pcB' = f[2]
                 /\ net' = n \cup {"sigB"}
                 /\ cacheB' = {} /\ UNCHANGED cacheA

Answer(accept, hold) ==
  /\ pcB = "handler"
  /\ IF ~accept
     THEN /\ hold = FALSE /\ pcB' = "rejected" /\ net' = net \cup {"proprej"} /\ UNCHANGED <<pcA, cacheA, cacheB>>
     ELSE IF hold
     THEN /\ pcB' = "accHeld" /\ net' = net \cup {"propacc"} /\ UNCHANGED <<pcA, cacheA, cacheB>>
     ELSE BCreate(net \cup {"propacc"})

ReleaseB == pcB = "accHeld" /\ BCreate(net)

DeliverPropAcc ==
  /\ "propacc" \in net /\ pcA = "waitResp"
  /\ LET a1 == IF "sigB" \in cacheA THEN "funding" ELSE "waitSig"
         f == Fund(a1, pcB)
     IN /\ pcA' = f[1] /\ pcB' = f[2]
        /\ net' = (net \ {"propacc"}) \cup {"sigA"}
        /\ cacheA' = {} /\ UNCHANGED cacheB

DeliverPropRej == /\ "proprej" \in net /\ pcA = "waitResp"
                  /\ net' = net \ {"proprej"} /\ pcA' = "rejected"
                  /\ UNCHANGED <<pcB, cacheA, cacheB>>

DeliverSigB ==
  /\ "sigB" \in net
  /\ net' = net \ {"sigB"}
  /\ IF pcA = "waitSig"
     THEN LET f == Fund("funding", pcB) IN pcA' = f[1] /\ pcB' = f[2] /\ UNCHANGED <<cacheA, cacheB>>
     ELSE /\ cacheA' = IF pcA = "waitResp" THEN cacheA \cup {"sigB"} ELSE cacheA
          /\ UNCHANGED <<pcA, pcB, cacheB>>

DeliverSigA ==
  /\ "sigA" \in net
  /\ net' = net \ {"sigA"}
  /\ IF pcB = "waitSig"
     THEN LET f == Fund(pcA, "funding") IN pcA' = f[1] /\ pcB' = f[2] /\ UNCHANGED <<cacheA, cacheB>>
     ELSE /\ cacheB' = IF pcB = "accHeld" THEN cacheB \cup {"sigA"} ELSE cacheB
          /\ UNCHANGED <<pcA, pcB, cacheA>>

Next == \/ Propose \/ DeliverProp
        \/ \E a, h \in BOOLEAN : Answer(a, h)
        \/ ReleaseB \/ DeliverPropAcc \/ DeliverPropRej \/ DeliverSigA \/ DeliverSigB
Spec == Init /\ [][Next]_vars

(* one side open => the other too (both obtained the channel) *)
BothOrNone == (pcA = "open") = (pcB = "open")
(* everything delivered, nobody held: an accepted proposal has produced the channel on both sides *)
Quiescent == net = {} /\ pcB # "accHeld"
AcceptedOpens == (Quiescent /\ pcB \notin {"idle", "handler", "rejected"}) => (pcA = "open" /\ pcB = "open")
RejectedCloses == (Quiescent /\ pcB = "rejected") => pcA = "rejected"
=============================================================================
