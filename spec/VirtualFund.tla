---------------------------- MODULE VirtualFund ----------------------------
(***************************************************************************)
(* C07, virtual channels.  The honest client H is the hub of a virtual     *)
(* channel V between A and B: it has a ledger channel with A and one with  *)
(* B (10/10 each, the peer is participant 0, H participant 1).  The only   *)
(* updates H accepts without its user are the two that FUND V (A and B     *)
(* each propose, on their ledger channel with H, to lock V's funds; H      *)
(* signs both once it has a matching pair) and the two that SETTLE V.      *)
(* A and B are both controlled by the adversary, who owns their valid      *)
(* keys: every state of V it presents is signed by whoever it likes.       *)
(*                                                                         *)
(* Function-like module.  A case is a PAIR of proposals (one per ledger    *)
(* channel), abstracted to the features the property names; Honest is the  *)
(* honest pair of a situation; Acceptable is the independent predicate:    *)
(* both proposals arrive, carry the same fully signed state of V, lock /   *)
(* release exactly V's sub-allocation with the right index map, and change *)
(* every participant's balance in the ledger channel by exactly its        *)
(* balance in V (the hub stands in for the other end point).               *)
(* V: initial 2 (A) / 2 (B); final 3 / 1.                                  *)
(***************************************************************************)
EXTENDS Integers, FiniteSets, TLC, Json

Sits == {"vfund", "vsettle"}

Honest(sit) ==
  [sit |-> sit,
   arrive |-> "both",     \* "both" | "one" (only the proposal on `side`'s ledger channel arrives)
   side |-> "A",          \* the ledger channel that carries the mutated feature
   psig |-> "valid",      \* signature on the ledger channel update: "valid" | "otherkey"
   ver |-> 1,             \* version delta of the ledger channel update
   amount |-> "exact",    \* amount of V's sub-allocation: "exact" | "plus1" (the hub pays the difference)
   imap |-> "ok",         \* index map of the sub-allocation / the proposal: "ok" | "swapped" | "none" | "short" |
                          \*   "duphub" / "duppeer" (not injective: both end points of V mapped to the hub / to the peer)
   vsigs |-> "both",      \* signatures on V's state: "both" | "senderonly" | "bad"
   vstate |-> "same",     \* "same" | "differs": the two proposals carry different (each fully signed) states of V
   vflag |-> TRUE,        \* V's parameters have the virtual-channel flag
   vparts |-> "ab",       \* V's participants: "ab" | "other" (A and a stranger)
   vlocked |-> FALSE,     \* V's state has locked funds itself
   vfinal |-> sit = "vsettle",  \* V's state is final (settlement needs a final state)
   move |-> "exact",      \* balances of the ledger channel: "exact" | "hubpaysall" | "hubpaysmore" | "peerpaysall" (funding)
                          \*   "exact" | "hubless" | "swapped" (settlement)
   keep |-> FALSE,        \* settlement: V's sub-allocation stays in the ledger channel
   vbal |-> "even",       \* funding: V's initial balances "even" (2 / 2) | "azero" (0 / 4) | "bzero" (4 / 0): an end point that owns
                          \*   nothing in V makes defects of its index-map entry invisible to every check on sums
   order |-> "ab"]        \* which proposal reaches H first: "ab" | "ba" (the second one meets the first one waiting)

(* What the ledger channel update of the mutated side moves, in numbers: V's balances <<A, B>> of the shape, seen from *)
(* the ledger channel of `side` (own = the peer's balance in V, other = the other end point's, which the hub stands in  *)
(* for), and the pair <<peer pays / gets, hub pays / gets>> that the update contains.                                 *)
VBals(m) == IF m.sit = "vsettle" THEN <<3, 1>>
            ELSE CASE m.vbal = "even" -> <<2, 2>> [] m.vbal = "azero" -> <<0, 4>> [] m.vbal = "bzero" -> <<4, 0>>
Own(m) == IF m.side = "A" THEN VBals(m)[1] ELSE VBals(m)[2]
Other(m) == IF m.side = "A" THEN VBals(m)[2] ELSE VBals(m)[1]
Moved(m) == CASE m.move = "exact" -> <<Own(m), Other(m)>>
              [] m.move = "hubpaysall" -> <<0, Own(m) + Other(m)>>
              [] m.move = "hubpaysmore" -> <<Own(m) - 1, Other(m) + 1>>
              [] m.move = "peerpaysall" -> <<Own(m) + Other(m), 0>>
              [] m.move = "hubless" -> <<Own(m) + 1, Other(m) - 1>>
              [] m.move = "swapped" -> <<Other(m), Own(m)>>
MoveExact(m) == Moved(m) = <<Own(m), Other(m)>>     \* in a shape with an empty-handed end point some "mutants" are the honest update

Acceptable(m) ==
  /\ m.arrive = "both" /\ m.psig = "valid" /\ m.ver = 1
  /\ m.amount = "exact" /\ m.imap = "ok"
  /\ m.vsigs = "both" /\ m.vstate = "same" /\ m.vflag /\ ~m.vlocked
  \* m.vparts: the end points of V are tied to the ledger channels by the index maps, not by identity; who they are
  \* does not matter for what H signs
  /\ (m.sit = "vsettle" => m.vfinal)          \* funding V with a final state: the statement has no clause against it
  /\ MoveExact(m) /\ ~m.keep

Mutants1(b) ==
  LET sit == b.sit IN
  { <<"none", b>> }
  \cup { <<"arrive", [b EXCEPT !.arrive = "one", !.side = s]>> : s \in {"A", "B"} }
  \cup { <<"psig", [b EXCEPT !.psig = "otherkey"]>> }
  \cup { <<"ver", [b EXCEPT !.ver = x]>> : x \in {0, 2} }
  \cup { <<"vsigs", [b EXCEPT !.vsigs = x, !.side = s]>> : x \in {"senderonly", "bad"}, s \in {"A", "B"} }
  \cup { <<"vstate", [b EXCEPT !.vstate = "differs"]>> }
  \cup { <<"move", [b EXCEPT !.move = x, !.side = s]>> :
            x \in (IF sit = "vfund" THEN {"hubpaysall", "hubpaysmore", "peerpaysall"} ELSE {"hubless", "swapped"}), s \in {"A", "B"} }
  \cup (IF sit = "vfund"
        THEN { <<"amount", [b EXCEPT !.amount = "plus1", !.side = s]>> : s \in {"A", "B"} }
             \cup { <<"imap", [b EXCEPT !.imap = x, !.side = s]>> : x \in {"swapped", "none", "short", "duphub", "duppeer"}, s \in {"A", "B"} }
             \* a map that is not injective together with the funding it would describe if entries were added up
             \cup { <<"imapmove", [b EXCEPT !.imap = "duphub", !.move = "hubpaysall", !.side = s]>> : s \in {"A", "B"} }
             \cup { <<"imapmove", [b EXCEPT !.imap = "duppeer", !.move = "peerpaysall", !.side = s]>> : s \in {"A", "B"} }
             \cup { <<"vflag", [b EXCEPT !.vflag = FALSE]>> }
             \cup { <<"vparts", [b EXCEPT !.vparts = "other"]>> }
             \cup { <<"vlocked", [b EXCEPT !.vlocked = TRUE]>> }
             \cup { <<"vfinal", [b EXCEPT !.vfinal = TRUE]>> }    \* a virtual channel funded with a final state: nothing forbids it
        ELSE { <<"vfinal", [b EXCEPT !.vfinal = FALSE]>> }
             \cup { <<"keep", [b EXCEPT !.keep = TRUE, !.side = s]>> : s \in {"A", "B"} })
(* every single-feature mutant in every shape of the honest pair (balances of V, order of arrival) *)
Shapes(sit) == { [Honest(sit) EXCEPT !.vbal = vb, !.order = o] :
                   vb \in (IF sit = "vfund" THEN {"even", "azero", "bzero"} ELSE {"even"}), o \in {"ab", "ba"} }
Mutants(sit) == UNION { Mutants1(b) : b \in Shapes(sit) }

(* An index map that is not injective ("duphub": both end points of V stand at the hub's index) names no end point of *)
(* V as the peer, yet with an end point that owns nothing in V the balances move exactly as the statement requires    *)
(* (the peer is debited its balance in V: nothing).  The statement has no clause on the map of an ADDED sub-allocation *)
(* beyond "exactly that channel's sub-allocation"; whether H signs such a pair is left open ("may-sign"), as long as   *)
(* every participant's balance moves by exactly its balance in V.                                                      *)
Tolerated(m) == Acceptable([m EXCEPT !.imap = IF @ \in {"duphub", "duppeer"} THEN "ok" ELSE @])

ASSUME \A s \in Sits : Acceptable(Honest(s))
(* every other single-feature mutant is unacceptable *)
ASSUME \A s \in Sits : \A x \in Mutants(s) :
   (x[1] # "none" /\ ~(s = "vfund" /\ x[1] \in {"vfinal", "vparts"}) /\ ~(x[1] \in {"move", "imapmove"} /\ MoveExact(x[2]))) => ~Acceptable(x[2])

(* "honest": the honest pair (the driver expects both signatures: sanity of the harness); "may-sign": acceptable by the *)
(* statement, whether H signs is its business; "must-not-sign": any signature is a violation                           *)
Verdict(s, x) == IF x[1] = "none" /\ x[2].vbal = "even" THEN "honest" ELSE IF Tolerated(x[2]) THEN "may-sign" ELSE "must-not-sign"
Export == \A s \in Sits : \A x \in Mutants(s) :
  PrintT(ToJson([msg |-> x[2], mutant |-> x[1], expect |-> Verdict(s, x)]))
ASSUME Export

VARIABLE dummy
Init == dummy = 0
Next == UNCHANGED dummy
Spec == Init /\ [][Next]_dummy
=============================================================================
