---------------------------- MODULE VirtualFund ----------------------------
(***************************************************************************)
(* C07, virtual channels.  The honest client H is the hub of a virtual     *)
(* channel V between A and B: it has a ledger channel with A and one with  *)
(* B (10/10 each, the peer is participant 0, H participant 1).  The only   *)
(* updates H accepts without its user are the two that FUND V (A and B     *)
(* each propose, on their ledger channel with H, to lock V's funds; H      *)
(* signs both once it has a matching pair) and the two that SETTLE V.      *)
(* A and B are both controlled by the adversary, who owns their valid      *)
(* keys: every state of V it presents is signed by whoever it likes.       *)
(*                                                                         *)
(* Function-like module.  A case is a PAIR of proposals (one per ledger    *)
(* channel), abstracted to the features the property names; Honest is the  *)
(* honest pair of a situation; Acceptable is the independent predicate:    *)
(* both proposals arrive, carry the same fully signed state of V, lock /   *)
(* release exactly V's sub-allocation with the right index map, and change *)
(* every participant's balance in the ledger channel by exactly its        *)
(* balance in V (the hub stands in for the other end point).               *)
(* V: initial 2 (A) / 2 (B); final 3 / 1.                                  *)
(***************************************************************************)
EXTENDS Integers, FiniteSets, TLC, Json

Sits == {"vfund", "vsettle"}

Honest(sit) ==
  [sit |-> sit,
   arrive |-> "both",     \* "both" | "one" (only the proposal on `side`'s ledger channel arrives)
   side |-> "A",          \* the ledger channel that carries the mutated feature
   psig |-> "valid",      \* signature on the ledger channel update: "valid" | "otherkey"
   ver |-> 1,             \* version delta of the ledger channel update
   amount |-> "exact",    \* amount of V's sub-allocation: "exact" | "plus1" (the hub pays the difference)
   imap |-> "ok",         \* index map of the sub-allocation / the proposal: "ok" | "swapped" | "none" | "short"
   vsigs |-> "both",      \* signatures on V's state: "both" | "senderonly" | "bad"
   vstate |-> "same",     \* "same" | "differs": the two proposals carry different (each fully signed) states of V
   vflag |-> TRUE,        \* V's parameters have the virtual-channel flag
   vparts |-> "ab",       \* V's participants: "ab" | "other" (A and a stranger)
   vlocked |-> FALSE,     \* V's state has locked funds itself
   vfinal |-> sit = "vsettle",  \* V's state is final (settlement needs a final state)
   move |-> "exact",      \* balances of the ledger channel: "exact" | "hubpaysall" | "hubpaysmore" | "peerpaysall" (funding)
                          \*   "exact" | "hubless" | "swapped" (settlement)
   keep |-> FALSE]        \* settlement: V's sub-allocation stays in the ledger channel

Acceptable(m) ==
  /\ m.arrive = "both" /\ m.psig = "valid" /\ m.ver = 1
  /\ m.amount = "exact" /\ m.imap = "ok"
  /\ m.vsigs = "both" /\ m.vstate = "same" /\ m.vflag /\ ~m.vlocked
  \* m.vparts: the end points of V are tied to the ledger channels by the index maps, not by identity; who they are
  \* does not matter for what H signs
  /\ (m.sit = "vsettle" => m.vfinal)          \* funding V with a final state: the statement has no clause against it
  /\ m.move = "exact" /\ ~m.keep

Mutants(sit) ==
  LET b == Honest(sit) IN
  { <<"none", b>> }
  \cup { <<"arrive", [b EXCEPT !.arrive = "one", !.side = s]>> : s \in {"A", "B"} }
  \cup { <<"psig", [b EXCEPT !.psig = "otherkey"]>> }
  \cup { <<"ver", [b EXCEPT !.ver = x]>> : x \in {0, 2} }
  \cup { <<"vsigs", [b EXCEPT !.vsigs = x, !.side = s]>> : x \in {"senderonly", "bad"}, s \in {"A", "B"} }
  \cup { <<"vstate", [b EXCEPT !.vstate = "differs"]>> }
  \cup { <<"move", [b EXCEPT !.move = x, !.side = s]>> :
            x \in (IF sit = "vfund" THEN {"hubpaysall", "hubpaysmore", "peerpaysall"} ELSE {"hubless", "swapped"}), s \in {"A", "B"} }
  \cup (IF sit = "vfund"
        THEN { <<"amount", [b EXCEPT !.amount = "plus1", !.side = s]>> : s \in {"A", "B"} }
             \cup { <<"imap", [b EXCEPT !.imap = x, !.side = s]>> : x \in {"swapped", "none", "short"}, s \in {"A", "B"} }
             \cup { <<"vflag", [b EXCEPT !.vflag = FALSE]>> }
             \cup { <<"vparts", [b EXCEPT !.vparts = "other"]>> }
             \cup { <<"vlocked", [b EXCEPT !.vlocked = TRUE]>> }
             \cup { <<"vfinal", [b EXCEPT !.vfinal = TRUE]>> }    \* a virtual channel funded with a final state: nothing forbids it
        ELSE { <<"vfinal", [b EXCEPT !.vfinal = FALSE]>> }
             \cup { <<"keep", [b EXCEPT !.keep = TRUE, !.side = s]>> : s \in {"A", "B"} })

ASSUME \A s \in Sits : Acceptable(Honest(s))
(* every other single-feature mutant is unacceptable *)
ASSUME \A s \in Sits : \A x \in Mutants(s) : (x[1] # "none" /\ ~(s = "vfund" /\ x[1] \in {"vfinal", "vparts"})) => ~Acceptable(x[2])

(* "honest": the honest pair (the driver expects both signatures: sanity of the harness); "may-sign": acceptable by the *)
(* statement, whether H signs is its business; "must-not-sign": any signature is a violation                           *)
Verdict(s, x) == IF x[1] = "none" THEN "honest" ELSE IF Acceptable(x[2]) THEN "may-sign" ELSE "must-not-sign"
Export == \A s \in Sits : \A x \in Mutants(s) :
  PrintT(ToJson([msg |-> x[2], mutant |-> x[1], expect |-> Verdict(s, x)]))
ASSUME Export

VARIABLE dummy
Init == dummy = 0
Next == UNCHANGED dummy
Spec == Init /\ [][Next]_dummy
=============================================================================
