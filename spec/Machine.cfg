CONSTANTS N = 2 Me = 0 MaxVer = 2
SPECIFICATION Spec
INVARIANTS TypeOK CurrentSigned StagingSigsSound UnsignedOnlyAdopted
PROPERTIES PhaseMoves OwnSigOnlyWhenSigning
