------------------------------- MODULE Store -------------------------------
(***************************************************************************)
(* C11: the persistent store describes exactly the live channels.          *)
(*                                                                         *)
(* Several channels (ids Chans) with peers and optional parents are        *)
(* created, advanced (a step of the persisted channel machine) and removed *)
(* in any order, including create - remove - create of the same id.  The   *)
(* restorer's views are functions of the set of live channels:             *)
(*   RestorePeer(p)    = live channels that list p                         *)
(*   ActivePeers       = union of the peers of live channels               *)
(*   RestoreAll        = live channels, each with its own data             *)
(*   RestoreChannel(c) = defined iff c is live                             *)
(*   raw keys          = keys of live channels only                        *)
(* The reachable graph is dumped and every edge is executed on a real      *)
(* keyvalue.PersistRestorer; all views and the raw key set are compared    *)
(* with these definitions after every step.                                *)
(***************************************************************************)
EXTENDS Integers, FiniteSets, TLC

CONSTANTS Chans,     \* channel ids, e.g. 1..3
          MaxAdv     \* a live channel's machine is advanced at most MaxAdv steps

Peers == {"me", "p1", "p2"}
PeerLists == { <<"me", "p1">>, <<"me", "p2">>, <<"p1", "p2">> }
None == [peers |-> <<>>, parent |-> 0, adv |-> -1]

VARIABLE live     \* Chans -> None or [peers, parent (0 = none), adv]
vars == <<live>>

Init == live = [c \in Chans |-> None]

Create(c, ps, par) == /\ live[c] = None
                      /\ par # c
                      /\ live' = [live EXCEPT ![c] = [peers |-> ps, parent |-> par, adv |-> 0]]
Advance(c) == /\ live[c] # None /\ live[c].adv < MaxAdv
              /\ live' = [live EXCEPT ![c].adv = @ + 1]
Remove(c) == /\ live[c] # None
             /\ live' = [live EXCEPT ![c] = None]

Next == \/ \E c \in Chans, ps \in PeerLists, par \in Chans \cup {0} : Create(c, ps, par)
        \/ \E c \in Chans : Advance(c)
        \/ \E c \in Chans : Remove(c)
Spec == Init /\ [][Next]_vars

Live == { c \in Chans : live[c] # None }
Lists(c, p) == \E i \in 1..2 : live[c].peers[i] = p
RestorePeer(p) == { c \in Live : Lists(c, p) }
ActivePeers == { p \in Peers : RestorePeer(p) # {} }
RestoreAll == Live

(* operations on one channel never change what is restored for another *)
Isolation == [][\A c \in Chans : (\E d \in Chans : d # c /\ live'[d] # live[d]) => live'[c] = live[c]]_vars
ViewsConsistent == /\ \A p \in Peers : RestorePeer(p) \subseteq RestoreAll
                   /\ (Live = {}) = (ActivePeers = {})
=============================================================================
