------------------------------ MODULE Proposal ------------------------------
(***************************************************************************)
(* C08, second half: a received channel proposal that is malformed or      *)
(* inconsistent with the receiver's situation is dropped before the user's *)
(* proposal handler runs and never creates a channel.                      *)
(*                                                                         *)
(* Function-like module (DESIGN.md 3.2): an abstract proposal is a record  *)
(* of the features the property lists; WellFormed is the conjunction of    *)
(* the property's clauses; Cases = every well-formed base proposal (ledger *)
(* / sub-channel / virtual channel, receiver with and without the matching *)
(* parent channel) and every single-feature mutant of one, each with the   *)
(* verdict "handler" / "dropped".  TLC evaluates the verdicts and streams  *)
(* the cases; the driver crafts each as a real message (both serializers), *)
(* injects it into a real client and observes whether the handler runs.    *)
(*                                                                         *)
(* The receiver H has (if parent = TRUE) a ledger channel with party I     *)
(* holding I 9 / H 5.  Senders: I (H's channel counterparty) or S (a       *)
(* stranger).  busy = TRUE: when the proposal arrives, an update of that   *)
(* channel by which I pays 5 (-> I 4 / H 10) waits for H's user, who       *)
(* accepts it afterwards: the proposal is judged against the channel as it *)
(* is when H gets to handle it.                                            *)
(***************************************************************************)
EXTENDS Integers, Sequences, FiniteSets, TLC, Json

Kinds == {"ledger", "sub", "virtual"}

Base(k) ==
  [kind |-> k,
   sender |-> IF k = "sub" THEN "I" ELSE "S",    \* sub-channel proposals come from the parent's counterparty
   cd |-> 60,                \* challenge duration
   cols |-> 2,               \* balance columns = participants
   bals |-> "ok",            \* "ok" | "negative" | "ragged" | "noassets"
   locked |-> FALSE,         \* initial allocation has locked funds
   lockedamt |-> 1,          \* ... worth 1 per asset, or worth nothing (0): a sub-allocation is there all the same
   peers |-> "SR",           \* peers list relative to (sender, receiver); ledger and virtual only
   parent |-> "known",       \* sub: "known" | "unknown"
   assets |-> "same",        \* sub / virtual, relative to the parent: "same" | "other" | "extra" | "backend"
   funds |-> "within",       \* sub / virtual: "within" | "exceed" | "exceedmapped" (virtual: exceeds the parent only after the
                             \*   index map is applied: 8 / 2 over I 9 / H 5 with H standing in for the first end point) |
                             \*   "taken" (busy only: within the parent on arrival, beyond it once the pending update is through)
   busy |-> FALSE,           \* the receiver's parent channel has an update pending (see above)
   fa |-> "equal",           \* funding agreement: "equal" | "shifted" (same sum, other distribution) | "small" (1 / 1: less than the
                             \*   balances; a sub-channel is funded from its parent, the field has no function there and the
                             \*   statement no clause about it - but it must not stand in for the balances in any check)
   parents |-> "ok",         \* virtual: "ok" | "none" | "one" | "three" | "unknown"
   imaps |-> "ok"]           \* virtual: "ok" | "one" | "three" | "entry2" | "long" | "dup0" / "dup1" (the receiver's map is not
                             \*   injective: both end points stand at index 0 / 1 of the parent - no assignment of the two end
                             \*   points to the two participants of the parent is described by it)

(* the property's clauses *)
Generic(m) == /\ m.cols >= 2
              /\ m.cd # 0
              /\ m.bals = "ok"
              /\ ~m.locked
LedgerOK(m)  == Generic(m) /\ m.cols = 2 /\ m.peers = "SR"
SubOK(m, hasParent) ==
  /\ Generic(m) /\ m.cols = 2
  /\ hasParent /\ m.parent = "known" /\ m.sender = "I"      \* known parent whose peer is the sender
  /\ m.assets = "same" /\ m.funds = "within"
VirtualOK(m, hasParent) ==
  /\ Generic(m) /\ m.cols = 2 /\ m.peers = "SR"
  /\ m.parents = "ok" /\ hasParent
  /\ m.assets = "same" /\ m.fa = "equal"
  /\ m.imaps = "ok" /\ m.funds = "within"
WellFormed(m, hasParent) ==
  CASE m.kind = "ledger"  -> LedgerOK(m)
    [] m.kind = "sub"     -> SubOK(m, hasParent)
    [] m.kind = "virtual" -> VirtualOK(m, hasParent)

Mutants(k) ==
  LET b == Base(k) IN
  { <<"none", b>> }
  \cup { <<"cd0", [b EXCEPT !.cd = 0]>> }
  \cup { <<"cols", [b EXCEPT !.cols = n]>> : n \in {1, 3} }
  \cup { <<"bals", [b EXCEPT !.bals = x]>> : x \in {"negative", "ragged", "raggedlong", "noassets"} }   \* ragged: a later row is shorter / longer than the first
  \cup { <<"locked", [b EXCEPT !.locked = TRUE]>>, <<"locked0", [b EXCEPT !.locked = TRUE, !.lockedamt = 0]>> }
  \cup (IF k \in {"ledger", "virtual"}
        THEN { <<"fa", [b EXCEPT !.fa = "shifted"]>> } ELSE {})
  \cup (IF k \in {"ledger", "virtual"}
        THEN { <<"peers", [b EXCEPT !.peers = x]>> : x \in {"RS", "SX", "XR", "S", "SRX", "ER", "SE"} } ELSE {})   \* "E": an entry without any address
  \cup (IF k = "sub"
        THEN { <<"parent", [b EXCEPT !.parent = "unknown"]>>, <<"sender", [b EXCEPT !.sender = "S"]>> } ELSE {})
  \cup (IF k \in {"sub", "virtual"}
        THEN { <<"assets", [b EXCEPT !.assets = x]>> : x \in {"other", "extra", "backend"} }
             \cup { <<"funds", [b EXCEPT !.funds = "exceed"]>> }
             \cup { <<"busy", [b EXCEPT !.busy = TRUE]>> }                          \* control: still affordable afterwards
             \cup { <<"taken", [b EXCEPT !.busy = TRUE, !.funds = "taken"]>> } ELSE {})
  \cup (IF k = "virtual" THEN { <<"funds", [b EXCEPT !.funds = "exceedmapped"]>> } ELSE {})
  \cup (IF k = "sub"
        THEN { <<"fasmall", [b EXCEPT !.fa = "small"]>> }                             \* no clause: either outcome
             \cup { <<"fundsfa", [b EXCEPT !.funds = "exceed", !.fa = "small"]>> }    \* more funds than the parent holds
        ELSE {})
  \cup (IF k = "virtual"
        THEN { <<"parents", [b EXCEPT !.parents = x]>> : x \in {"none", "one", "three", "unknown"} }
             \cup { <<"imaps", [b EXCEPT !.imaps = x]>> : x \in {"one", "three", "entry2", "long", "dup0", "dup1"} } ELSE {})

Verdict(m, hasParent) == IF ~WellFormed(m, hasParent) THEN "dropped"
                         ELSE IF m.kind = "sub" /\ m.fa # "equal" THEN "either" ELSE "handler"
(* a ledger proposal may carry a funding agreement that differs from the initial balances (same sums) *)
ASSUME WellFormed([Base("ledger") EXCEPT !.fa = "shifted"], FALSE)
ASSUME \A k \in Kinds : WellFormed(Base(k), TRUE)
ASSUME ~WellFormed(Base("sub"), FALSE) /\ ~WellFormed(Base("virtual"), FALSE)
(* every mutant except the ledger funding agreement breaks well-formedness *)
ASSUME \A k \in Kinds : \A x \in Mutants(k) :
          (x[1] \notin {"none", "busy", "fasmall"} /\ ~(k = "ledger" /\ x[1] = "fa")) => ~WellFormed(x[2], TRUE)
ASSUME \A k \in {"sub", "virtual"} : WellFormed([Base(k) EXCEPT !.busy = TRUE], TRUE)

Export ==
  \A k \in Kinds : \A hp \in BOOLEAN : \A x \in Mutants(k) :
     PrintT(ToJson([prop |-> x[2], mutant |-> x[1], hasParent |-> hp, expect |-> Verdict(x[2], hp)]))
ASSUME Export

VARIABLE dummy
Init == dummy = 0
Next == UNCHANGED dummy
Spec == Init /\ [][Next]_dummy
=============================================================================
