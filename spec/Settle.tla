------------------------------- MODULE Settle -------------------------------
(***************************************************************************)
(* Life of one ledger channel between clients A and B on the reference     *)
(* ledger: funding, payments (accepted / rejected, also with the update    *)
(* held in flight), an optional final update, settlement by either side    *)
(* first (cooperatively for a final state, else through registration and   *)
(* the challenge period), and - in adversary mode - party B registering    *)
(* ANY earlier fully signed state directly on the ledger at any point,     *)
(* while A only watches (local watcher).  (C03, C04.)                      *)
(*                                                                         *)
(* One action = one environment step of the driver followed by quiescence. *)
(* The ledger is the strict reference ledger of the harness: a register    *)
(* call needs a higher version than the registered one and must come       *)
(* before the challenge period (CD ticks) ends; each accepted registration *)
(* restarts the period; a non-final state can only be withdrawn once the   *)
(* period has passed, and only the registered state.                       *)
(***************************************************************************)
EXTENDS Integers, Sequences, FiniteSets, TLC

CONSTANTS A0, B0,     \* initial balances = funding amounts
          MaxVer,     \* highest version
          CD,         \* challenge duration in ticks
          FShift,     \* funding agreement: A funds A0 + FShift, B funds B0 - FShift (0 = the initial balances)
          Adversary,  \* TRUE: B additionally registers outdated states, A only watches
          Deposit     \* what each party owns on the ledger at the start

P == {"A", "B"}
Peer(p) == IF p = "A" THEN "B" ELSE "A"
T == A0 + B0

VARIABLES hist,     \* sequence over versions 0..: A's balance in the fully signed state of that version (index v+1)
          fin,      \* the newest state is final
          cur,      \* P -> newest version enabled at that client
          flight,   \* update in flight: [k |-> "none" | "upd" | "acc", by, a, fin]
          phase,    \* P -> "Acting" | "Final" | "Registered" | "Withdrawn"
          reg,      \* registered version on the ledger, -1 if none
          regAt,    \* time of the last accepted registration
          concl,    \* version the channel was concluded with, -1 if not concluded
          paid,     \* P -> withdrawn
          acct,     \* P -> ledger account
          now,
          nreg,     \* number of outdated registrations by the adversary
          cut       \* a payment was made whose calls' contexts ended at the moment of enabling (PayCut; at most one per
                    \* behaviour).  Nothing in the design depends on it, but everything after it is explored again
vars == <<hist, fin, cur, flight, phase, reg, regAt, concl, paid, acct, now, nreg, cut>>

NoFlight == [k |-> "none", by |-> "none", a |-> -1, fin |-> FALSE]
BalA(v) == hist[v + 1]
Bal(p, v) == IF p = "A" THEN BalA(v) ELSE T - BalA(v)
Newest == Len(hist) - 1

Init == /\ hist = <<A0>> /\ fin = FALSE
        /\ cur = [p \in P |-> 0]
        /\ flight = NoFlight
        /\ phase = [p \in P |-> "Acting"]
        /\ reg = -1 /\ regAt = 0 /\ concl = -1
        /\ paid = [p \in P |-> FALSE]
        /\ acct = [A |-> Deposit - (A0 + FShift), B |-> Deposit - (B0 - FShift)]
        /\ now = 0 /\ nreg = 0 /\ cut = FALSE

CanUpdate == /\ flight.k = "none" /\ ~fin /\ concl = -1
             /\ \A p \in P : phase[p] = "Acting"
             /\ cur["A"] = Newest /\ cur["B"] = Newest /\ Newest < MaxVer

(* a complete payment: proposal, answer and response delivered at once *)
PayBody(p, amt, accept) ==
  /\ CanUpdate /\ amt \in 1..2 /\ Bal(p, Newest) >= amt
  /\ IF accept
     THEN /\ hist' = Append(hist, IF p = "A" THEN BalA(Newest) - amt ELSE BalA(Newest) + amt)
          /\ cur' = [q \in P |-> Newest + 1]
     ELSE UNCHANGED <<hist, cur>>
  /\ UNCHANGED <<fin, flight, phase, reg, regAt, concl, paid, acct, now, nreg>>
Pay(p, amt, accept) == PayBody(p, amt, accept) /\ UNCHANGED cut

(* the same accepted payment, but the contexts the users passed to Update and to Accept end at the very moment the    *)
(* new state is enabled at the respective client (a deadline that fires, a user who gives up): the state is agreed,   *)
(* whatever the calls return                                                                                           *)
PayCut(p, amt) == ~cut /\ PayBody(p, amt, TRUE) /\ cut' = TRUE

(* a final update by p that also pays amt (0 or 1), accepted *)
Finalize(p, amt) ==
  /\ CanUpdate /\ amt \in 0..1 /\ Bal(p, Newest) >= amt
  /\ hist' = Append(hist, IF p = "A" THEN BalA(Newest) - amt ELSE BalA(Newest) + amt) /\ fin' = TRUE
  /\ cur' = [q \in P |-> Newest + 1]
  /\ phase' = [q \in P |-> "Final"]
  /\ UNCHANGED <<flight, reg, regAt, concl, paid, acct, now, nreg, cut>>

(* the same payment in three environment steps: the update stays in flight.  amt = -1: the proposer asks to    *)
(* RECEIVE one unit (a request for payment, legal without an app)                                                  *)
Propose(p, amt) ==
  /\ CanUpdate /\ amt \in {-1, 1, 2} /\ Bal(p, Newest) >= amt /\ Bal(Peer(p), Newest) >= -amt
  /\ flight' = [k |-> "upd", by |-> p, a |-> IF p = "A" THEN BalA(Newest) - amt ELSE BalA(Newest) + amt, fin |-> FALSE]
  /\ UNCHANGED <<hist, fin, cur, phase, reg, regAt, concl, paid, acct, now, nreg, cut>>
(* the responder's handler accepts: it now holds the fully signed new state; the response is in flight *)
AcceptInFlight ==
  /\ flight.k = "upd" /\ phase[Peer(flight.by)] = "Acting"
  /\ hist' = Append(hist, flight.a)
  /\ cur' = [cur EXCEPT ![Peer(flight.by)] = Newest + 1]
  /\ flight' = [flight EXCEPT !.k = "acc"]
  /\ UNCHANGED <<fin, phase, reg, regAt, concl, paid, acct, now, nreg, cut>>
(* the response reaches the proposer: it enables the state if its machine is still in the signing phase *)
DeliverAcc ==
  /\ flight.k = "acc"
  /\ cur' = IF phase[flight.by] = "Acting" THEN [cur EXCEPT ![flight.by] = Newest] ELSE cur
  /\ flight' = NoFlight
  /\ UNCHANGED <<hist, fin, phase, reg, regAt, concl, paid, acct, now, nreg, cut>>

(***************************************************************************)
(* Ledger                                                                  *)
(***************************************************************************)
RegisterOK(v) == concl = -1 /\ (reg = -1 \/ (v > reg /\ now < regAt + CD))

(* B registers the outdated version v directly; A's watcher refutes with    *)
(* the newest version enabled at A; both clients follow the events into the *)
(* Registered phase (A's machine only once no own update holds its mutex).  *)
AdvRegister(v) ==
  /\ Adversary /\ nreg < 2
  /\ v \in 0..(cur["B"] - 1)               \* an EARLIER fully signed state the adversary holds
  /\ RegisterOK(v)
  /\ nreg' = nreg + 1 /\ UNCHANGED cut
  /\ reg' = IF v < cur["A"] THEN cur["A"] ELSE v
  /\ regAt' = now
  /\ phase' = [p \in P |-> IF phase[p] \in {"Acting", "Final"} /\ ~(flight.k # "none" /\ flight.by = p) THEN "Registered" ELSE phase[p]]
  /\ UNCHANGED <<hist, fin, cur, flight, concl, paid, acct, now>>

(* the challenge period has ended: the adversary concludes the channel with the registered state and withdraws *)
AdvConclude ==
  /\ Adversary /\ reg >= 0 /\ concl = -1 /\ now >= regAt + CD /\ ~paid["B"] /\ flight.k = "none"
  /\ concl' = reg
  /\ paid' = [paid EXCEPT !["B"] = TRUE]
  /\ acct' = [acct EXCEPT !["B"] = @ + Bal("B", reg)]
  /\ UNCHANGED <<hist, fin, cur, flight, phase, reg, regAt, now, nreg, cut>>

(* B registers the outdated version v while the response to an update proposed by A is in flight, and that      *)
(* response reaches A after A's refutation was accepted by the ledger but before the ledger's event for it is     *)
(* emitted: A enables the new state, the event for its own refutation then shows a version lower than its newest  *)
(* one, and the watcher registers again.                                                                           *)
AdvRegisterEcho(v) ==
  /\ Adversary /\ nreg < 2
  /\ flight.k = "acc" /\ flight.by = "A" /\ phase["A"] = "Acting"
  /\ v \in 0..(cur["A"] - 1) /\ RegisterOK(v)
  /\ nreg' = nreg + 1 /\ UNCHANGED cut
  /\ cur' = [cur EXCEPT !["A"] = Newest]
  /\ flight' = NoFlight
  /\ reg' = Newest /\ regAt' = now
  /\ phase' = [p \in P |-> "Registered"]
  /\ UNCHANGED <<hist, fin, concl, paid, acct, now>>

Tick == /\ now < 3 * CD
        /\ now' = now + 1
        /\ UNCHANGED <<hist, fin, cur, flight, phase, reg, regAt, concl, paid, acct, nreg, cut>>

(* Channel.Settle of p returns successfully.  Final state: concluded at once. Otherwise p registers its current    *)
(* state (if nothing newer is registered), the call waits for the end of the challenge period (the driver advances *)
(* the clock), the registered state is concluded and p is paid.                                                     *)
Settle(p) ==
  /\ flight.k = "none" /\ ~paid[p] /\ phase[p] # "Withdrawn"
  /\ cur[p] = Newest \/ reg >= 0
  /\ LET final == fin /\ cur[p] = Newest /\ concl = -1 /\ (reg = -1 \/ reg <= Newest)
         needReg == ~final /\ concl = -1 /\ reg = -1
         reg1 == IF final THEN Newest ELSE IF needReg THEN cur[p] ELSE reg
         regAt1 == IF needReg THEN now ELSE regAt
         wait == IF final \/ concl # -1 THEN now ELSE IF now < regAt1 + CD THEN regAt1 + CD ELSE now
         cv == IF concl # -1 THEN concl ELSE reg1
     IN /\ (concl = -1 /\ ~final) => cur[p] = reg1          \* only the registered state can be withdrawn
        /\ reg' = reg1 /\ regAt' = regAt1 /\ now' = wait
        /\ concl' = cv
        /\ paid' = [paid EXCEPT ![p] = TRUE]
        /\ acct' = [acct EXCEPT ![p] = @ + Bal(p, cv)]
        /\ phase' = [q \in P |-> IF q = p THEN "Withdrawn" ELSE IF phase[q] \in {"Acting", "Final"} /\ ~final THEN "Registered" ELSE phase[q]]
  /\ UNCHANGED <<hist, fin, cur, flight, nreg, cut>>

Next ==
  \/ \E p \in P, amt \in 1..2, acc \in BOOLEAN : Pay(p, amt, acc)
  \/ \E p \in P, amt \in 1..1 : PayCut(p, amt)
  \/ \E p \in P, amt \in 0..1 : Finalize(p, amt)
  \/ \E p \in P, amt \in {-1, 1, 2} : Propose(p, amt)
  \/ AcceptInFlight \/ DeliverAcc
  \/ \E v \in 0..MaxVer : AdvRegister(v) \/ AdvRegisterEcho(v)
  \/ Tick \/ AdvConclude
  \/ \E p \in P : Settle(p)
Spec == Init /\ [][Next]_vars

(***************************************************************************)
(* C03 / C04 on the design                                                 *)
(***************************************************************************)
Held == T - (IF paid["A"] THEN Bal("A", concl) ELSE 0) - (IF paid["B"] THEN Bal("B", concl) ELSE 0)
Conservation == acct["A"] + acct["B"] + Held = 2 * Deposit
(* honest settlement: both paid => each got its balance in the last state both signed; nothing remains *)
HonestPayout == (~Adversary /\ paid["A"] /\ paid["B"]) =>
                  /\ concl = Newest
                  /\ \A p \in P : acct[p] = Deposit - (IF p = "A" THEN A0 + FShift ELSE B0 - FShift) + Bal(p, Newest)
                  /\ Held = 0
(* adversary: the registered version never stays below what the honest party has enabled once the period ended *)
HonestNotRobbed == (Adversary /\ paid["A"]) => concl >= cur["A"]
PayoutAtLeastNewest == (Adversary /\ paid["A"]) => acct["A"] >= Deposit - (A0 + FShift) + Bal("A", cur["A"])
=============================================================================
