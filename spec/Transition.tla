----------------------------- MODULE Transition -----------------------------
(***************************************************************************)
(* The successor rule of the channel state machine (C02), transcribed from *)
(* the documentation: doc comment of machine.ValidTransition, the doc of   *)
(* Allocation ("inner dimension must match the size of the Params.parts    *)
(* slice"), Allocation.Valid, StateMachine.validTransition (actor range,   *)
(* app rule), the payment app ("money flows only from the actor to the     *)
(* other participants") and the no-app ("allows all transitions").         *)
(*                                                                         *)
(* Two uses (DESIGN.md 3.2, function-like module):                         *)
(*  R1  a small behaviour specification - cur moves along accepted         *)
(*      candidates - checked by TLC for the consequences the property      *)
(*      names: funds conserved per asset, version +1 (no rollback), final  *)
(*      is terminal, id/app/assets never change.                           *)
(*  R2  the constant-level set Cases: for every current state of the       *)
(*      domain, every well-formed sum-preserving successor and every       *)
(*      single-condition mutant of one, with the verdict of Valid for each *)
(*      actor.  TLC evaluates it and exports it with JsonSerialize; the Go *)
(*      driver executes each case on a real channel.StateMachine.          *)
(***************************************************************************)
EXTENDS Integers, Sequences, FiniteSets, TLC, Json

CONSTANTS NP,        \* number of participants of the channel parameters
          App,       \* "none" | "pay" : the app of the channel parameters
          NAssets,   \* number of assets of the channel
          MaxAmt,    \* balances range over 0..MaxAmt
          MaxLock,   \* locked amounts range over 0..MaxLock
          MaxTotal,  \* per-asset total (balances + locked) at most MaxTotal
          MaxVer,    \* versions of current states 0..MaxVer
          Export     \* TRUE: stream the cases as JSON lines to the output

AssetIds == <<"A", "B", "C">>
Assets0 == SubSeq(AssetIds, 1, NAssets)
Actors == 0 .. NP                  \* NP itself is the out-of-range actor

SumSeq(s) == LET RECURSIVE F(_)
                 F(i) == IF i = 0 THEN 0 ELSE s[i] + F(i-1)
             IN F(Len(s))

(***************************************************************************)
(* Well-formedness of an allocation for a channel with NP participants     *)
(* (Allocation.Valid + the documented shape of Balances).  Total on        *)
(* arbitrary (ragged, empty) shapes.                                       *)
(***************************************************************************)
WF(s) ==
  /\ Len(s.assets) > 0
  /\ Len(s.bals) = Len(s.assets)
  /\ \A a \in 1..Len(s.bals) :
        /\ Len(s.bals[a]) = NP
        /\ \A j \in 1..NP : s.bals[a][j] >= 0
  /\ \A k \in 1..Len(s.locked) :
        /\ Len(s.locked[k].bals) = Len(s.assets)
        /\ \A a \in 1..Len(s.assets) : s.locked[k].bals[a] >= 0

(* per-asset total over balances and locked funds (only used on WF states) *)
Total(s, a) == SumSeq(s.bals[a]) + SumSeq([k \in 1..Len(s.locked) |-> s.locked[k].bals[a]])

PayRule(cur, c, actor) ==
  \A a \in 1..Len(cur.bals) : \A j \in 1..NP :
     IF j - 1 = actor THEN c.bals[a][j] <= cur.bals[a][j] ELSE c.bals[a][j] >= cur.bals[a][j]

(* The conditions in the order the property lists them (conjunctions are  *)
(* evaluated left to right, so the shape-dependent ones are guarded by WF).*)
Valid(cur, c, actor) ==
  /\ c.id = "own"
  /\ c.app = App
  /\ c.ver = cur.ver + 1
  /\ WF(c)
  /\ c.assets = cur.assets
  /\ \A a \in 1..Len(cur.assets) : Total(c, a) = Total(cur, a)
  /\ ~cur.fin
  /\ actor \in 0..NP-1
  /\ (App = "pay" => PayRule(cur, c, actor))

(* the first condition that fails (diagnostics only) *)
Why(cur, c, actor) ==
  IF c.id # "own" THEN "id"
  ELSE IF c.app # App THEN "app"
  ELSE IF c.ver # cur.ver + 1 THEN "version"
  ELSE IF ~WF(c) THEN "wellformed"
  ELSE IF c.assets # cur.assets THEN "assets"
  ELSE IF \E a \in 1..Len(cur.assets) : Total(c, a) # Total(cur, a) THEN "sum"
  ELSE IF cur.fin THEN "final"
  ELSE IF actor \notin 0..NP-1 THEN "actor"
  ELSE IF App = "pay" /\ ~PayRule(cur, c, actor) THEN "apprule"
  ELSE "ok"

(***************************************************************************)
(* Domain                                                                  *)
(***************************************************************************)
Rows == [1..NP -> 0..MaxAmt]
LockedChoices == {<<>>} \cup { <<[id |-> "s1", bals |-> lb]>> : lb \in [1..NAssets -> 0..MaxLock] }
Allocs == { [bals |-> b, locked |-> l] : b \in [1..NAssets -> Rows], l \in LockedChoices }
St(al, v, f) == [id |-> "own", app |-> App, ver |-> v, fin |-> f, assets |-> Assets0,
                 bals |-> al.bals, locked |-> al.locked]
Bounded(s) == \A a \in 1..NAssets : Total(s, a) <= MaxTotal /\ Total(s, a) >= 1
(* current states reachable by accepted updates: version 0 is never final  *)
CurStates == { s \in { St(al, v, f) : al \in Allocs, v \in 0..MaxVer, f \in BOOLEAN } :
                  Bounded(s) /\ ~(s.ver = 0 /\ s.fin) }

(* all well-formed, asset- and sum-preserving candidates with the next     *)
(* version: exactly the accepted ones for the no-app                       *)
WFSucc(cur) == { c \in { St(al, cur.ver + 1, f) : al \in Allocs, f \in BOOLEAN } :
                    \A a \in 1..NAssets : Total(c, a) = Total(cur, a) }

SetAt(seq, i, v) == [seq EXCEPT ![i] = v]
Drop(seq) == SubSeq(seq, 1, Len(seq) - 1)
OtherApps == IF App = "none" THEN {"pay"} ELSE {"none", "pay2"}

(* single-condition mutants of a well-formed successor v: <<name, state>>  *)
Mutants(v) ==
  { <<"id", [v EXCEPT !.id = "other"]>> }
  \cup { <<"app", [v EXCEPT !.app = x]>> : x \in OtherApps }
  \cup { <<"ver", [v EXCEPT !.ver = w]>> : w \in {v.ver - 1, v.ver + 1, 0, v.ver + 7} \ {v.ver} }
  \cup { <<"asset_replaced", [v EXCEPT !.assets = SetAt(v.assets, a, "X")]>> : a \in 1..NAssets }
  \cup { <<"asset_added", [v EXCEPT !.assets = Append(v.assets, "X"),
                                    !.bals = Append(v.bals, [j \in 1..NP |-> 0]),
                                    !.locked = [k \in 1..Len(v.locked) |-> [v.locked[k] EXCEPT !.bals = Append(@, 0)]]]>> }
  \cup (IF NAssets > 1
        THEN { <<"asset_removed", [v EXCEPT !.assets = Drop(v.assets), !.bals = Drop(v.bals),
                                      !.locked = [k \in 1..Len(v.locked) |-> [v.locked[k] EXCEPT !.bals = Drop(@)]]]>>,
               <<"assets_swapped", [v EXCEPT !.assets = SetAt(SetAt(v.assets, 1, v.assets[2]), 2, v.assets[1])]>> }
        ELSE {})
  \cup { <<"bal_plus", [v EXCEPT !.bals[a][j] = @ + 1]>> : a \in 1..NAssets, j \in 1..NP }
  \cup { <<"bal_minus", [v EXCEPT !.bals[a][j] = @ - 1]>> : a \in 1..NAssets, j \in 1..NP }
  \* two participants get two units each: with amounts written in units of 2^62 (second pass of the driver) the total
  \* grows by exactly 2^64 while every single balance may still fit a machine word
  \cup { <<"bal_plus22", [v EXCEPT !.bals[a][1] = @ + 2, !.bals[a][2] = @ + 2]>> : a \in 1..NAssets }
  \cup { <<"negative", [v EXCEPT !.bals[a] = [j \in 1..NP |-> IF j = 1 THEN -1 ELSE IF j = 2 THEN v.bals[a][1] + v.bals[a][2] + 1 ELSE v.bals[a][j]]]>> :
            a \in 1..NAssets }
  \cup { <<"cols_minus", [v EXCEPT !.bals = [a \in 1..NAssets |->
                                      [j \in 1..NP-1 |-> IF j = 1 THEN v.bals[a][1] + v.bals[a][NP] ELSE v.bals[a][j]]]]>> }
  \cup { <<"cols_plus_zero", [v EXCEPT !.bals = [a \in 1..NAssets |-> Append(v.bals[a], 0)]]>> }
  \cup { <<"cols_plus_moved", [v EXCEPT !.bals = [a \in 1..NAssets |-> Append(SetAt(v.bals[a], 1, 0), v.bals[a][1])]]>> }
  \cup { <<"ragged", [v EXCEPT !.bals[a] = Append(@, 0)]>> : a \in 1..NAssets }
  \cup { <<"rows_minus", [v EXCEPT !.bals = Drop(@)]>> }
  \cup { <<"rows_plus", [v EXCEPT !.bals = Append(@, [j \in 1..NP |-> 0])]>> }
  \cup { <<"empty", [v EXCEPT !.assets = <<>>, !.bals = <<>>, !.locked = <<>>]>> }
  \cup { <<"locked_long", [v EXCEPT !.locked[k].bals = Append(@, 0)]>> : k \in 1..Len(v.locked) }
  \cup { <<"locked_short", [v EXCEPT !.locked[k].bals = Drop(@)]>> : k \in 1..Len(v.locked) }
  \cup { <<"locked_negative", [v EXCEPT !.locked[k].bals[a] = -1, !.bals[a][1] = @ + v.locked[k].bals[a] + 1]>> :
            k \in 1..Len(v.locked), a \in 1..NAssets }
  \cup { <<"locked_added", [v EXCEPT !.locked = Append(@, [id |-> "s2", bals |-> [a \in 1..NAssets |-> 1]])]>> }
  \cup { <<"locked_removed", [v EXCEPT !.locked = Drop(@)]>> : k \in 1..Len(v.locked) }
  \* the same sub-channel listed once more (nothing forbids two entries with one id; both count for the total)
  \cup { <<"locked_dup", [v EXCEPT !.locked = Append(@, @[k])]>> : k \in 1..Len(v.locked) }

Verdicts(cur, c) == [a \in 1..NP+1 |-> Valid(cur, c, a - 1)]
Whys(cur, c) == [a \in 1..NP+1 |-> Why(cur, c, a - 1)]

Case(cur, c, name) == [cur |-> cur, cand |-> c, mutant |-> name, expect |-> Verdicts(cur, c), why |-> Whys(cur, c)]

(* The cases are streamed to TLC's output, one JSON object per line        *)
(* (PrintT of ToJson): building the union of all cases as one TLA+ set     *)
(* costs minutes of set normalisation, streaming them costs seconds.  A    *)
(* mutant may coincide with a well-formed successor or with another        *)
(* mutant; duplicates are harmless.                                        *)
Emit(cur, c, name) == PrintT(ToJson(Case(cur, c, name)))

(* Init(initBals, initData): accepted iff the allocation is well-formed    *)
(* with one balance per participant; the staged state then has version 0,  *)
(* the channel's id and exactly that allocation.  Candidates: every        *)
(* allocation of the domain and its shape/sign mutants.                    *)
InitSt(al) == St(al, 0, FALSE)
ShapeMutants == {"negative", "cols_minus", "cols_plus_zero", "cols_plus_moved", "ragged", "rows_minus", "rows_plus",
                 "empty", "locked_long", "locked_short", "locked_negative", "asset_added"}
InitCase(c, name) == [init |-> TRUE, cand |-> c, mutant |-> name, expect |-> WF(c)]
ExportInit ==
  \A al \in Allocs :
     /\ PrintT(ToJson(InitCase(InitSt(al), "none")))
     /\ \A m \in Mutants(InitSt(al)) : m[1] \in ShapeMutants => PrintT(ToJson(InitCase(m[2], m[1])))

ExportCases ==
  /\ ExportInit
  /\ \A cur \in CurStates :
       /\ \A c \in WFSucc(cur) : Emit(cur, c, "none")
       /\ \A v \in WFSucc(cur) : \A m \in Mutants(v) : Emit(cur, m[2], m[1])

(***************************************************************************)
(* Model-side sanity (evaluated by TLC before anything is exported):       *)
(*  - for the no-app, every well-formed successor is accepted by in-range  *)
(*    actors and refused for the out-of-range actor and after final;       *)
(*  - every mutant of a valid successor that is accepted is itself a       *)
(*    member of WFSucc (a mutation may land on another valid successor),   *)
(*    i.e. Valid accepts nothing outside the well-formed, conserving set.  *)
(***************************************************************************)
ASSUME \A cur \in CurStates : \A c \in WFSucc(cur) :
          /\ ~Valid(cur, c, NP)
          /\ (App = "none" => \A a \in 0..NP-1 : Valid(cur, c, a) = ~cur.fin)
ASSUME \A cur \in CurStates : \A v \in WFSucc(cur) : \A m \in Mutants(v) :
          (\E a \in Actors : Valid(cur, m[2], a)) => (m[2] \in WFSucc(cur) \/ m[1] = "locked_dup")   \* a second entry worth nothing is valid

ASSUME Export = FALSE \/ ExportCases

(***************************************************************************)
(* R1: the rule as a behaviour specification.                              *)
(***************************************************************************)
VARIABLES cur, total0
vars == <<cur, total0>>

TInit == /\ cur \in { s \in CurStates : s.ver = 0 /\ ~s.fin }
         /\ total0 = [a \in 1..NAssets |-> Total(cur, a)]
Accept(c, actor) == Valid(cur, c, actor) /\ cur' = c /\ UNCHANGED total0
TNext == \E c \in { St(al, cur.ver + 1, f) : al \in Allocs, f \in BOOLEAN }, actor \in Actors : Accept(c, actor)
TSpec == TInit /\ [][TNext]_vars

Conservation == \A a \in 1..NAssets : Total(cur, a) = total0[a]
WellFormed == WF(cur) /\ cur.id = "own" /\ cur.app = App /\ cur.assets = Assets0
NoRollback == [][cur'.ver = cur.ver + 1 /\ ~cur.fin]_vars
VerBound == cur.ver <= MaxVer + 1
=============================================================================
