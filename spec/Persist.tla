------------------------------ MODULE Persist ------------------------------
(***************************************************************************)
(* persistence.StateMachine over keyvalue.PersistRestorer (C10).           *)
(*                                                                         *)
(* Every wrapper call is the machine step of Machine.tla ("mutation        *)
(* first") followed by the persister call it makes ("persist second").  A  *)
(* persister call is a sequence of store WRITE UNITS - one batch Apply or  *)
(* one single Put - which are the points at which the process may stop:    *)
(*                                                                         *)
(*   Init, Update, ForceUpdate, DiscardUpdate, SetProgressing -> Staged    *)
(*        one batch {staging:state, phase, all staging:sig:*}              *)
(*   Sig, AddSig(i)                                   -> SigAdded(i)       *)
(*        one batch {staging:sig:i}                                        *)
(*   EnableInit/Update/Final, SetProgressed           -> Enabled           *)
(*        one batch {staging:state, current, phase, all staging:sig:*}     *)
(*   SetFunded, SetRegistering, SetRegistered, SetWithdrawing              *)
(*                                                    -> PhaseChanged      *)
(*        one put {phase}                                                  *)
(*   SetWithdrawn                                     -> ChannelRemoved    *)
(*        batch {delete all channel keys}, batch {delete peer index}       *)
(*   a refused call persists nothing.                                      *)
(*                                                                         *)
(* `store` is the channel's part of the key-value store, `pend` the write  *)
(* units of the call in progress, `before` the machine state before the    *)
(* call.  CrashRestore stops the process at any point and continues with a *)
(* machine restored from the store (RestoreChannel + RestoreStateMachine). *)
(***************************************************************************)
EXTENDS Machine, Sequences

VARIABLES store, pend, before, removed
pvars == <<vars, store, pend, before, removed>>

Core == [phase |-> phase, staging |-> staging, current |-> current]
CoreOf(s) == [phase |-> s.phase, staging |-> [st |-> s.stgst, sigs |-> s.sigs], current |-> s.cur]
Absent == [phase |-> "absent", staging |-> NoTx, current |-> NoTx]
View(s) == IF s.exists THEN CoreOf(s) ELSE Absent

(* the store right after ChannelCreated for a fresh machine *)
Store0 == [exists |-> TRUE, phase |-> "InitActing", stgst |-> NoSt, sigs |-> EmptySigs, cur |-> NoTx,
           peeridx |-> TRUE, adopted |-> FALSE]

PInit == Init /\ store = Store0 /\ pend = <<>> /\ before = Core /\ removed = FALSE

(* a write unit: <<kind, source snapshot (machine state after the mutation), argument>> *)
Unit(kind, arg) == <<kind, [phase |-> phase', staging |-> staging', current |-> current', adopted |-> adopted'], arg>>

Apply(s, u) ==
  LET src == u[2] IN
  CASE u[1] = "Staged"  -> [s EXCEPT !.stgst = src.staging.st, !.phase = src.phase, !.sigs = src.staging.sigs]
    [] u[1] = "SigAdded" -> [s EXCEPT !.sigs[u[3]] = src.staging.sigs[u[3]]]
    [] u[1] = "Enabled"  -> [s EXCEPT !.stgst = src.staging.st, !.cur = src.current, !.phase = src.phase,
                                     !.sigs = src.staging.sigs, !.adopted = src.adopted]
    [] u[1] = "PhaseChanged" -> [s EXCEPT !.phase = src.phase]
    [] u[1] = "RemovedChannel" -> [s EXCEPT !.exists = FALSE, !.phase = "absent", !.stgst = NoSt, !.sigs = EmptySigs, !.cur = NoTx]
    [] u[1] = "RemovedPeers" -> [s EXCEPT !.peeridx = FALSE]

(* wrapper call = machine action + the persister call's units *)
Call(A, units) == /\ pend = <<>> /\ ~removed
                  /\ A
                  /\ before' = Core
                  /\ pend' = units
                  /\ UNCHANGED <<store, removed>>

PInitOk(k)           == Call(InitOk(k), << Unit("Staged", 0) >>)
PUpdateOk(c, a)      == Call(UpdateOk(c, a), << Unit("Staged", 0) >>)
PForceUpdateOk(c)    == Call(ForceUpdateOk(c), << Unit("Staged", 0) >>)
PDiscardUpdateOk     == Call(DiscardUpdateOk, << Unit("Staged", 0) >>)
PSetProgressingOk(c) == Call(SetProgressingOk(c), << Unit("Staged", 0) >>)
PSigOk               == Call(SigOk, << Unit("SigAdded", Me) >>)
PAddSigOk(i, j, rel) == Call(AddSigOk(i, j, rel), << Unit("SigAdded", i) >>)
PEnableInitOk        == Call(EnableInitOk, << Unit("Enabled", 0) >>)
PEnableUpdateOk      == Call(EnableUpdateOk, << Unit("Enabled", 0) >>)
PEnableFinalOk       == Call(EnableFinalOk, << Unit("Enabled", 0) >>)
PSetProgressedOk(c)  == Call(SetProgressedOk(c), << Unit("Enabled", 0) >>)
PSetFundedOk         == Call(SetFundedOk, << Unit("PhaseChanged", 0) >>)
PSetRegisteringOk    == Call(SetRegisteringOk, << Unit("PhaseChanged", 0) >>)
PSetRegisteredOk     == Call(SetRegisteredOk, << Unit("PhaseChanged", 0) >>)
PSetWithdrawingOk    == Call(SetWithdrawingOk, << Unit("PhaseChanged", 0) >>)
PSetWithdrawnOk      == /\ pend = <<>> /\ ~removed
                        /\ SetWithdrawnOk
                        /\ before' = Core
                        /\ pend' = << Unit("RemovedChannel", 0), Unit("RemovedPeers", 0) >>
                        /\ removed' = TRUE
                        /\ UNCHANGED store

(* one store write unit reaches the store *)
Write == /\ pend # <<>>
         /\ store' = Apply(store, Head(pend))
         /\ pend' = Tail(pend)
         /\ UNCHANGED <<vars, before, removed>>

(* the process stops (before or after any write unit) and is restarted from the store *)
CrashRestore == /\ store.exists
                /\ phase' = store.phase
                /\ staging' = [st |-> store.stgst, sigs |-> store.sigs]
                /\ current' = store.cur
                /\ adopted' = store.adopted
                /\ pend' = <<>>
                /\ before' = CoreOf(store)
                /\ removed' = FALSE
                /\ UNCHANGED store

PNext ==
  \/ \E k \in InitKinds : PInitOk(k)
  \/ \E c \in Cand, a \in {0} : PUpdateOk(c, a)
  \/ \E c \in Cand : PForceUpdateOk(c)
  \/ PSigOk
  \/ \E i \in Part, j \in Part, rel \in {"staging"} : PAddSigOk(i, j, rel)
  \/ PEnableInitOk \/ PEnableUpdateOk \/ PEnableFinalOk
  \/ PDiscardUpdateOk
  \/ PSetFundedOk \/ PSetRegisteringOk \/ PSetRegisteredOk \/ PSetWithdrawingOk \/ PSetWithdrawnOk
  \/ \E c \in Plain : PSetProgressingOk(c)
  \/ \E c \in Plain : PSetProgressedOk(c)
  \/ Write
  \/ CrashRestore

PSpec == PInit /\ [][PNext]_pvars

(***************************************************************************)
(* C10: what a restore would yield is the machine state before or after    *)
(* the interrupted call, and exactly the latter once the call completed.   *)
(***************************************************************************)
Live == IF removed THEN Absent ELSE Core
CrashConsistent ==
  IF pend = <<>> THEN View(store) = Live
  ELSE View(store) \in {before, Live}
(* no signature of an earlier staged state is ever restored with a later one *)
RestoredSigsSound ==
  store.exists => \A i \in Part : store.sigs[i] \in {NoSig, ValidSig(i, store.stgst)}
(* the C01 invariants also hold for machines continued after a restore *)
PCurrentSigned == CurrentSigned
PStagingSigsSound == StagingSigsSound
=============================================================================
