---------------------------- MODULE MachineProof ----------------------------
(***************************************************************************)
(* C01 at the level of the specification, for EVERY number of participants *)
(* and EVERY version bound (TLC checks Machine.tla for N = 2, MaxVer <= 3): *)
(* the conjunction of StagingSigsSound and CurrentSigned is an inductive   *)
(* invariant of Machine!Spec.  Checked by tlapm (TLAPS).                   *)
(***************************************************************************)
EXTENDS Machine, TLAPS

ASSUME ConstAssump == N \in Nat /\ N >= 1 /\ Me \in Part /\ MaxVer \in Nat /\ WithNarrow \in BOOLEAN

IsTx(t) == /\ t = [st |-> t.st, sigs |-> t.sigs]
           /\ t.sigs = [i \in Part |-> t.sigs[i]]

IndInv == /\ IsTx(staging)
          /\ IsTx(current)
          /\ StagingSigsSound
          /\ CurrentSigned

LEMMA InitInv == Init => IndInv
  BY DEF Init, IndInv, IsTx, NoTx, EmptySigs, StagingSigsSound, CurrentSigned, NoSig

LEMMA StageInv == ASSUME IndInv, NEW ph, NEW c, Stage(ph, c) PROVE IndInv'
  BY DEF IndInv, IsTx, Stage, Tx, EmptySigs, StagingSigsSound, CurrentSigned

LEMMA GotoInv == ASSUME IndInv, NEW ph, Goto(ph) PROVE IndInv'
  BY DEF IndInv, IsTx, Goto, StagingSigsSound, CurrentSigned

LEMMA SameInv == ASSUME IndInv, Same PROVE IndInv'
  BY DEF IndInv, IsTx, Same, vars, StagingSigsSound, CurrentSigned

LEMMA PromoteInv == ASSUME IndInv, NEW from, NEW to, EnableG(from, to), Promote(to) PROVE IndInv'
  <1>1. \A i \in Part : staging.sigs[i] = ValidSig(i, staging.st)
    BY DEF IndInv, EnableG, StagingSigsSound
  <1>2. current' = staging /\ staging' = NoTx /\ adopted' = FALSE
    BY DEF Promote
  <1> QED BY <1>1, <1>2 DEF IndInv, IsTx, NoTx, EmptySigs, StagingSigsSound, CurrentSigned, NoSig

LEMMA SigInv == ASSUME IndInv, SigOk PROVE IndInv'
  <1>1. staging' = [staging EXCEPT !.sigs[Me] = ValidSig(Me, staging.st)] /\ UNCHANGED <<phase, current, adopted>>
    BY DEF SigOk
  <1>2. staging' = [st |-> staging.st, sigs |-> [staging.sigs EXCEPT ![Me] = ValidSig(Me, staging.st)]]
    BY <1>1 DEF IndInv, IsTx
  <1>3. staging'.st = staging.st /\ IsTx(staging')
        /\ \A i \in Part : staging'.sigs[i] = IF i = Me THEN ValidSig(Me, staging.st) ELSE staging.sigs[i]
    BY <1>2, ConstAssump DEF IndInv, IsTx
  <1> QED BY <1>1, <1>3 DEF IndInv, StagingSigsSound, CurrentSigned

LEMMA AddSigInv == ASSUME IndInv, NEW i \in Part, NEW j, NEW rel, AddSigOk(i, j, rel) PROVE IndInv'
  <1>1. /\ SigOf(j, rel) = ValidSig(i, staging.st)
        /\ staging' = [staging EXCEPT !.sigs[i] = SigOf(j, rel)] /\ UNCHANGED <<phase, current, adopted>>
    BY DEF AddSigOk, AddSigG
  <1>2. staging' = [st |-> staging.st, sigs |-> [staging.sigs EXCEPT ![i] = ValidSig(i, staging.st)]]
    BY <1>1 DEF IndInv, IsTx
  <1>3. staging'.st = staging.st /\ IsTx(staging')
        /\ \A k \in Part : staging'.sigs[k] = IF k = i THEN ValidSig(i, staging.st) ELSE staging.sigs[k]
    BY <1>2 DEF IndInv, IsTx
  <1> QED BY <1>1, <1>3 DEF IndInv, StagingSigsSound, CurrentSigned

LEMMA ProgressedInv == ASSUME IndInv, NEW c, SetProgressedOk(c) PROVE IndInv'
  BY DEF IndInv, IsTx, SetProgressedOk, Tx, NoTx, EmptySigs, StagingSigsSound, CurrentSigned

LEMMA DiscardInv == ASSUME IndInv, DiscardUpdateOk PROVE IndInv'
  BY DEF IndInv, IsTx, DiscardUpdateOk, NoTx, EmptySigs, StagingSigsSound, CurrentSigned

LEMMA NextInv == IndInv /\ [Next]_vars => IndInv'
  <1> SUFFICES ASSUME IndInv, [Next]_vars PROVE IndInv' OBVIOUS
  <1>0. CASE UNCHANGED vars BY <1>0, SameInv DEF Same
  <1>1. CASE \E k \in InitKinds : InitOk(k) \/ InitErr(k)
    BY <1>1, StageInv, SameInv DEF InitOk, InitErr
  <1>2. CASE \E c \in Cand, a \in {0, N-1, N} : UpdateOk(c, a) \/ UpdateErr(c, a)
    BY <1>2, StageInv, SameInv DEF UpdateOk, UpdateErr
  <1>3. CASE \E c \in Cand : ForceUpdateOk(c)
    BY <1>3, StageInv DEF ForceUpdateOk
  <1>4. CASE \E c \in Cand, a \in {0, N}, k \in SigKinds, i \in Part : CheckUpdateOk(c, a, k, i) \/ CheckUpdateErr(c, a, k, i)
    BY <1>4, SameInv DEF CheckUpdateOk, CheckUpdateErr
  <1>5. CASE SigOk \/ SigErr
    BY <1>5, SigInv, SameInv DEF SigErr
  <1>6. CASE \E i \in Part, j \in Part \cup NonSigs, rel \in Rels : AddSigOk(i, j, rel) \/ AddSigErr(i, j, rel)
    BY <1>6, AddSigInv, SameInv DEF AddSigErr
  <1>7. CASE EnableInitOk \/ EnableInitErr
    BY <1>7, PromoteInv, SameInv DEF EnableInitOk, EnableInitErr
  <1>8. CASE EnableUpdateOk \/ EnableUpdateErr
    BY <1>8, PromoteInv, SameInv DEF EnableUpdateOk, EnableUpdateErr
  <1>9. CASE EnableFinalOk \/ EnableFinalErr
    BY <1>9, PromoteInv, SameInv DEF EnableFinalOk, EnableFinalErr
  <1>10. CASE DiscardUpdateOk \/ DiscardUpdateErr
    BY <1>10, DiscardInv, SameInv DEF DiscardUpdateErr
  <1>11. CASE SetFundedOk \/ SetFundedErr
    BY <1>11, GotoInv, SameInv DEF SetFundedOk, SetFundedErr
  <1>12. CASE SetRegisteringOk \/ SetRegisteringErr
    BY <1>12, GotoInv, SameInv DEF SetRegisteringOk, SetRegisteringErr
  <1>13. CASE SetRegisteredOk \/ SetRegisteredErr
    BY <1>13, GotoInv, SameInv DEF SetRegisteredOk, SetRegisteredErr
  <1>14. CASE SetWithdrawingOk \/ SetWithdrawingErr
    BY <1>14, GotoInv, SameInv DEF SetWithdrawingOk, SetWithdrawingErr
  <1>15. CASE SetWithdrawnOk \/ SetWithdrawnErr
    BY <1>15, GotoInv, SameInv DEF SetWithdrawnOk, SetWithdrawnErr
  <1>16. CASE \E c \in Plain : SetProgressingOk(c) \/ SetProgressingErr(c)
    BY <1>16, StageInv, SameInv DEF SetProgressingOk, SetProgressingErr
  <1>17. CASE \E c \in Plain : SetProgressedOk(c)
    BY <1>17, ProgressedInv
  <1> QED BY <1>0, <1>1, <1>2, <1>3, <1>4, <1>5, <1>6, <1>7, <1>8, <1>9, <1>10, <1>11, <1>12, <1>13, <1>14, <1>15, <1>16, <1>17 DEF Next

THEOREM Safety == Spec => [](CurrentSigned /\ StagingSigsSound)
  <1>1. IndInv => CurrentSigned /\ StagingSigsSound BY DEF IndInv
  <1> QED BY InitInv, NextInv, <1>1, PTL DEF Spec
=============================================================================
