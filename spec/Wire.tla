-------------------------------- MODULE Wire --------------------------------
(***************************************************************************)
(* The native wire format of go-perun (DESIGN.md Appendix A) as a grammar  *)
(* over typed TOKENS, and the consequences properties C13..C17 draw from   *)
(* it.  Function-like module (DESIGN.md 3.2): everything is a constant-    *)
(* level definition over small bounded abstract value domains; TLC         *)
(* evaluates the model-side theorems in ASSUMEs and streams the cases as   *)
(* JSON lines (PrintT(ToJson(..))) which the Go driver harness/wiredrv     *)
(* executes on the real code.                                              *)
(*                                                                         *)
(*   Enc(v)      token sequence of every wire value / message / envelope   *)
(*   theorems    Enc injective (C15), prefix-free and with a deterministic *)
(*               token grammar = self-delimiting (C14), channel-id         *)
(*               pre-image injective in every listed field (C17), a        *)
(*               full-read token reader is independent of the chunking of  *)
(*               the byte stream (C16, small behaviour spec at the end)    *)
(*   cases       enc (C14), mut (C13), pair (C15), id (C17), chunk (C16)   *)
(*                                                                         *)
(* A token is [k, n, s, l, r]: kind, numeric value, symbolic value, byte   *)
(* length of the payload, role (what the decoder uses it for; drives the   *)
(* structured mutants).  Symbols (W1 = a wallet address, N1 = a wire       *)
(* address, A1 = an asset, I1 = a 32-byte id, G1 = a signature, ...) are   *)
(* concretised to bytes by the driver.                                     *)
(***************************************************************************)
EXTENDS Integers, Sequences, FiniteSets, TLC, Json

CONSTANTS Mode,   \* "enc" | "mut" | "pair" | "id" | "chunk" | "none": which cases are exported
          Deep    \* FALSE: quick shapes, TRUE: thorough shapes

MaxInt32 == 2147483647
MinInt32 == -2147483647 - 1
Limit == 1024                \* MaxNumAssets = MaxNumParts = MaxNumSubAllocations
MaxBig == 128                \* MaxBigIntLength

(***************************************************************************)
(* Tokens                                                                  *)
(***************************************************************************)
Tk(k, n, s, l, r) == <<[k |-> k, n |-> n, s |-> s, l |-> l, r |-> r]>>
U8(n, r)   == Tk("u8", n, "", 1, r)
U16(n, r)  == Tk("u16", n, "", 2, r)
U32(n, r)  == Tk("u32", n, "", 4, r)
U32BE(n, r) == Tk("u32be", n, "", 4, r)
U64(n, r)  == Tk("u64", n, "", 8, r)
I32(n, r)  == Tk("i32", n, "", 4, r)
I64(n, r)  == Tk("i64", n, "", 8, r)
Bool(b, r) == Tk("bool", IF b THEN 1 ELSE 0, "", 1, r)
B32(s)     == Tk("b32", 0, s, 32, "val")
B256(s)    == Tk("b256", 0, s, 256, "val")
(* amounts -1 and -2 stand for the two extreme integers of the maximal length of 128 bytes, 2^1024 - 1 and 2^1016 (TLC's *)
(* integers have 32 bits)                                                                                             *)
BigLen(n)  == IF n < 0 THEN 128 ELSE IF n = 0 THEN 0 ELSE IF n < 256 THEN 1 ELSE IF n < 65536 THEN 2 ELSE IF n < 16777216 THEN 3 ELSE 4
Big(n)     == Tk("big", n, "", BigLen(n), "big")
Blob(s, l, r) == Tk("blob16", 0, s, l, r)
StrLen(s)  == CASE s = "" -> 0 [] s = "no" -> 2 [] s = "not with these funds" -> 20 [] OTHER -> Len(s)
Str(s)     == Tk("str16", 0, s, StrLen(s), "str")
SigT(s)    == Tk("sig", 0, s, 64, "sig")
Raw(s, l, r) == Tk("raw", 0, s, l, r)
Mask(n, l) == Tk("mask", n, "", l, "mask")

WAddr(s)  == Blob(s, 64, "waddr")
NAddr(s)  == Blob(s, 32, "naddr")
AssetT(s) == Blob(s, 8, "asset")
AppDef(s) == Blob(s, 64, "appdef")
DataT(s)  == Blob(s, IF s = "D0" THEN 0 ELSE 8, "data")

(* bytes a token occupies on the wire *)
Size(t) == CASE t.k \in {"big"} -> 1 + t.l
             [] t.k \in {"blob16", "str16"} -> 2 + t.l
             [] OTHER -> t.l

(* divide and conquer keeps the recursion depth logarithmic *)
RECURSIVE FlatR(_, _, _)
FlatR(ss, lo, hi) == IF lo > hi THEN <<>> ELSE IF lo = hi THEN ss[lo]
                     ELSE LET mid == (lo + hi) \div 2 IN FlatR(ss, lo, mid) \o FlatR(ss, mid + 1, hi)
Flat(ss) == FlatR(ss, 1, Len(ss))
RECURSIVE SumR(_, _, _)
SumR(s, lo, hi) == IF lo > hi THEN 0 ELSE IF lo = hi THEN s[lo]
                   ELSE LET mid == (lo + hi) \div 2 IN SumR(s, lo, mid) + SumR(s, mid + 1, hi)
Sum(s) == SumR(s, 1, Len(s))
ByteLen(toks) == Sum([i \in 1..Len(toks) |-> Size(toks[i])])
Map(f(_), s) == [i \in 1..Len(s) |-> f(s[i])]
RECURSIVE SetToSeq(_)
SetToSeq(S) == IF S = {} THEN <<>> ELSE LET x == CHOOSE y \in S : TRUE IN <<x>> \o SetToSeq(S \ {x})

(***************************************************************************)
(* The grammar (Appendix A).  Address maps are sequences of [b, a] entries *)
(* (backend id, address symbol); Go iterates maps in random order, so for  *)
(* maps with more than one entry every entry order is an encoding of the   *)
(* value (EncAlts below); Enc uses the order of the sequence.              *)
(***************************************************************************)
EncWMap(m) == I32(Len(m), "maplen") \o Flat([i \in 1..Len(m) |-> I32(m[i].b, "wbid") \o WAddr(m[i].a)])
EncNMap(m) == I32(Len(m), "maplen") \o Flat([i \in 1..Len(m) |-> I32(m[i].b, "nbid") \o NAddr(m[i].a)])
EncWArr(a) == I32(Len(a), "arrlenW") \o Flat([i \in 1..Len(a) |-> EncWMap(a[i])])
EncNArr(a) == I32(Len(a), "arrlenN") \o Flat([i \in 1..Len(a) |-> EncNMap(a[i])])

EncOptApp(app) == IF app = "none" THEN Bool(FALSE, "opt") ELSE Bool(TRUE, "opt") \o AppDef(app)
EncOptAppData(app, data) == EncOptApp(app) \o DataT(data)

EncBals(b) == U16(Len(b), "cnt1024") \o U16(IF Len(b) = 0 THEN 0 ELSE Len(b[1]), "cnt1024")
              \o Flat([i \in 1..Len(b) |-> Flat([j \in 1..Len(b[i]) |-> Big(b[i][j])])])
EncIdxMap(im) == U16(Len(im), "cntidx") \o Flat([i \in 1..Len(im) |-> U16(im[i], "idx")])
EncSub(s) == B32(s.id) \o U16(Len(s.bals), "cnt1024") \o Flat([i \in 1..Len(s.bals) |-> Big(s.bals[i])]) \o EncIdxMap(s.im)
(* hp: the participant count written into the allocation header *)
EncAllocH(a, hp) == U16(Len(a.assets), "cnt1024") \o U16(hp, "cnt1024") \o U16(Len(a.locked), "cnt1024")
              \o Flat([i \in 1..Len(a.assets) |-> U32(a.assets[i].b, "abid") \o AssetT(a.assets[i].a)])
              \o EncBals(a.bals)
              \o Flat([i \in 1..Len(a.locked) |-> EncSub(a.locked[i])])
EncAlloc(a) == EncAllocH(a, IF Len(a.bals) = 0 THEN 0 ELSE Len(a.bals[1]))
EncState(s) == B32(s.id) \o U64(s.ver, "val") \o EncAlloc(s.alloc) \o Bool(s.fin, "flag") \o EncOptAppData(s.app, s.data)
EncParams(p) == U64(p.cd, "val") \o EncWArr(p.parts) \o EncOptApp(p.app) \o Big(p.nonce)
                \o Bool(p.ledger, "flag") \o Bool(p.virt, "flag") \o B256(p.aux)

(* sparse signatures: "" = absent *)
RECURSIVE MaskVal(_, _)
MaskVal(sigs, i) == IF i > Len(sigs) THEN 0 ELSE (IF sigs[i] = "" THEN 0 ELSE 2 ^ (i - 1)) + MaskVal(sigs, i + 1)
EncSigs(sigs) == (IF Len(sigs) = 0 THEN <<>> ELSE Mask(MaskVal(sigs, 1), (Len(sigs) + 7) \div 8))
                 \o Flat([i \in 1..Len(sigs) |-> IF sigs[i] = "" THEN <<>> ELSE SigT(sigs[i])])
EncTx(t) == IF t.set = 0 THEN U8(0, "set") ELSE U8(1, "set") \o EncState(t.st) \o EncSigs(t.sigs)

EncBase(b) == B32(b.pid) \o U64(b.cd, "val") \o B32(b.ns) \o EncOptAppData(b.app, b.data)
              \o EncAlloc(b.init) \o EncBals(b.fa) \o B256(b.aux)
EncUpd(u) == EncState(u.st) \o U16(u.actor, "val") \o SigT(u.sig)

TypeNo(t) == CASE t = "Ping" -> 0 [] t = "Pong" -> 1 [] t = "Shutdown" -> 2 [] t = "AuthResponse" -> 3
               [] t = "LCP" -> 4 [] t = "LCPAcc" -> 5 [] t = "SCP" -> 6 [] t = "SCPAcc" -> 7
               [] t = "VCP" -> 8 [] t = "VCPAcc" -> 9 [] t = "Rej" -> 10 [] t = "Update" -> 11
               [] t = "VCFund" -> 12 [] t = "VCSettle" -> 13 [] t = "UpdateAcc" -> 14
               [] t = "UpdateRej" -> 15 [] t = "Sync" -> 16

EncBody(m) ==
  CASE m.t \in {"Ping", "Pong"} -> I64(m.time, "val")
    [] m.t = "Shutdown" -> Str(m.reason)
    [] m.t = "AuthResponse" -> U32BE(m.l, "lenauth") \o Raw(m.sig, m.l, "val")
    [] m.t = "LCP" -> EncBase(m.base) \o EncWMap(m.part) \o EncNArr(m.peers)
    [] m.t = "LCPAcc" -> B32(m.pid) \o B32(m.ns) \o EncWMap(m.part)
    [] m.t = "SCP" -> EncBase(m.base) \o B32(m.parent)
    [] m.t = "SCPAcc" -> B32(m.pid) \o B32(m.ns)
    [] m.t = "VCP" -> EncBase(m.base) \o EncWMap(m.part) \o EncNArr(m.peers)
                      \o U16(Len(m.parents), "cntids") \o Flat([i \in 1..Len(m.parents) |-> B32(m.parents[i])])
                      \o U16(Len(m.ims), "cntmaps") \o Flat([i \in 1..Len(m.ims) |-> EncIdxMap(m.ims[i])])
    [] m.t = "VCPAcc" -> B32(m.pid) \o B32(m.ns) \o EncWMap(m.part)
    [] m.t = "Rej" -> B32(m.pid) \o Str(m.reason)
    [] m.t = "Update" -> EncUpd(m.upd)
    [] m.t = "UpdateAcc" -> B32(m.id) \o U64(m.ver, "val") \o SigT(m.sig)
    [] m.t = "UpdateRej" -> B32(m.id) \o U64(m.ver, "val") \o Str(m.reason)
    [] m.t = "VCFund" -> EncUpd(m.upd) \o EncParams(m.params) \o EncState(m.st) \o EncIdxMap(m.im) \o EncSigs(m.sigs)
    [] m.t = "VCSettle" -> EncUpd(m.upd) \o EncParams(m.params) \o EncState(m.st) \o EncSigs(m.sigs)
    [] m.t = "Sync" -> U8(m.phase, "val") \o EncTx(m.tx)
EncMsg(m) == U8(TypeNo(m.t), "type") \o EncBody(m)
EncEnv(e) == EncNMap(e.from) \o EncNMap(e.to) \o EncMsg(e.msg)

(* a typed value: [ty, v] *)
Enc(x) == CASE x.ty = "Envelope" -> EncEnv(x.v)
            [] x.ty = "State" -> EncState(x.v)
            [] x.ty = "Allocation" -> EncAlloc(x.v)
            [] x.ty = "Balances" -> EncBals(x.v)
            [] x.ty = "SubAlloc" -> EncSub(x.v)
            [] x.ty = "Params" -> EncParams(x.v)
            [] x.ty = "Transaction" -> EncTx(x.v)
            [] x.ty = "WalletAddrMap" -> EncWMap(x.v)
            [] x.ty = "WalletAddrMapArray" -> EncWArr(x.v)
            [] x.ty = "WireAddrMap" -> EncNMap(x.v)
            [] x.ty = "WireAddrMapArray" -> EncNArr(x.v)

Swap2(m) == <<m[2], m[1]>>
MapPerms(m) == IF Len(m) = 2 THEN {m, Swap2(m)} ELSE {m}
MsgAlts(m) == IF m.t = "LCP" /\ Len(m.peers) >= 1 THEN { [m EXCEPT !.peers[1] = q] : q \in MapPerms(m.peers[1]) } ELSE {m}
(* the other values that are the same Go value (maps are unordered) *)
AltValues(x) == CASE x.ty = "Envelope" -> { [from |-> f, to |-> x.v.to, msg |-> mm] : f \in MapPerms(x.v.from), mm \in MsgAlts(x.v.msg) } \ {x.v}
                  [] x.ty = "WireAddrMap" -> MapPerms(x.v) \ {x.v}
                  [] x.ty = "WireAddrMapArray" -> IF Len(x.v) = 1 THEN { <<q>> : q \in MapPerms(x.v[1]) } \ {x.v} ELSE {}
                  [] OTHER -> {}
EncAlts(x) == SetToSeq({ Enc([ty |-> x.ty, v |-> y]) : y \in AltValues(x) })

(***************************************************************************)
(* Value domain                                                            *)
(***************************************************************************)
WSym == <<"W1", "W2", "W3", "W4", "W5", "W6", "W7", "W8", "W9">>
NSym == <<"N1", "N2", "N3">>
ASym == <<"A1", "A2", "A3">>
Amts == <<0, 5, 256, 70000, 2147483647, 1, 255, 65536, -1, -2>>
Amt(i, j) == Amts[((i * 3 + j) % 10) + 1]
WM(s) == <<[b |-> 0, a |-> s]>>
NM(s) == <<[b |-> 0, a |-> s]>>
NM2(s, t) == <<[b |-> 0, a |-> s], [b |-> 1, a |-> t]>>
Parts(np) == [i \in 1..np |-> WM(WSym[i])]
Peers(np) == [i \in 1..np |-> NM(NSym[((i - 1) % 3) + 1])]

AssetSeq(na) == [i \in 1..na |-> [b |-> 0, a |-> ASym[i]]]
BalM(na, np) == [i \in 1..na |-> [j \in 1..np |-> Amt(i, j)]]
SA(id, na, im) == [id |-> id, bals |-> [i \in 1..na |-> Amt(i, 4)], im |-> im]
LockShapes(na) ==
  { <<>>,
    <<SA("I1", na, <<>>)>>,
    <<SA("I1", na, <<0, 1>>)>>,
    <<SA("I1", na, <<1, 0>>), SA("I2", na, <<0, 1>>)>>,
    <<SA("I1", na, <<0, 1, 2>>), SA("I2", na, <<1>>)>> }
  \cup (IF Deep THEN { <<SA("I1", na, <<>>), SA("I2", na, <<>>)>>,
                       <<SA("I1", na, <<2, 1>>), SA("I2", na, <<0, 1>>), SA("I3", na, <<1>>)>> } ELSE {})
Alloc(na, np, lk) == [assets |-> AssetSeq(na), bals |-> BalM(na, np), locked |-> lk]
NAs == IF Deep THEN {1, 2, 3} ELSE {1, 2}
NPs == IF Deep THEN {2, 3, 4} ELSE {2, 3}
Allocs == { Alloc(na, np, lk) : na \in NAs, np \in NPs, lk \in LockShapes(2) \cup LockShapes(1) \cup LockShapes(3) }
AllocsWF == { a \in Allocs : \A k \in 1..Len(a.locked) : Len(a.locked[k].bals) = Len(a.assets) }
Alloc9 == Alloc(1, 9, <<>>)                     \* nine participants: two mask bytes
AllocsAll == AllocsWF \cup {Alloc9}
AllocsPlain == { a \in AllocsAll : a.locked = <<>> }

AppData == { <<"none", "D0">>, <<"APP1", "D1">> } \cup (IF Deep THEN { <<"APP2", "D2">> } ELSE {})
St(id, ver, al, fin, ad) == [id |-> id, ver |-> ver, alloc |-> al, fin |-> fin, app |-> ad[1], data |-> ad[2]]
States == { St("I0", ver, al, fin, ad) : ver \in {0, 7}, al \in AllocsAll, fin \in BOOLEAN, ad \in AppData }
(* one state per allocation shape for use inside messages *)
NPof(al) == Len(al.bals[1])
StOf(al) == St("I0", 3 + Len(al.locked), al, Len(al.assets) = 2, IF NPof(al) = 3 THEN <<"APP1", "D1">> ELSE <<"none", "D0">>)
StatesM == { StOf(al) : al \in AllocsAll }
StatesS == { StOf(al) : al \in { a \in AllocsAll : Len(a.assets) = 1 /\ Len(a.locked) <= 1 } }

Par(cd, np, app, nonce, l, v, aux) == [cd |-> cd, parts |-> Parts(np), app |-> app, nonce |-> nonce, ledger |-> l, virt |-> v, aux |-> aux]
ParamsDom == { Par(cd, np, app, nonce, l, v, "X0") : cd \in {1, 60}, np \in {2, 3}, app \in {"none", "APP1"},
                                                  nonce \in {0, 77, 2147483647}, l \in BOOLEAN, v \in BOOLEAN }
             \cup { Par(60, 9, "none", 5, TRUE, FALSE, "X1") }
ParamsS == { p \in ParamsDom : p.cd = 60 /\ p.nonce = 77 /\ p.ledger # p.virt } \cup { Par(60, 9, "none", 5, TRUE, FALSE, "X1") }

SigSyms == <<"G1", "G2", "G3", "G4", "G5", "G6", "G7", "G8", "G9">>
SigSubsets(np) == { [i \in 1..np |-> IF i \in S THEN SigSyms[i] ELSE ""] : S \in SUBSET (1..np) }
SigSome(np) == { [i \in 1..np |-> IF i \in S THEN SigSyms[i] ELSE ""] : S \in {{}, {1}, {np}, 1..np, {1, np}} }
NoState == [none |-> TRUE]
SigsFor(np) == IF np > 4 THEN SigSome(np) ELSE SigSubsets(np)
Txs == { [set |-> 0, st |-> NoState, sigs |-> <<>>] }
       \cup UNION { { [set |-> 1, st |-> s, sigs |-> g] : g \in SigsFor(NPof(s.alloc)) } : s \in StatesS }
       \cup UNION { { [set |-> 1, st |-> s, sigs |-> g] : g \in SigSome(NPof(s.alloc)) } : s \in StatesM }

Bases == { [pid |-> "I5", cd |-> 60, ns |-> "I6", app |-> ad[1], data |-> ad[2], init |-> al, fa |-> al.bals, aux |-> aux] :
             al \in AllocsPlain, ad \in AppData, aux \in {"X0"} }
         \cup { [pid |-> "I5", cd |-> 1, ns |-> "I6", app |-> "none", data |-> "D0", init |-> Alloc(2, 2, <<SA("I1", 2, <<0, 1>>)>>),
                 fa |-> BalM(1, 3), aux |-> "X1"] }
Strs == {"", "no", "not with these funds"}
Upds == { [st |-> s, actor |-> a, sig |-> "G1"] : s \in StatesM, a \in {0, 1} }
UpdsS == { [st |-> s, actor |-> 1, sig |-> "G2"] : s \in StatesS }

Msgs ==
  { [t |-> ty, time |-> x] : ty \in {"Ping", "Pong"}, x \in {0, 1, 1700000000, -1} }
  \cup { [t |-> "Shutdown", reason |-> s] : s \in Strs }
  \cup { [t |-> "AuthResponse", sig |-> "R1", l |-> l] : l \in {0, 12, 64} }
  \cup { [t |-> "LCP", base |-> b, part |-> WM("W1"), peers |-> p] : b \in Bases,
            p \in {Peers(2), Peers(3), <<NM2("N1", "N2"), NM("N3")>>} }
  \cup { [t |-> "LCPAcc", pid |-> "I5", ns |-> "I7", part |-> m] : m \in {WM("W2"), <<>>} }
  \cup { [t |-> "SCP", base |-> b, parent |-> "I0"] : b \in Bases }
  \cup { [t |-> "SCPAcc", pid |-> "I5", ns |-> n] : n \in {"I7", "I8"} }
  \cup { [t |-> "VCP", base |-> b, part |-> WM("W1"), peers |-> Peers(2), parents |-> pa, ims |-> im] :
            b \in { x \in Bases : Len(x.init.assets) = 1 },
            pa \in {<<>>, <<"I1", "I2">>}, im \in {<<>>, <<<<0, 1>>, <<1, 0>>>>, <<<<>>, <<2>>, <<0, 1, 2>>>>} }
  \cup { [t |-> "VCPAcc", pid |-> "I5", ns |-> "I7", part |-> WM("W2")] }
  \cup { [t |-> "Rej", pid |-> "I5", reason |-> s] : s \in Strs }
  \cup { [t |-> "Update", upd |-> u] : u \in Upds }
  \cup { [t |-> "UpdateAcc", id |-> "I0", ver |-> v, sig |-> "G2"] : v \in {0, 8} }
  \cup { [t |-> "UpdateRej", id |-> "I0", ver |-> 8, reason |-> s] : s \in Strs }
  \cup UNION { { [t |-> "VCFund", upd |-> u, params |-> p, st |-> s, im |-> im, sigs |-> g] :
                    u \in { x \in UpdsS : Len(x.st.alloc.locked) = 1 },
                    s \in { x \in StatesS : NPof(x.alloc) = Len(p.parts) /\ Len(x.alloc.locked) = 0 },
                    im \in {<<>>, <<1, 0>>}, g \in SigSome(Len(p.parts)) } : p \in ParamsS }
  \cup UNION { { [t |-> "VCSettle", upd |-> u, params |-> p, st |-> s, sigs |-> g] :
                    u \in { x \in UpdsS : Len(x.st.alloc.locked) = 0 /\ NPof(x.st.alloc) = 2 },
                    s \in { x \in StatesS : NPof(x.alloc) = Len(p.parts) }, g \in SigSome(Len(p.parts)) } : p \in ParamsS }
  \cup { [t |-> "Sync", phase |-> ph, tx |-> tx] : ph \in {0, 5, 11}, tx \in Txs }   \* first phase, Final, last phase (Withdrawn)

Env(m) == [from |-> NM("N1"), to |-> NM("N2"), msg |-> m]
Envs == { Env(m) : m \in Msgs }
        \cup { [from |-> f, to |-> t, msg |-> [t |-> "Ping", time |-> 7]] :
                 f \in {NM("N1"), NM2("N1", "N3"), <<>>}, t \in {NM("N2"), <<>>, <<[b |-> 7, a |-> "N2"]>>} }

V(ty, S) == { [ty |-> ty, v |-> v] : v \in S }
SubAllocs == { SA(id, na, im) : id \in {"I1", "I2"}, na \in {0, 1, 2}, im \in {<<>>, <<0>>, <<1, 0>>, <<0, 1, 2>>} }
BalsDom == { BalM(na, np) : na \in 1..3, np \in 1..3 } \cup { <<>> }
Values ==
  V("Envelope", Envs) \cup V("State", States) \cup V("Allocation", AllocsAll) \cup V("Balances", BalsDom)
  \cup V("SubAlloc", SubAllocs) \cup V("Params", ParamsDom) \cup V("Transaction", Txs)
  \cup V("WalletAddrMap", {WM("W1"), WM("W2"), <<>>}) \cup V("WalletAddrMapArray", {Parts(2), Parts(3), <<>>, <<<<>>, WM("W1")>>})
  \cup V("WireAddrMap", {NM("N1"), NM2("N1", "N2"), <<>>}) \cup V("WireAddrMapArray", {Peers(2), Peers(3), <<>>, <<NM2("N2", "N1")>>})
Types == { x.ty : x \in Values }
OfType(ty) == { x \in Values : x.ty = ty }

(***************************************************************************)
(* Model-side theorems about the format description (C14, C15)             *)
(***************************************************************************)
Prefixes(s) == { SubSeq(s, 1, i) : i \in 0..Len(s) - 1 }      \* proper prefixes
EncSet(ty) == { Enc(x) : x \in OfType(ty) }
(* C15: equal encodings => equal values *)
Injective(u) == \A ty \in Types : Cardinality(EncSet(ty)) = Cardinality(OfType(ty))
(* C14: no encoding is a proper prefix of another encoding of the same     *)
(* type, so a decoder that has consumed Enc(v) knows it has: concatenated  *)
(* values decode one after the other.                                      *)
PrefixFree(u) == \A ty \in Types : (UNION { Prefixes(e) : e \in EncSet(ty) }) \cap EncSet(ty) = {}
(* C14: the grammar is deterministic at token level - after the same       *)
(* tokens every encoding continues with a token of the same kind and, for  *)
(* the fixed-size kinds, the same size; variable-size kinds carry their    *)
(* length first.  With PrefixFree this makes the BYTE streams prefix-free. *)
Shape(t) == IF t.k \in {"big", "blob16", "str16"} THEN <<t.k, 0>> ELSE <<t.k, t.l>>
NextShapes(E) == UNION { { <<SubSeq(e, 1, i), Shape(e[i + 1])>> : i \in 0..Len(e) - 1 } : e \in E }
ProperPrefixSet(E) == UNION { Prefixes(e) : e \in E }
Deterministic(u) == \A ty \in Types : Cardinality(NextShapes(EncSet(ty))) = Cardinality(ProperPrefixSet(EncSet(ty)))

(***************************************************************************)
(* C14 export: value + token stream                                        *)
(***************************************************************************)
EncCase(x) == [ty |-> x.ty, v |-> x.v, toks |-> Enc(x), alts |-> EncAlts(x)]
ExportEnc(u) == \A x \in Values : PrintT(ToJson(EncCase(x)))

(***************************************************************************)
(* C13: structured mutants of a token stream.  A mutant is                 *)
(*   [at, op, tok, exp, over, why]                                         *)
(* op "set":   token at is replaced by tok                                 *)
(* op "cut":   the stream ends after token at ("after") / in the middle of *)
(*             token at ("inside"), tok.s says which                       *)
(* op "grow":  count token at is set to tok.n and the group of tok.l       *)
(*             tokens following it is repeated to that many copies         *)
(* exp: "value" | "error" | "any" - what a decoder that implements the     *)
(* grammar and the documented limits returns; over = TRUE: the stream      *)
(* declares more than a documented limit (must be rejected).  A panic or   *)
(* an allocation proportional to a declared length is never allowed.       *)
(***************************************************************************)
Mu(at, op, tok, exp, over, why) == [at |-> at, op |-> op, tok |-> tok, exp |-> exp, over |-> over, why |-> why]
SetN(t, n) == [t EXCEPT !.n = n]
NoTok == [k |-> "", n |-> 0, s |-> "", l |-> 0, r |-> ""]

TokMutants(i, t) ==
  CASE t.r = "cnt1024" ->
         { Mu(i, "set", SetN(t, n), IF n > Limit THEN "error" ELSE "any", n > Limit, "count") :
             n \in {0, 1, Limit, Limit + 1, 65535, t.n + 1, t.n - 1} \ {t.n, -1} }
    [] t.r \in {"cntidx", "cntids", "cntmaps"} ->
         { Mu(i, "set", SetN(t, n), "any", FALSE, "count") : n \in {0, 65535, t.n + 1, t.n - 1, Limit + 1} \ {t.n, -1} }
    [] t.r \in {"maplen", "arrlenW", "arrlenN"} ->
         { Mu(i, "set", SetN(t, n), IF n > t.n THEN "error" ELSE "any", FALSE, "length") :
             n \in {-1, MinInt32, 0, Limit, Limit + 1, MaxInt32, 65535, t.n + 1, t.n - 1} \ {t.n} }
    [] t.r \in {"wbid", "abid"} ->
         { Mu(i, "set", SetN(t, n), "error", FALSE, "backend") : n \in {1, 7, -1, MaxInt32, MinInt32} }
    [] t.r = "nbid" -> { Mu(i, "set", SetN(t, n), "value", FALSE, "wirekey") : n \in {1, -1} }
    [] t.r = "type" ->
         { Mu(i, "set", SetN(t, n), "error", FALSE, "type") : n \in {17, 18, 128, 255} }
         \cup { Mu(i, "set", SetN(t, n), "any", FALSE, "type") : n \in (0..16) \ {t.n} }
    [] t.r \in {"opt", "flag"} -> { Mu(i, "set", SetN(t, n), "any", FALSE, "option") : n \in {0, 1, 2, 255} \ {t.n} }
    [] t.r = "set" -> { Mu(i, "set", SetN(t, n), "error", FALSE, "stateset") : n \in {2, 255} }
                      \cup { Mu(i, "set", SetN(t, 1 - t.n), "any", FALSE, "stateset") }
    [] t.r = "mask" ->
         { Mu(i, "set", SetN(t, n), "any", FALSE, "mask") : n \in {0, 255, 65535, t.n + 128, t.n + 2 ^ (8 * t.l - 1)} \ {t.n} }
    [] t.r = "big" ->
         { Mu(i, "set", [t EXCEPT !.k = "bigraw", !.l = l, !.s = f], IF l > MaxBig THEN "error" ELSE "any", l > MaxBig, "bigint") :
             l \in {MaxBig, MaxBig + 1, 255}, f \in {"ff", "zeropad"} }
    [] t.r \in {"waddr", "asset", "appdef"} ->
         { Mu(i, "set", [t EXCEPT !.l = l], "error", FALSE, "bloblen") : l \in {t.l - 1, t.l + 1} }
         \cup { Mu(i, "set", [t EXCEPT !.l = 0], "any", FALSE, "bloblen") }
         \cup { Mu(i, "set", [t EXCEPT !.k = "blob16x", !.n = n], "any", FALSE, "blobdecl") : n \in {0, t.l - 1, t.l + 1, 65535} }
         \cup (IF t.r = "appdef" THEN { Mu(i, "set", [t EXCEPT !.s = "APPX"], "any", FALSE, "unknownapp") } ELSE {})
    [] t.r \in {"naddr", "data"} ->
         { Mu(i, "set", [t EXCEPT !.l = l], "any", FALSE, "bloblen") : l \in {0, t.l - 1, t.l + 1} \ {t.l, -1} }
         \cup { Mu(i, "set", [t EXCEPT !.k = "blob16x", !.n = n], "any", FALSE, "blobdecl") : n \in {t.l + 1, 65535} }
    [] t.r = "str" -> { Mu(i, "set", [t EXCEPT !.k = "str16x", !.n = n], "any", FALSE, "strdecl") : n \in {t.l + 1, 65535} }
    [] t.r = "lenauth" ->
         { Mu(i, "set", SetN(t, n), "error", FALSE, "length") : n \in {-1, MaxInt32, t.n + 1, 16777216} }
    [] OTHER -> {}

Cuts(toks) == { Mu(i, "cut", [NoTok EXCEPT !.s = "after"], "error", FALSE, "truncated") : i \in 0..Len(toks) - 1 }
              \cup { Mu(i, "cut", [NoTok EXCEPT !.s = "inside"], "error", FALSE, "truncated") : i \in { j \in 1..Len(toks) : Size(toks[j]) > 1 } }
(* address arrays carry no immediate limit check: the limit is tested by   *)
(* really supplying Limit / Limit+1 entries                                *)
Grows(toks) ==
  UNION { IF toks[i].r \in {"arrlenW", "arrlenN"} /\ toks[i].n >= 1 /\ toks[i + 1].n = 1
          THEN { Mu(i, "grow", [NoTok EXCEPT !.n = n, !.l = 3], IF n > Limit THEN "error" ELSE "value", n > Limit, "participants") : n \in {Limit, Limit + 1} }
          ELSE {} : i \in 1..Len(toks) }
Mutants(toks) == (UNION { TokMutants(i, toks[i]) : i \in 1..Len(toks) }) \cup Cuts(toks) \cup Grows(toks)
CutSeq(toks) == [i \in 1..Len(toks) |-> Mu(i - 1, "cut", [NoTok EXCEPT !.s = "after"], "error", FALSE, "truncated")]
                \o SelectSeq([i \in 1..Len(toks) |-> Mu(i, "cut", [NoTok EXCEPT !.s = "inside"], "error", FALSE, "truncated")],
                             LAMBDA m : Size(toks[m.at]) > 1)
MutSeq(toks) == Flat([i \in 1..Len(toks) |-> SetToSeq(TokMutants(i, toks[i]))]) \o CutSeq(toks) \o SetToSeq(Grows(toks))

(* ill-formed values whose encoding is well-formed token-wise: counts      *)
(* inconsistent with one another                                           *)
BadStreams ==
  { [ty |-> "Allocation", toks |-> EncAlloc([a EXCEPT !.locked = <<SA("I1", Len(a.assets) + 1, <<>>)>>]), base |-> "error", why |-> "locked-dimension"] : a \in AllocsPlain }
  \cup { [ty |-> "Allocation", toks |-> EncAlloc([a EXCEPT !.bals = BalM(Len(a.assets) + 1, 2)]), base |-> "error", why |-> "balances-rows"] : a \in AllocsPlain }
  \cup { [ty |-> "Allocation", toks |-> EncAlloc([a EXCEPT !.bals = <<>>]), base |-> "error", why |-> "no-balances"] : a \in AllocsPlain }
  \cup { [ty |-> "Allocation", toks |-> EncAlloc(Alloc(0, 2, <<>>)), base |-> "error", why |-> "no-assets"] }
  \cup { [ty |-> "Allocation", toks |-> EncAllocH(a, NPof(a) + 1), base |-> "any", why |-> "header-parts"] : a \in AllocsPlain }
  \cup { [ty |-> "Params", toks |-> EncParams([p EXCEPT !.parts = ps]), base |-> "error", why |-> "participants"] :
            p \in { Par(60, 2, "none", 77, TRUE, FALSE, "X0") }, ps \in {<<>>, <<WM("W1")>>} }
  \cup { [ty |-> "Params", toks |-> EncParams([p EXCEPT !.cd = 0]), base |-> "error", why |-> "challenge-duration"] :
            p \in { Par(60, 2, "none", 77, TRUE, FALSE, "X0") } }
  \cup { [ty |-> "Envelope", toks |-> EncEnv(Env([t |-> "LCP", base |-> b, part |-> WM("W1"), peers |-> p])), base |-> "error", why |-> "peers"] :
            b \in { x \in Bases : x.aux = "X1" }, p \in {<<>>, Peers(1)} }

MutTargets == IF Deep THEN Values ELSE
  V("Envelope", Envs) \cup V("State", { s \in States : s.ver = 7 /\ s.fin }) \cup V("Allocation", AllocsAll)
  \cup V("Balances", BalsDom) \cup V("SubAlloc", SubAllocs) \cup V("Params", { p \in ParamsDom : p.cd = 60 /\ p.nonce = 77 })
  \cup V("Transaction", Txs) \cup (Values \ (V("Envelope", Envs) \cup V("State", States) \cup V("Params", ParamsDom)))
(* the participant limit belongs to parameters and proposals, not to the   *)
(* bare address-array decoders                                             *)
MutSeqFor(ty, toks) == LET ms == MutSeq(toks) IN
  IF ty \in {"WalletAddrMapArray", "WireAddrMapArray"}
  THEN [i \in 1..Len(ms) |-> IF ms[i].op = "grow" THEN [ms[i] EXCEPT !.over = FALSE, !.exp = "any"] ELSE ms[i]]
  ELSE ms
MutCase2(ty, toks, base, why) == [ty |-> ty, toks |-> toks, base |-> base, why |-> why, bytes |-> ByteLen(toks), muts |-> MutSeqFor(ty, toks)]
ExportMut(u) ==
  /\ \A x \in MutTargets : PrintT(ToJson(MutCase2(x.ty, Enc(x), "value", "valid")))
  /\ \A b \in BadStreams : PrintT(ToJson(MutCase2(b.ty, b.toks, b.base, b.why)))
(* every over-limit mutant is expected to be rejected; truncations are     *)
(* proper prefixes (rejected by PrefixFree + Deterministic)                *)
MutSane(u) == \A x \in V("Balances", BalsDom) \cup V("SubAlloc", SubAllocs) :
              \A m \in Mutants(Enc(x)) : (m.over => m.exp = "error") /\ (m.op = "cut" => m.at < Len(Enc(x)) \/ m.tok.s = "inside")

(***************************************************************************)
(* C15: pairs differing in exactly one field                               *)
(***************************************************************************)
SetAt(seq, i, v) == [seq EXCEPT ![i] = v]
Drop(seq) == SubSeq(seq, 1, Len(seq) - 1)
Bump(x) == IF x >= MaxInt32 \/ x < 0 THEN 3 ELSE x + 1
(* APP3 / APP4: two more registered apps whose identifiers have short coordinates, (01, 0203) and (0102, 03): the same *)
(* bytes once the coordinates are written without padding                                                         *)
OtherApp(a) == IF a = "none" THEN "APP1" ELSE IF a = "APP1" THEN "APP2" ELSE IF a = "APP3" THEN "APP4" ELSE "APP1"
OtherData(d) == IF d = "D1" THEN "D2" ELSE "D1"
StateVariants(s) ==
  LET al == s.alloc
      na == Len(al.assets)
      np == NPof(al)
      nl == Len(al.locked)
  IN { <<"id", [s EXCEPT !.id = "I9"]>>, <<"version", [s EXCEPT !.ver = @ + 1]>>, <<"final", [s EXCEPT !.fin = ~@]>>,
       <<"data", [s EXCEPT !.data = OtherData(@)]>>, <<"data-other", [s EXCEPT !.data = "D3"]>> }
     \cup (IF s.app = "none" THEN { <<"app", [s EXCEPT !.app = "APP1", !.data = IF s.data = "D0" THEN "D1" ELSE s.data]>> }
           ELSE { <<"app", [s EXCEPT !.app = OtherApp(@)]>>, <<"app-removed", [s EXCEPT !.app = "none"]>> })
     \cup { <<"balance", [s EXCEPT !.alloc.bals[a][j] = Bump(@)]>> : a \in 1..na, j \in 1..np }
     \cup { <<"asset", [s EXCEPT !.alloc.assets[a].a = "A9"]>> : a \in 1..na }
     \cup { <<"backend", [s EXCEPT !.alloc.assets[a].b = 1]>> : a \in 1..na }
     \cup { <<"locked-id", [s EXCEPT !.alloc.locked[k].id = "I9"]>> : k \in 1..nl }
     \cup { <<"locked-amount", [s EXCEPT !.alloc.locked[k].bals[a] = Bump(@)]>> : k \in 1..nl, a \in 1..na }
     \cup UNION { { <<"indexmap-entry", [s EXCEPT !.alloc.locked[k].im[e] = @ + 1]>> : e \in 1..Len(al.locked[k].im) } : k \in 1..nl }
     \cup { <<"indexmap-longer", [s EXCEPT !.alloc.locked[k].im = Append(@, 0)]>> : k \in 1..nl }
     \cup { <<"indexmap-shorter", [s EXCEPT !.alloc.locked[k].im = Drop(@)]>> : k \in { j \in 1..nl : Len(al.locked[j].im) > 0 } }
     \cup { <<"participants-plus", [s EXCEPT !.alloc.bals = [a \in 1..na |-> Append(al.bals[a], 0)]]>>,
            <<"participants-minus", [s EXCEPT !.alloc.bals = [a \in 1..na |-> Drop(al.bals[a])]]>>,
            <<"assets-plus", [s EXCEPT !.alloc.assets = Append(@, [b |-> 0, a |-> "A9"]), !.alloc.bals = Append(@, [j \in 1..np |-> 0]),
                                       !.alloc.locked = [k \in 1..nl |-> [al.locked[k] EXCEPT !.bals = Append(@, 0)]]]>>,
            <<"locked-plus", [s EXCEPT !.alloc.locked = Append(@, SA("I8", na, <<>>))]>> }
     \cup (IF nl > 0 THEN { <<"locked-minus", [s EXCEPT !.alloc.locked = Drop(@)]>>,
                            <<"locked-duplicate", [s EXCEPT !.alloc.locked = Append(@, al.locked[1])]>> } ELSE {})
     \cup (IF nl > 1 THEN { <<"locked-swapped", [s EXCEPT !.alloc.locked = SetAt(SetAt(@, 1, al.locked[2]), 2, al.locked[1])]>>,
                            <<"locked-first-twice", [s EXCEPT !.alloc.locked = SetAt(@, 2, al.locked[1])]>> } ELSE {})
     \cup (IF na > 1 THEN { <<"assets-swapped", [s EXCEPT !.alloc.assets = SetAt(SetAt(@, 1, al.assets[2]), 2, al.assets[1])]>> } ELSE {})

PairStates == { s \in States : s.ver = 7 /\ ~s.fin } \cup { St("I0", 1, Alloc(1, 2, <<>>), FALSE, <<"none", "D1">>) }
SubEq(v, w) == [k \in 1..(IF Len(v.alloc.locked) < Len(w.alloc.locked) THEN Len(v.alloc.locked) ELSE Len(w.alloc.locked)) |->
                   v.alloc.locked[k] = w.alloc.locked[k]]
PairCase(v, w, name) ==
  [v |-> v, w |-> w, name |-> name,
   eq |-> [state |-> v = w, alloc |-> v.alloc = w.alloc, bals |-> v.alloc.bals = w.alloc.bals, locked |-> v.alloc.locked = w.alloc.locked,
           assets |-> Map(LAMBDA x : x.a, v.alloc.assets) = Map(LAMBDA x : x.a, w.alloc.assets),
           backends |-> Map(LAMBDA x : x.b, v.alloc.assets) = Map(LAMBDA x : x.b, w.alloc.assets),
           sub |-> SubEq(v, w)],
   enceq |-> EncState(v) = EncState(w)]
Variants(s) == StateVariants(s)
ExportPair(u) ==
  \A s \in PairStates :
     /\ PrintT(ToJson(PairCase(s, s, "identical")))
     /\ \A x \in Variants(s) : PrintT(ToJson(PairCase(s, x[2], x[1])))
(* C15 in the model: a single-field variant is a different value and has a *)
(* different encoding; identical values have identical encodings           *)
PairTheorem(u) == \A s \in PairStates : \A x \in Variants(s) : x[2] # s /\ EncState(x[2]) # EncState(s)

(***************************************************************************)
(* C17: the channel id commits to the parameters.  Nonces are strings      *)
(* here ("5", "lz5" = 5 written with leading zero bytes, "2^256-1", ...);  *)
(* parts is a sequence of wallet symbols, or [rep |-> n] for n of them.    *)
(***************************************************************************)
NonceNorm(n) == IF n = "lz5" THEN "5" ELSE n
NonceOK(n) == n \notin {"nil", "2^256", "2^263-1", "2^263", "2^264"}
NParts(p) == IF p.rep > 0 THEN p.rep ELSE Len(p.parts)
PreImage(p) == <<p.parts, p.rep, NonceNorm(p.nonce), p.cd, p.app, p.ledger, p.virt>>
ParamsValid(p) == /\ p.cd > 0 /\ NParts(p) >= 2 /\ NParts(p) <= Limit /\ p.app # "nil" /\ NonceOK(p.nonce)
                  /\ \A i \in 1..Len(p.parts) : p.parts[i] # "W0"      \* "W0": a participant without any address (empty map)
IP(cd, parts, app, nonce, l, v) == [cd |-> cd, parts |-> parts, rep |-> 0, app |-> app, nonce |-> nonce, ledger |-> l, virt |-> v]
IdBases == { IP(cd, ps, app, n, l, v) : cd \in {1, 60}, ps \in {<<"W1", "W2">>, <<"W1", "W2", "W3">>}, app \in {"none", "APP1", "APP3"},
                                        n \in {"0", "5", "2^256-1"}, l \in BOOLEAN, v \in BOOLEAN }
NoncePlus(n) == CASE n = "0" -> "1" [] n = "5" -> "6" [] n = "2^256-1" -> "2^256-2" [] OTHER -> "5"
NonceMinus(n) == CASE n = "5" -> "4" [] OTHER -> NoncePlus(n)
IdVariants(p) ==
  { <<"challenge-duration", [p EXCEPT !.cd = @ + 1]>>, <<"app", [p EXCEPT !.app = OtherApp(@)]>>,
    <<"nonce-plus", [p EXCEPT !.nonce = NoncePlus(@)]>>, <<"nonce-minus", [p EXCEPT !.nonce = NonceMinus(@)]>>,
    <<"ledger-flag", [p EXCEPT !.ledger = ~@]>>, <<"virtual-flag", [p EXCEPT !.virt = ~@]>>,
    <<"participant-order", [p EXCEPT !.parts = SetAt(SetAt(@, 1, p.parts[2]), 2, p.parts[1])]>>,
    <<"participant-added", [p EXCEPT !.parts = Append(@, "W4")]>>,
    <<"both-flags", [p EXCEPT !.ledger = ~@, !.virt = ~@]>> }
  \cup { <<"participant-address", [p EXCEPT !.parts[i] = "W5"]>> : i \in 1..Len(p.parts) }
  \* a participant without any address: for the FIRST one no backend can compute an id; NewParams refuses every one
  \* ("participant i has no address"), and so must the decoder, which restores parameters through it
  \cup { <<"empty-participant", [p EXCEPT !.parts[1] = "W0"]>>, <<"empty-participant-2", [p EXCEPT !.parts[2] = "W0"]>> }
  \cup (IF Len(p.parts) > 2 THEN { <<"participant-removed", [p EXCEPT !.parts = Drop(@)]>> } ELSE {})
  \cup (IF p.nonce = "5" THEN { <<"nonce-leading-zeros", [p EXCEPT !.nonce = "lz5"]>> } ELSE {})
  \cup { <<"zero-challenge-duration", [p EXCEPT !.cd = 0]>>, <<"one-participant", [p EXCEPT !.parts = <<"W1">>]>>,
         <<"no-participants", [p EXCEPT !.parts = <<>>]>>, <<"nil-app", [p EXCEPT !.app = "nil"]>>, <<"nil-nonce", [p EXCEPT !.nonce = "nil"]>>,
         <<"max-participants", [p EXCEPT !.rep = Limit]>>, <<"too-many-participants", [p EXCEPT !.rep = Limit + 1]>> }
  \cup { <<"nonce-boundary", [p EXCEPT !.nonce = n]>> : n \in {"2^256-1", "2^256", "2^263-1", "2^263", "2^264", "2^255"} \ {p.nonce} }
IdCase(p, q, name) == [base |-> p, var |-> q, name |-> name, validBase |-> ParamsValid(p), validVar |-> ParamsValid(q),
                       same |-> PreImage(p) = PreImage(q)]
ExportId(u) == \A p \in IdBases : PrintT(ToJson(IdCase(p, p, "identical"))) /\ \A x \in IdVariants(p) : PrintT(ToJson(IdCase(p, x[2], x[1])))
(* the pre-image is injective in every listed field: the only variant with *)
(* the same pre-image is the one that only re-writes the nonce             *)
IdTheorem(u) == \A p \in IdBases : ParamsValid(p) /\ \A x \in IdVariants(p) : (PreImage(p) = PreImage(x[2])) = (x[1] = "nonce-leading-zeros")

(***************************************************************************)
(* C16: chunkings of the byte stream, described relative to token          *)
(* boundaries so that they scale to real sizes.  A schedule is a sequence  *)
(* of cut points [e, i, w]: envelope e of the stream, token i, w = 0 cut   *)
(* before the token, 1 inside it (after its first byte), 2 inside (before  *)
(* its last byte); plus the named ones.                                    *)
(***************************************************************************)
Cut(e, i, w) == [e |-> e, i |-> i, w |-> w]
Sched(name, cuts, n) == [name |-> name, cuts |-> cuts, n |-> n]
LongAlloc(na, np) == [assets |-> [i \in 1..na |-> [b |-> 0, a |-> "A1"]], bals |-> [i \in 1..na |-> [j \in 1..np |-> Amt(i, j)]], locked |-> <<>>]
LongEnv(na, np) == Env([t |-> "Update", upd |-> [st |-> St("I0", 9, LongAlloc(na, np), FALSE, <<"none", "D0">>), actor |-> 0, sig |-> "G1"]])
ChunkShort == { Env([t |-> "Ping", time |-> 7]), Env([t |-> "Shutdown", reason |-> "no"]),
                Env([t |-> "UpdateAcc", id |-> "I0", ver |-> 8, sig |-> "G2"]),
                Env([t |-> "Update", upd |-> [st |-> StOf(Alloc(2, 2, <<SA("I1", 2, <<1, 0>>)>>)), actor |-> 1, sig |-> "G1"]]),
                Env([t |-> "Sync", phase |-> 5, tx |-> [set |-> 1, st |-> StOf(Alloc(1, 3, <<>>)), sigs |-> <<"G1", "", "G3">>]]),
                Env([t |-> "LCP", base |-> CHOOSE b \in Bases : b.aux = "X1", part |-> WM("W1"), peers |-> Peers(2)]) }
(* explicit tuples: TLC evaluates [e \in S |-> ..] lazily at every application *)
Tup(f(_), n) == IF n = 1 THEN <<f(1)>> ELSE IF n = 2 THEN <<f(1), f(2)>> ELSE <<f(1), f(2), f(3)>>
SchedSeq(lens) ==
  LET ne == Len(lens)
      total == Sum(lens)
      keep(e, i) == total <= 400 \/ (Deep /\ total <= 4000) \/ i <= 4 \/ i >= lens[e] - 2 IN
  << Sched("all-at-once", <<>>, 0), Sched("bytewise", <<>>, 1), Sched("segments", <<>>, 1400), Sched("segments", <<>>, 7),
     Sched("segments", <<>>, 2), Sched("segments", <<>>, 3), Sched("segments", <<>>, 536), Sched("random", <<>>, 0), Sched("random", <<>>, 1),
     Sched("random", <<>>, 2), Sched("every-boundary", <<>>, 0), Sched("inside-every-token", <<>>, 0), Sched("before-last-byte-of-every-token", <<>>, 0) >>
  \o Flat([e \in 1..ne |-> Flat([i \in 1..lens[e] |->
         IF keep(e, i)
         THEN <<Sched("single-cut", <<Cut(e, i, 0)>>, 0), Sched("single-cut", <<Cut(e, i, 1)>>, 0), Sched("single-cut", <<Cut(e, i, 2)>>, 0)>> ELSE <<>>])])
  \o Flat([e \in 1..ne - 1 |-> << Sched("span-boundary", <<Cut(e, lens[e], 2), Cut(e + 1, 1, 1)>>, 0),
                                   Sched("span-boundary", <<Cut(e, lens[e] - 1, 0), Cut(e + 1, 3, 0)>>, 0),
                                   Sched("span-boundary", <<Cut(e + 1, 1, 1)>>, 0),
                                   Sched("span-boundary", <<Cut(e, 2, 0), Cut(e + 1, 2, 0)>>, 0) >>])
ChunkCase(envs) == LET tl == Tup(LAMBDA e : EncEnv(envs[e]), Len(envs))
                       lens == Tup(LAMBDA e : Len(tl[e]), Len(envs)) IN
  [envs |-> Tup(LAMBDA e : [v |-> envs[e], toks |-> tl[e], bytes |-> ByteLen(tl[e])], Len(envs)), scheds |-> SchedSeq(lens)]
ChunkStreams ==
  { <<e>> : e \in ChunkShort } \cup { <<LongEnv(100, 3)>>, <<LongEnv(400, 20)>>, <<LongEnv(1000, 20)>> }
  \cup { <<e, f>> : e \in ChunkShort, f \in { x \in ChunkShort : x.msg.t \in {"Ping", "Update"} } }
  \cup { <<e, Env([t |-> "Ping", time |-> 7]), e>> : e \in { x \in ChunkShort : x.msg.t \in {"Shutdown", "Sync"} } }
  \cup { <<LongEnv(100, 3), Env([t |-> "Ping", time |-> 7]), LongEnv(100, 3)>> }
  \cup (IF Deep THEN { <<LongEnv(1000, 20), LongEnv(400, 20)>> } ELSE {})
ExportChunk(u) == \A s \in ChunkStreams : PrintT(ToJson(ChunkCase(s)))
(* the long envelopes really are longer than a segment / than 65000 bytes  *)
ChunkSane(u) == ByteLen(EncEnv(LongEnv(100, 3))) > 1500 /\ ByteLen(EncEnv(LongEnv(1000, 20))) > 65000

(***************************************************************************)
(* What TLC evaluates                                                      *)
(***************************************************************************)
(* (the operators take a dummy argument: TLC evaluates every zero-arity    *)
(* constant definition at start-up, whatever the mode)                     *)
ASSUME Mode \in {"enc", "mut", "pair", "id", "chunk", "none", "thm-inj", "thm-pf", "thm-det"}
ASSUME Mode \in {"enc", "thm-inj"} => Injective(0)
ASSUME Mode \in {"enc", "thm-pf"} => PrefixFree(0)
ASSUME Mode \in {"enc", "thm-det"} => Deterministic(0)
ASSUME Mode \in {"enc", "thm-inj"} => \A ty \in Types : PrintT(<<"values", ty, Cardinality(OfType(ty))>>)
ASSUME Mode = "enc" => ExportEnc(0)
ASSUME Mode = "mut" => MutSane(0) /\ ExportMut(0)
ASSUME Mode = "pair" => PairTheorem(0) /\ ExportPair(0)
ASSUME Mode = "id" => IdTheorem(0) /\ ExportId(0)
ASSUME Mode = "chunk" => ChunkSane(0) /\ ExportChunk(0)

(***************************************************************************)
(* C16 in the model: a reader that needs Need[k] bytes for its k-th token  *)
(* and keeps reading until it has them ("full read") consumes exactly the  *)
(* token boundaries whatever chunks the transport delivers; a reader that  *)
(* issues one Read per token and takes what it gets does not (Single =     *)
(* TRUE shows the counter-example, cf. F16).                               *)
(***************************************************************************)
NeedDef == <<2, 1, 4, 3>>
CONSTANTS Need,    \* sequence of token sizes of the stream
          MaxChunk, \* the transport delivers chunks of 1..MaxChunk bytes
          Single   \* FALSE: full reads; TRUE: one Read per token
VARIABLES tok,     \* index of the token being read
          have,    \* bytes of it already read
          avail,   \* bytes of the current transport chunk not yet consumed
          consumed, \* total bytes consumed from the stream
          ends     \* byte offsets at which the reader believed a token ended
vars == <<tok, have, avail, consumed, ends>>
Total == Sum(Need)
RECURSIVE Bound(_)
Bound(k) == IF k = 0 THEN 0 ELSE Need[k] + Bound(k - 1)
CInit == tok = 1 /\ have = 0 /\ avail = 0 /\ consumed = 0 /\ ends = <<>>
Deliver == /\ avail = 0 /\ consumed < Total
           /\ \E n \in 1..MaxChunk : avail' = IF consumed + n > Total THEN Total - consumed ELSE n
           /\ UNCHANGED <<tok, have, consumed, ends>>
ReadSome == /\ avail > 0 /\ tok <= Len(Need)
            /\ LET want == Need[tok] - have
                   got == IF avail < want THEN avail ELSE want
               IN /\ avail' = avail - got /\ consumed' = consumed + got
                  /\ IF have + got = Need[tok] \/ Single
                     THEN tok' = tok + 1 /\ have' = 0 /\ ends' = Append(ends, consumed + got)
                     ELSE tok' = tok /\ have' = have + got /\ ends' = ends
CNext == Deliver \/ ReadSome
CSpec == CInit /\ [][CNext]_vars
Framing == \A k \in 1..Len(ends) : ends[k] = Bound(k)
=============================================================================
