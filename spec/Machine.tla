------------------------------ MODULE Machine ------------------------------
(***************************************************************************)
(* channel.StateMachine of participant Me in an N-party channel, written   *)
(* from the doc comments of channel/machine.go and channel/statemachine.go *)
(* (guards, post-phases) and the phase transition table.                   *)
(*                                                                         *)
(* Abstract state: phase, staged transaction, current transaction, and the *)
(* flag `adopted` (current state taken over from an on-chain progression   *)
(* event, hence unsigned).  A signature is the abstract value              *)
(* [by |-> i, over |-> s]: "valid signature of participant i over state s".*)
(*                                                                         *)
(* Every operation is a parameterised action and every outcome class is a  *)
(* separately named action (XOk / XErr), so that the edge labels of        *)
(* `tlc -dump dot,actionlabels` tell a driver what to execute and which    *)
(* result class to expect (DESIGN.md 3.2).  Every XErr action leaves all   *)
(* variables unchanged: that is the atomicity half of C09.                 *)
(*                                                                         *)
(* Properties: CurrentSigned, StagingSigsSound (C01); the transition       *)
(* relation itself (C09).                                                  *)
(***************************************************************************)
EXTENDS Integers, FiniteSets, TLC

CONSTANTS N,          \* number of participants
          Me,         \* own participant index
          MaxVer,     \* highest version among the candidate states
          WithNarrow  \* TRUE: the unchecked ForceUpdate is also offered states with a missing balance column (C01, C09);
                      \* FALSE for the persisted machine (C10): the stored form of a transaction has one signature per
                      \* balance column, a state of another shape is outside what persistence is specified for

Part == 0 .. (N-1)

Phases == {"InitActing","InitSigning","Funding","Acting","Signing","Final",
           "Registering","Registered","Progressing","Progressed","Withdrawing","Withdrawn"}
PhaseIdx(p) == CASE p = "InitActing" -> 0 [] p = "InitSigning" -> 1 [] p = "Funding" -> 2
                 [] p = "Acting" -> 3 [] p = "Signing" -> 4 [] p = "Final" -> 5
                 [] p = "Registering" -> 6 [] p = "Registered" -> 7 [] p = "Progressing" -> 8
                 [] p = "Progressed" -> 9 [] p = "Withdrawing" -> 10 [] p = "Withdrawn" -> 11
SigningPhases == {"InitSigning","Signing","Progressing"}

(* Candidate states.  ver/fin: version and final flag.  tag: which of two   *)
(* balance distributions.  sum: 0 = the channel's total, 1 = total + 1 (a  *)
(* candidate that does not conserve funds).  idok: carries the channel id. *)
NoSt == [ver |-> -1, fin |-> FALSE, tag |-> "none", sum |-> 0, idok |-> TRUE]
Plain == { [ver |-> v, fin |-> f, tag |-> t, sum |-> 0, idok |-> TRUE] :
              v \in 0..MaxVer, f \in BOOLEAN, t \in {"a","b"} }
Odd   == { [ver |-> v, fin |-> FALSE, tag |-> "a", sum |-> 1, idok |-> TRUE] : v \in 0..MaxVer }
         \cup
         { [ver |-> v, fin |-> FALSE, tag |-> "a", sum |-> 0, idok |-> FALSE] : v \in 0..MaxVer }
(* "n" (narrow): a well-formed allocation with the channel's total that has one balance column fewer than the      *)
(* channel has participants.  Update refuses it; the unchecked ForceUpdate stages it like any other state, with one *)
(* signature slot per PARTICIPANT.                                                                                 *)
Narrow == IF WithNarrow THEN { [ver |-> v, fin |-> FALSE, tag |-> "n", sum |-> 0, idok |-> TRUE] : v \in 0..MaxVer } ELSE {}
Cand == Plain \cup Odd \cup Narrow
S0 == [ver |-> 0, fin |-> FALSE, tag |-> "a", sum |-> 0, idok |-> TRUE]  \* the initial state built by Init
Twin(s) == [s EXCEPT !.tag = IF s.tag = "a" THEN "b" ELSE "a"]

NoSig   == [by |-> -1, over |-> NoSt]
Garbage == [by |-> -2, over |-> NoSt]    \* 64 bytes that are no signature of anybody over anything
Malformed == [by |-> -3, over |-> NoSt]  \* 63 bytes: not even decodable as a signature
EmptySig == [by |-> -4, over |-> NoSt]   \* a non-nil byte string of length 0
NonSigs == {-2, -3, -4}
NonSig(j) == [by |-> j, over |-> NoSt]
ValidSig(i, s) == [by |-> i, over |-> s]

VARIABLES phase, staging, current, adopted
vars == <<phase, staging, current, adopted>>

EmptySigs == [i \in Part |-> NoSig]
NoTx == [st |-> NoSt, sigs |-> EmptySigs]
Tx(s) == [st |-> s, sigs |-> EmptySigs]

TypeOK == /\ phase \in Phases
          /\ adopted \in BOOLEAN
          /\ staging.st \in Cand \cup {NoSt}
          /\ current.st \in Cand \cup {NoSt}

(* machine.ValidTransition + StateMachine.validTransition for the no-app.  *)
ValidTrans(c) == /\ current.st # NoSt
                 /\ c.idok
                 /\ c.tag # "n"
                 /\ ~current.st.fin
                 /\ c.ver = current.st.ver + 1
                 /\ c.sum = current.st.sum

Init == phase = "InitActing" /\ staging = NoTx /\ current = NoTx /\ adopted = FALSE

Same == UNCHANGED vars
Stage(ph, c) == phase' = ph /\ staging' = Tx(c) /\ UNCHANGED <<current, adopted>>
Goto(ph) == phase' = ph /\ UNCHANGED <<staging, current, adopted>>

(* Init(initBals, initData): kind "good" = well-formed allocation with N    *)
(* balances per asset and NoData; "badalloc" = one balance column missing; *)
(* "negbal" = a negative balance; "baddata" = data the no-app refuses.     *)
InitKinds == {"good", "badalloc", "negbal", "baddata"}
InitG(k) == phase = "InitActing" /\ k = "good"
InitOk(k)  == InitG(k) /\ Stage("InitSigning", S0)
InitErr(k) == ~InitG(k) /\ Same

UpdateG(c, a) == phase = "Acting" /\ a \in Part /\ ValidTrans(c)
UpdateOk(c, a)  == UpdateG(c, a) /\ Stage("Signing", c)
UpdateErr(c, a) == ~UpdateG(c, a) /\ Same

(* The unchecked forced update: only applied to machines with a current    *)
(* state (the quantifier of C01/C09).                                      *)
ForceUpdateOk(c) == current.st # NoSt /\ Stage("Signing", c)

(* Alphabet filter: candidates near the current version (keeps the graph  *)
(* dumpable; Update and ForceUpdate take every candidate).  The filters    *)
(* are conjuncts of the named actions because TLC labels an edge with the  *)
(* action name and parameters only if the disjuncts of Next are exactly    *)
(* \E-quantified named actions over constant sets.                         *)
Near(c) == IF current.st = NoSt THEN c.ver <= 1
           ELSE c.ver \in {current.st.ver, current.st.ver + 1}

(* CheckUpdate(state, actor, sig, sigIdx): read-only.  The offered         *)
(* signature is named by its class k relative to (c, i).                   *)
SigKinds == {"valid", "foreign", "twin", "garbage", "malformed"}
CheckSig(c, i, k) == CASE k = "valid"   -> ValidSig(i, c)
                       [] k = "foreign" -> ValidSig((i + 1) % N, c)
                       [] k = "twin"    -> ValidSig(i, Twin(c))
                       [] k = "garbage" -> Garbage
                       [] k = "malformed" -> Malformed
CheckUpdateG(c, a, k, i) == a \in Part /\ ValidTrans(c) /\ CheckSig(c, i, k) = ValidSig(i, c)
CheckUpdateOk(c, a, k, i)  == Near(c) /\ (a = N => k = "valid") /\ CheckUpdateG(c, a, k, i) /\ Same
CheckUpdateErr(c, a, k, i) == Near(c) /\ (a = N => k = "valid") /\ ~CheckUpdateG(c, a, k, i) /\ Same

SigG == phase \in SigningPhases
SigOk == /\ SigG
         /\ staging' = [staging EXCEPT !.sigs[Me] = ValidSig(Me, staging.st)]
         /\ UNCHANGED <<phase, current, adopted>>
SigErr == ~SigG /\ Same

(* AddSig(idx, sig): the offered signature is named by its signer j (<0: no  *)
(* signature)  and the state it is over, relative to the machine: the   *)
(* staged state, the current state (replay of an old signature), or the    *)
(* staged state's twin (same version, other balances: the replay of a      *)
(* signature over a discarded update).                                     *)
Rels == {"staging", "current", "twin"}
RelState(rel) == CASE rel = "staging" -> staging.st [] rel = "current" -> current.st
                   [] rel = "twin" -> Twin(staging.st)
SigOf(j, rel) == IF j \in NonSigs THEN NonSig(j) ELSE ValidSig(j, RelState(rel))
Offered(j, rel) == IF j \in NonSigs THEN rel = "staging" ELSE RelState(rel) \notin {NoSt, Twin(NoSt)}
AddSigG(i, g) == phase \in SigningPhases /\ staging.sigs[i] = NoSig /\ g = ValidSig(i, staging.st)
AddSigOk(i, j, rel)  == Offered(j, rel) /\ AddSigG(i, SigOf(j, rel))
                        /\ staging' = [staging EXCEPT !.sigs[i] = SigOf(j, rel)]
                        /\ UNCHANGED <<phase, current, adopted>>
AddSigErr(i, j, rel) == Offered(j, rel) /\ ~AddSigG(i, SigOf(j, rel)) /\ Same

EnableG(from, to) == /\ phase = from
                     /\ staging.st # NoSt
                     /\ (to = "Final") = staging.st.fin
                     /\ \A i \in Part : staging.sigs[i] # NoSig
Promote(to) == phase' = to /\ current' = staging /\ staging' = NoTx /\ adopted' = FALSE
EnableInitOk    == EnableG("InitSigning", "Funding") /\ Promote("Funding")
EnableInitErr   == ~EnableG("InitSigning", "Funding") /\ Same
EnableUpdateOk  == EnableG("Signing", "Acting") /\ Promote("Acting")
EnableUpdateErr == ~EnableG("Signing", "Acting") /\ Same
EnableFinalOk   == EnableG("Signing", "Final") /\ Promote("Final")
EnableFinalErr  == ~EnableG("Signing", "Final") /\ Same

DiscardUpdateOk  == phase = "Signing" /\ phase' = "Acting" /\ staging' = NoTx /\ UNCHANGED <<current, adopted>>
DiscardUpdateErr == phase # "Signing" /\ Same

AfterInit == { p \in Phases : PhaseIdx(p) >= 2 }
SetFundedOk       == phase = "Funding" /\ Goto("Acting")
SetFundedErr      == phase # "Funding" /\ Same
SetRegisteringOk  == phase \in AfterInit /\ Goto("Registering")
SetRegisteringErr == phase \notin AfterInit /\ Same
SetRegisteredOk   == phase \in AfterInit /\ Goto("Registered")
SetRegisteredErr  == phase \notin AfterInit /\ Same
CanWithdraw == {"Final","Registered","Progressed","Withdrawing"}
SetWithdrawingOk  == phase \in CanWithdraw /\ Goto("Withdrawing")
SetWithdrawingErr == phase \notin CanWithdraw /\ Same
SetWithdrawnOk    == phase = "Withdrawing" /\ Goto("Withdrawn")
SetWithdrawnErr   == phase # "Withdrawing" /\ Same

CanProgress == {"Registered","Progressing","Progressed"}
SetProgressingOk(c)  == Near(c) /\ phase \in CanProgress /\ Stage("Progressing", c)
SetProgressingErr(c) == Near(c) /\ phase \notin CanProgress /\ Same
(* SetProgressed adopts the state of an on-chain progression event; it has *)
(* no documented precondition.                                             *)
SetProgressedOk(c) == Near(c) /\ phase' = "Progressed" /\ current' = Tx(c) /\ staging' = NoTx /\ adopted' = TRUE

Next ==
  \/ \E k \in InitKinds : InitOk(k) \/ InitErr(k)
  \/ \E c \in Cand, a \in {0, N-1, N} : UpdateOk(c, a) \/ UpdateErr(c, a)
  \/ \E c \in Cand : ForceUpdateOk(c)
  \/ \E c \in Cand, a \in {0, N}, k \in SigKinds, i \in Part : CheckUpdateOk(c, a, k, i) \/ CheckUpdateErr(c, a, k, i)
  \/ SigOk \/ SigErr
  \/ \E i \in Part, j \in Part \cup NonSigs, rel \in Rels : AddSigOk(i, j, rel) \/ AddSigErr(i, j, rel)
  \/ EnableInitOk \/ EnableInitErr
  \/ EnableUpdateOk \/ EnableUpdateErr
  \/ EnableFinalOk \/ EnableFinalErr
  \/ DiscardUpdateOk \/ DiscardUpdateErr
  \/ SetFundedOk \/ SetFundedErr
  \/ SetRegisteringOk \/ SetRegisteringErr
  \/ SetRegisteredOk \/ SetRegisteredErr
  \/ SetWithdrawingOk \/ SetWithdrawingErr
  \/ SetWithdrawnOk \/ SetWithdrawnErr
  \/ \E c \in Plain : SetProgressingOk(c) \/ SetProgressingErr(c)
  \/ \E c \in Plain : SetProgressedOk(c)

Spec == Init /\ [][Next]_vars

(***************************************************************************)
(* C01                                                                     *)
(***************************************************************************)
CurrentSigned ==
  (current.st # NoSt /\ ~adopted) => \A i \in Part : current.sigs[i] = ValidSig(i, current.st)
StagingSigsSound ==
  \A i \in Part : staging.sigs[i] \in {NoSig, ValidSig(i, staging.st)}
(* The only unsigned current states are adopted ones.                      *)
UnsignedOnlyAdopted ==
  (current.st # NoSt /\ \E i \in Part : current.sigs[i] = NoSig) => adopted

(***************************************************************************)
(* C09 (design level): phases only move along the documented table, except *)
(* for the two documented unchecked operations.                            *)
(***************************************************************************)
Table == { <<"InitActing","InitSigning">>, <<"InitSigning","Funding">>, <<"Funding","Acting">>,
           <<"Acting","Signing">>, <<"Signing","Acting">>, <<"Signing","Final">>,
           <<"Registering","Registered">>, <<"Registered","Withdrawing">>,
           <<"Registered","Progressed">>, <<"Progressing","Progressed">>,
           <<"Progressed","Withdrawing">>, <<"Withdrawing","Withdrawn">>, <<"Final","Withdrawing">>,
           <<"Registered","Progressing">>, <<"Progressed","Progressing">> }
PhaseMoves ==
  [][ \/ phase' = phase
      \/ <<phase, phase'>> \in Table
      \/ (phase \in AfterInit /\ phase' \in {"Registering","Registered"})
      \/ phase' = "Progressed"                            \* SetProgressed: unchecked
      \/ (current.st # NoSt /\ phase' = "Signing")        \* ForceUpdate: unchecked
    ]_vars
(* Own signature appears only in signing phases and only over the staged state *)
OwnSigOnlyWhenSigning ==
  [][ (staging'.sigs[Me] # staging.sigs[Me] /\ staging'.sigs[Me] # NoSig)
        => (phase \in SigningPhases /\ staging'.sigs[Me] = ValidSig(Me, staging.st) /\ staging'.st = staging.st)
    ]_vars
=============================================================================
