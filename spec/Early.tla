-------------------------------- MODULE Early --------------------------------
(***************************************************************************)
(* C06 at the seam between opening and updating.  Client A opens up to two *)
(* channels with client B, possibly at the same time.  A's side of a       *)
(* channel is usable as soon as the ledger reports the funding complete;   *)
(* B's side may lag behind (its funding call returns later): an update A   *)
(* issues in that window reaches a B that does not know the channel yet.   *)
(* go-perun keeps such version-1 updates in a per-client cache that is     *)
(* enabled while any opening is in progress and replays them when an       *)
(* opening finishes (client/proposal.go enableVer1Cache / releaseVer1Cache,*)
(* client/update.go cacheVersion1Update).                                  *)
(*                                                                         *)
(* Burst granularity: StartOpen(c) = proposal, acceptance, version-0       *)
(* signatures, both deposits, A's ProposeChannel returns, B held inside    *)
(* its funding call; FinishOpen(c) = B's funding call returns, B registers *)
(* the channel and releases the cache; EarlyUpdate(c) = A's Update call    *)
(* and the delivery of its request; Answer(c, acc) = B's user answers and  *)
(* the response is delivered.                                              *)
(***************************************************************************)
EXTENDS Integers, FiniteSets, TLC

Chans == {1, 2}

VARIABLES st,      \* Chans -> "none" | "opening" (A has it, B is held) | "open"
          upd,     \* Chans -> "none" | "cached" | "handler" | "acc" | "rej"   (A's version-1 update on that channel)
          calls    \* Chans -> number of times B's update handler was invoked for it
vars == <<st, upd, calls>>

Init == st = [c \in Chans |-> "none"] /\ upd = [c \in Chans |-> "none"] /\ calls = [c \in Chans |-> 0]

Enabled == Cardinality({c \in Chans : st[c] = "opening"})     \* openings in progress at B = the cache's counter

StartOpen(c) == /\ st[c] = "none"
                /\ st' = [st EXCEPT ![c] = "opening"]
                /\ UNCHANGED <<upd, calls>>

(* A updates a channel B does not know yet: cached (the cache is enabled: this very opening is in progress) *)
EarlyUpdate(c) == /\ st[c] = "opening" /\ upd[c] = "none"
                  /\ upd' = [upd EXCEPT ![c] = "cached"]
                  /\ UNCHANGED <<st, calls>>

(* the same after B has finished opening: straight to the handler *)
Update(c) == /\ st[c] = "open" /\ upd[c] = "none"
             /\ upd' = [upd EXCEPT ![c] = "handler"]
             /\ calls' = [calls EXCEPT ![c] = @ + 1]
             /\ UNCHANGED st

(* B's opening of c finishes: the channel is registered, every cached update is dispatched again: those of registered *)
(* channels reach the handler, those of channels still opening go back into the cache                                  *)
FinishOpen(c) == /\ st[c] = "opening"
                 /\ st' = [st EXCEPT ![c] = "open"]
                 /\ LET go(d) == upd[d] = "cached" /\ st'[d] = "open"
                    IN /\ upd' = [d \in Chans |-> IF go(d) THEN "handler" ELSE upd[d]]
                       /\ calls' = [d \in Chans |-> IF go(d) THEN calls[d] + 1 ELSE calls[d]]

Answer(c, acc) == /\ upd[c] = "handler"
                  /\ upd' = [upd EXCEPT ![c] = IF acc THEN "acc" ELSE "rej"]
                  /\ UNCHANGED <<st, calls>>

Next == \E c \in Chans : StartOpen(c) \/ EarlyUpdate(c) \/ Update(c) \/ FinishOpen(c) \/ Answer(c, TRUE) \/ Answer(c, FALSE)
Spec == Init /\ [][Next]_vars

(* every update request reaches the user's handler at most once, and exactly once when its channel is open *)
AtMostOnce == \A c \in Chans : calls[c] <= 1
HandledWhenOpen == \A c \in Chans : (st[c] = "open" /\ upd[c] # "none") => calls[c] = 1
NotBeforeOpen == \A c \in Chans : calls[c] > 0 => st[c] = "open"
=============================================================================
