---------------------------- MODULE MachineTrace ----------------------------
(***************************************************************************)
(* Trace validation (R3) of channel state machines inside REAL CLIENTS     *)
(* against Machine.tla.  The log is recorded by a persister wrapper while  *)
(* the repository's own client scenarios run (payments, disputes,          *)
(* sub-channels, virtual channels with a hub, forced progression,          *)
(* persistence / restore): the client persists under the channel's mutex   *)
(* after every successful machine operation, so each persister call is a   *)
(* linearisation point.  One trace per (client, channel); a "reset" line   *)
(* starts a trace with the projected state at the first observation.       *)
(*                                                                         *)
(* Every line carries the kind of persister call and the projection of the *)
(* machine afterwards: phase, version / final flag of current and staged   *)
(* state, for every participant whether the current state carries its      *)
(* VALID signature (re-verified by the harness), whether the staged state  *)
(* carries a signature and whether that one is valid.  A line is explained *)
(* if some operation of Machine.tla that persists with this kind of call   *)
(* leads from the model's state to a state with the logged projection;     *)
(* candidate states are chosen by TLC (balances are not logged).  The      *)
(* invariants of C01 are evaluated in every state of the trace.            *)
(***************************************************************************)
EXTENDS Machine, Json, Sequences

CONSTANT LogFile
Log == ndJsonDeserialize(LogFile)

VARIABLE l
tvars == <<vars, l>>
Line == Log[l]
Is(ev) == l <= Len(Log) /\ Line.ev = ev

Pick(ver, fin) == [ver |-> ver, fin |-> fin, tag |-> "a", sum |-> 0, idok |-> TRUE]
TxOf(ver, fin, has, valid) ==
  IF ver < 0 THEN NoTx
  ELSE LET s == Pick(ver, fin) IN
       [st |-> s, sigs |-> [i \in Part |-> IF valid[i + 1] THEN ValidSig(i, s) ELSE IF has[i + 1] THEN Garbage ELSE NoSig]]

(* the projection of the model's state equals the logged one *)
Matches ==
  /\ phase' = Line.ph
  /\ current'.st.ver = Line.cv /\ (Line.cv >= 0 => current'.st.fin = Line.cf)
  /\ \A i \in Part : (current'.sigs[i] = ValidSig(i, current'.st)) = (Line.cv >= 0 /\ Line.csig[i + 1])
  /\ staging'.st.ver = Line.sv /\ (Line.sv >= 0 => staging'.st.fin = Line.sf)
  /\ \A i \in Part : /\ (staging'.sigs[i] # NoSig) = (Line.sv >= 0 /\ Line.shas[i + 1])
                     /\ (staging'.sigs[i] = ValidSig(i, staging'.st)) = (Line.sv >= 0 /\ Line.sval[i + 1])

TReset == /\ Is("reset")
          /\ phase' = Line.ph /\ adopted' = Line.adopted
          /\ current' = TxOf(Line.cv, Line.cf, Line.csig, Line.csig)
          /\ staging' = TxOf(Line.sv, Line.sf, Line.shas, Line.sval)
          /\ l' = l + 1

Step(A) == A /\ Matches /\ l' = l + 1

TStaged == Is("staged") /\ Step(\/ InitOk("good")
                                \/ \E c \in Cand : UpdateOk(c, 0) \/ ForceUpdateOk(c)
                                \/ \E c \in Plain : SetProgressingOk(c)
                                \/ DiscardUpdateOk)
(* Sig / AddSig; a repeated Sig returns the signature the machine already has *)
TSig == Is("sigadded") /\ LET i == Line.i IN
          Step(\/ AddSigOk(i, i, "staging")
               \/ (phase \in SigningPhases /\ staging.sigs[i] = ValidSig(i, staging.st) /\ UNCHANGED vars))
TEnabled == Is("enabled") /\ Step(\/ EnableInitOk \/ EnableUpdateOk \/ EnableFinalOk
                                  \/ \E c \in Plain : SetProgressedOk(c))
TPhase == Is("phase") /\ Step(\/ SetFundedOk \/ SetRegisteringOk \/ SetRegisteredOk \/ SetWithdrawingOk)
TRemoved == Is("removed") /\ phase = "Withdrawing" /\ l' = l + 1 /\ phase' = "Withdrawn" /\ UNCHANGED <<staging, current, adopted>>

(* a persister call that repeats what is stored already (the projection is the model's state) is no machine step *)
TRepeat == l <= Len(Log) /\ Line.ev \in {"staged", "sigadded", "enabled", "phase"} /\ Step(UNCHANGED vars)

TInit == Init /\ l = 1
TNext == TReset \/ TStaged \/ TSig \/ TEnabled \/ TPhase \/ TRemoved \/ TRepeat
TSpec == TInit /\ [][TNext]_tvars

Mark == TLCSet(1, IF TLCGet(1) < l THEN l ELSE TLCGet(1))
ASSUME TLCSet(1, 0)
Accepted == IF TLCGet(1) = Len(Log) + 1 THEN TRUE ELSE PrintT(<<"high-water mark", TLCGet(1)>>) /\ FALSE
=============================================================================
