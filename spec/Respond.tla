------------------------------ MODULE Respond ------------------------------
(***************************************************************************)
(* C12, design level: the control flow of handleUpdateReq for requests     *)
(* that are answered by the client itself -                                *)
(* handleVirtualChannelFundingProposal / ...SettlementProposal ->          *)
(* UpdateResponder.{Accept, Reject} - at the level of its synchronisation  *)
(* objects: the channel's machine mutex (held by the request goroutine     *)
(* until handleUpdateReq returns), the responder's `called` flag and its   *)
(* one-slot `done` channel (every Accept/Reject call sends on it in a      *)
(* deferred statement; nobody receives from it on this path).              *)
(*                                                                         *)
(* valid / matched are the results of the proposal's validation and of the *)
(* wait for the matching proposal (match or 10 s time-out), chosen by the  *)
(* remote party.  OneResponse = FALSE is the control flow without `return` *)
(* after a rejection: TLC then shows the lock-up (second response blocks   *)
(* on `done` while the mutex is held).                                     *)
(***************************************************************************)
EXTENDS Naturals, TLC
CONSTANT OneResponse
VARIABLES pc, mtx, done, called, valid, matched
vars == <<pc, mtx, done, called, valid, matched>>

Init == /\ pc = "start" /\ mtx = "free" /\ done = 0 /\ called = FALSE
        /\ valid \in BOOLEAN /\ matched \in BOOLEAN

Lock == pc = "start" /\ mtx = "free" /\ mtx' = "g" /\ pc' = "validate" /\ UNCHANGED <<done, called, valid, matched>>
(* body of Accept/Reject: called.TrySet(), then the deferred `done <- struct{}{}` on a channel of capacity 1 *)
Respond(from, to) == /\ pc = from /\ done < 1
                     /\ done' = done + 1 /\ called' = TRUE /\ pc' = to
                     /\ UNCHANGED <<mtx, valid, matched>>
Validate == /\ pc = "validate" /\ pc' = (IF valid THEN "await" ELSE "reject1")
            /\ UNCHANGED <<mtx, done, called, valid, matched>>
Reject1 == Respond("reject1", IF OneResponse THEN "unlock" ELSE "await")
Await == /\ pc = "await" /\ pc' = (IF matched THEN "accept" ELSE "reject2")
         /\ UNCHANGED <<mtx, done, called, valid, matched>>
Reject2 == Respond("reject2", IF OneResponse THEN "unlock" ELSE "accept")
Accept == Respond("accept", "unlock")
Unlock == pc = "unlock" /\ mtx' = "free" /\ pc' = "end" /\ UNCHANGED <<done, called, valid, matched>>
Next == Lock \/ Validate \/ Reject1 \/ Await \/ Reject2 \/ Accept \/ Unlock
Spec == Init /\ [][Next]_vars /\ WF_vars(Next)

(* whatever the remote party chooses, the channel is unlocked again *)
Released == <>(mtx = "free" /\ pc = "end")
AtMostOneResponse == done <= 1
=============================================================================
