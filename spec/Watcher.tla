------------------------------ MODULE Watcher ------------------------------
(***************************************************************************)
(* watcher/local.Watcher for one ledger channel P with sub-channels Subs   *)
(* on a single ledger (C05, watcher part of C04).                          *)
(*                                                                         *)
(* The rule of the property, stated directly:                              *)
(*  - on a registered event (c, v): if v is lower than the newest          *)
(*    transaction published for c and the watcher has not already          *)
(*    registered something newer for c (v >= regVer[c]), ONE Register call *)
(*    is made with the newest published transaction of P and, for every    *)
(*    sub-channel locked in it (in the order of the transaction), that     *)
(*    sub-channel's newest published transaction if it is watched, else    *)
(*    its archived last transaction; otherwise no call.  A successful call *)
(*    records the registered versions of P and the watched sub-channels.   *)
(*  - the event is relayed to the client iff no registered event with a    *)
(*    version >= v was relayed before for c (strictly increasing); if the  *)
(*    Register call fails the event is not relayed (the code returns;      *)
(*    "at most once" permits it).                                          *)
(*  - progressed and concluded events are always relayed.                  *)
(*  - StopWatching(s) archives s's newest transaction iff s is locked in   *)
(*    P's newest transaction; StopWatching(P) with watched sub-channels is *)
(*    refused, changes nothing and can be repeated.                        *)
(*                                                                         *)
(* `out` is the observable effect of the last step (Register call made,    *)
(* events relayed, result of the API call).                                *)
(***************************************************************************)
EXTENDS Integers, Sequences, FiniteSets, TLC

CONSTANTS Subs,      \* sub-channel names, e.g. {"S1","S2"}
          MaxVer,    \* published / registered versions 0..MaxVer
          Start,     \* the version of the transaction with which watching of a channel starts (the watcher has
                     \*   registered nothing then, whatever that version is)
          Hold,      \* TRUE: a Register call of the watcher may stay in progress (RegBegin .. RegEnd) while transactions are
                     \*   published and an event for ANOTHER channel of the family arrives, whose handler then waits for the
                     \*   family lock and must look at the newest transactions only once it has the lock
          Backlog    \* TRUE: only sub-channel starts and progressed / concluded events (the driver lets the client read
                     \*   its events only at the end: "always relayed" must hold however many are waiting)

P == "P"
Chans == {P} \cup Subs
LockedSeqs == { s \in UNION { [1..n -> Subs] : n \in 0..Cardinality(Subs) } :
                  \A i, j \in 1..Len(s) : i # j => s[i] # s[j] }

VARIABLES watched,   \* Chans -> BOOLEAN
          latest,    \* Chans -> newest published version
          locked,    \* sequence of sub-channels locked in P's newest transaction
          archived,  \* Subs -> archived version or -1
          regVer,    \* Chans -> version the watcher registered for the channel (0 initially)
          pubVer,    \* Chans -> highest relayed registered version or -1
          nev,       \* number of progressed / concluded events so far (Backlog mode: keeps the states of a behaviour apart)
          held,      \* the Register call in progress: [c, v, call] (event that caused it, its arguments) or NoHeld
          waiting,   \* events whose handlers wait for the family lock: sequence of [c, v] (at most one)
          out
vars == <<watched, latest, locked, archived, regVer, pubVer, nev, held, waiting, out>>
core == <<watched, latest, locked, archived, regVer, pubVer, held, waiting>>
NoHeld == [c |-> "none", v |-> -1, call |-> [p |-> -1, subs |-> <<>>]]
Free == held = NoHeld

NoOut == [reg |-> <<>>, relay |-> {}, res |-> "ok"]

Init == /\ watched = [c \in Chans |-> c = P]
        /\ latest = [c \in Chans |-> Start]
        /\ nev = 0 /\ held = NoHeld /\ waiting = <<>>
        /\ locked = <<>>
        /\ archived = [s \in Subs |-> -1]
        /\ regVer = [c \in Chans |-> 0]
        /\ pubVer = [c \in Chans |-> -1]
        /\ out = NoOut

Tick == TRUE
SubsWatched == { s \in Subs : watched[s] }
InLocked(s) == \E i \in 1..Len(locked) : locked[i] = s

(* StartWatchingSubChannel: a fresh channel object (versions reset); an    *)
(* archive entry of an earlier incarnation is kept.                        *)
StartSub(s) ==
  /\ Tick /\ Free
  /\ IF watched[P] /\ ~watched[s]
     THEN /\ watched' = [watched EXCEPT ![s] = TRUE]
          /\ latest' = [latest EXCEPT ![s] = Start]
          /\ regVer' = [regVer EXCEPT ![s] = 0]
          /\ pubVer' = [pubVer EXCEPT ![s] = -1]
          /\ out' = NoOut
          /\ UNCHANGED <<locked, archived, nev, held, waiting>>
     ELSE /\ out' = [NoOut EXCEPT !.res = "refused"]
          /\ UNCHANGED <<core, nev>>

(* A start that fails after the parent was found: the subscription to the adjudicator fails (the caller's context has *)
(* ended).  Nothing is watched in addition, nothing else changes - in particular P can still be de-registered.         *)
StartSubFails(s) ==
  /\ Tick /\ Free /\ ~Backlog /\ watched[P] /\ ~watched[s]
  /\ out' = [NoOut EXCEPT !.res = "refused"]
  /\ UNCHANGED <<core, nev>>

(* Publish the next transaction of c; for P it carries the (new) ordered   *)
(* list of locked sub-channels, each of which is watched or archived.      *)
PublishSub(s) ==
  /\ Tick /\ ~Backlog /\ watched[s] /\ latest[s] < MaxVer
  /\ latest' = [latest EXCEPT ![s] = @ + 1]
  /\ out' = NoOut
  /\ UNCHANGED <<watched, locked, archived, regVer, pubVer, nev, held, waiting>>
PublishParent(l) ==
  /\ Tick /\ ~Backlog /\ watched[P] /\ latest[P] < MaxVer
  /\ \A i \in 1..Len(l) : watched[l[i]] \/ archived[l[i]] >= 0
  /\ latest' = [latest EXCEPT ![P] = @ + 1]
  /\ locked' = l
  /\ out' = NoOut
  /\ UNCHANGED <<watched, archived, regVer, pubVer, nev, held, waiting>>

SubVer(s) == IF watched[s] THEN latest[s] ELSE archived[s]
RegCall == [p |-> latest[P], subs |-> [i \in 1..Len(locked) |-> <<locked[i], SubVer(locked[i])>>]]

(* registered event for watched channel c with version v; `ok`: whether a  *)
(* resulting Register call succeeds                                        *)
ChainRegistered(c, v, ok) ==
  /\ Tick /\ ~Backlog /\ Free /\ watched[c]
  /\ LET refute == v < latest[c] /\ v >= regVer[c]
         relay  == (~refute \/ ok) /\ (pubVer[c] < v)
     IN /\ regVer' = IF refute /\ ok
                     THEN [d \in Chans |-> IF d = P THEN latest[P]
                                           ELSE IF watched[d] /\ InLocked(d) THEN latest[d] ELSE regVer[d]]
                     ELSE regVer
        /\ pubVer' = IF relay THEN [pubVer EXCEPT ![c] = v] ELSE pubVer
        /\ out' = [reg |-> IF refute THEN <<RegCall>> ELSE <<>>,
                   relay |-> IF relay THEN {<<c, "registered", v>>} ELSE {},
                   res |-> "ok"]
  /\ UNCHANGED <<watched, latest, locked, archived, nev, held, waiting>>

ChainOther(c, kind, v) ==
  /\ Tick /\ Free /\ watched[c]
  /\ out' = [NoOut EXCEPT !.relay = {<<c, kind, v>>}]
  /\ nev' = IF Backlog THEN nev + 1 ELSE nev
  /\ UNCHANGED core

(***************************************************************************)
(* A Register call that stays in progress (Hold).  The handler of (c, v)   *)
(* has the family lock, has decided to refute and has called Register with *)
(* the newest transactions of that moment.  Meanwhile transactions are     *)
(* published (PublishSub / PublishParent stay enabled) and one event for   *)
(* another channel may arrive (EventWaits).  When the call returns         *)
(* (RegEnd), the registered versions are those of the CALL, the event is   *)
(* relayed, and the waiting handler runs - judging its event against the   *)
(* transactions that are newest NOW.                                       *)
(***************************************************************************)
RegBegin(c, v) ==
  /\ Tick /\ Hold /\ ~Backlog /\ Free /\ watched[c]
  /\ v < latest[c] /\ v >= regVer[c]
  /\ held' = [c |-> c, v |-> v, call |-> RegCall]
  /\ out' = [reg |-> <<RegCall>>, relay |-> {}, res |-> "ok"]
  /\ UNCHANGED <<watched, latest, locked, archived, regVer, pubVer, nev, waiting>>
EventWaits(c, v) ==
  /\ Tick /\ ~Free /\ watched[c] /\ c # held.c /\ waiting = <<>>
  /\ waiting' = << [c |-> c, v |-> v] >>
  /\ out' = NoOut
  /\ UNCHANGED <<watched, latest, locked, archived, regVer, pubVer, nev, held>>
CallVer(call, d) == IF d = P THEN call.p
                    ELSE LET I == { i \in 1..Len(call.subs) : call.subs[i][1] = d } IN
                         IF I = {} THEN -1 ELSE call.subs[CHOOSE i \in I : TRUE][2]
RegEnd(ok) ==
  /\ Tick /\ ~Free
  /\ LET hc == held.c
         hv == held.v
         rv1 == IF ok THEN [d \in Chans |-> IF d = P THEN held.call.p
                                            ELSE IF watched[d] /\ CallVer(held.call, d) >= 0 THEN CallVer(held.call, d) ELSE regVer[d]]
                ELSE regVer
         rel1 == ok /\ pubVer[hc] < hv
         pv1 == IF rel1 THEN [pubVer EXCEPT ![hc] = hv] ELSE pubVer
         r1 == IF rel1 THEN {<<hc, "registered", hv>>} ELSE {}
     IN IF waiting = <<>>
        THEN /\ regVer' = rv1 /\ pubVer' = pv1
             /\ out' = [reg |-> <<>>, relay |-> r1, res |-> "ok"]
        ELSE LET c2 == waiting[1].c
                 v2 == waiting[1].v
                 refute2 == v2 < latest[c2] /\ v2 >= rv1[c2]
                 rel2 == pv1[c2] < v2
             IN /\ regVer' = IF refute2
                             THEN [d \in Chans |-> IF d = P THEN latest[P]
                                                   ELSE IF watched[d] /\ InLocked(d) THEN latest[d] ELSE rv1[d]]
                             ELSE rv1
                /\ pubVer' = IF rel2 THEN [pv1 EXCEPT ![c2] = v2] ELSE pv1
                /\ out' = [reg |-> IF refute2 THEN <<RegCall>> ELSE <<>>,
                           relay |-> r1 \cup (IF rel2 THEN {<<c2, "registered", v2>>} ELSE {}),
                           res |-> "ok"]
  /\ held' = NoHeld /\ waiting' = <<>>
  /\ UNCHANGED <<watched, latest, locked, archived, nev>>

StopWatching(c) ==
  /\ Tick /\ ~Backlog /\ Free /\ nev' = nev
  /\ IF ~watched[c]
     THEN out' = [NoOut EXCEPT !.res = "unknown"] /\ UNCHANGED core
     ELSE IF c = P /\ SubsWatched # {}
     THEN out' = [NoOut EXCEPT !.res = "refused"] /\ UNCHANGED core      \* refused: nothing changes
     ELSE /\ watched' = [watched EXCEPT ![c] = FALSE]
          /\ archived' = IF c \in Subs /\ InLocked(c) THEN [archived EXCEPT ![c] = latest[c]] ELSE archived
          /\ out' = NoOut
          /\ UNCHANGED <<latest, locked, regVer, pubVer, held, waiting>>

Next ==
  \/ \E s \in Subs : StartSub(s) \/ StartSubFails(s)
  \/ \E s \in Subs : PublishSub(s)
  \/ \E l \in LockedSeqs : PublishParent(l)
  \/ \E c \in Chans, v \in 0..MaxVer, ok \in BOOLEAN : ChainRegistered(c, v, ok)
  \/ \E c \in Chans, kind \in {"progressed", "concluded"}, v \in {1} : ChainOther(c, kind, v)
  \/ \E c \in Chans : StopWatching(c)
  \/ \E c \in Chans, v \in 0..MaxVer : RegBegin(c, v) \/ EventWaits(c, v)
  \/ \E ok \in BOOLEAN : RegEnd(ok)

Spec == Init /\ [][Next]_vars

(***************************************************************************)
(* Properties of the design                                                *)
(***************************************************************************)
(* at most one Register call per chain event, only when something newer is known *)
OneCall == Len(out.reg) <= 1
(* a Register call carries the newest published versions at the time of the call *)
CallNewest == out.reg # <<>> => out.reg[1].p = latest[P]
(* relayed registered versions strictly increase per channel *)
RelayIncreasing ==
  [][\A c \in Chans, v \in 0..MaxVer : <<c, "registered", v>> \in out'.relay => (~watched[c] \/ pubVer[c] < v)]_vars
(* a refused stop changes nothing *)
RefusedStopKeeps == [][out'.res = "refused" => UNCHANGED core]_vars
View == core
=============================================================================
