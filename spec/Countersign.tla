---------------------------- MODULE Countersign ----------------------------
(***************************************************************************)
(* C07: a client adds its signature to an update received from the network *)
(* only if the update is acceptable.  Function-like module: an update      *)
(* crafted by a malicious channel peer that owns a valid signing key is    *)
(* abstracted to the features the property talks about; Acceptable is the  *)
(* independent predicate; Cases = for each situation of the honest client  *)
(* the honest update and every single-feature mutant, with the verdict.    *)
(*                                                                         *)
(* Situations: "plain"   - open channel 10/10, no locked funds;            *)
(*             "locked"  - parent 7/7 with one locked sub-allocation (a    *)
(*                         sub-channel 3/3 is open);                       *)
(*             "funding" - the client has accepted the peer's sub-channel  *)
(*                         proposal (3/3) and awaits the funding update of *)
(*                         the parent, which it accepts automatically.     *)
(***************************************************************************)
EXTENDS Integers, FiniteSets, TLC, Json

Sits == {"plain", "locked", "locked2", "funding", "settle", "settle2", "app"}
(* "settle2": as "settle", with a second sub-channel (3/3) still open and locked in the parent;                       *)
(* "app":     a plain channel 10/10 running the payment app (money flows only from the actor to the others)         *)
AutoSits == {"funding", "settle", "settle2"}

(* the honest message of a situation *)
Base(sit) ==
  [sit |-> sit,
   sig |-> "valid",        \* "valid" | "otherstate" | "otherkey" | "garbage"
   ver |-> 1,              \* version delta: 0, 1, 2
   id |-> TRUE,            \* carries the channel id
   sum |-> "kept",         \* "kept" | "plus" | "negative"
   actor |-> "sender",     \* "sender" | "me" | "oob"
   locked |-> "same",      \* ordinary update: "same" | "id" | "amount" | "imapentry" | "imaplen" | "added" | "removed"
   pay |-> IF sit \in AutoSits THEN "none" ELSE "tome",   \* ordinary: "tome" | "topeer" (sum-preserving, the peer takes)
   fund |-> IF sit \in AutoSits THEN "exact" ELSE "na"]
       \* funding update: "exact" | "onlyme" | "onlypeer" | "nobody" | "otherid" | "otheramount" | "withimap"
       \* settlement update: "exact" | "stale" (credits computed from the parent balances before the last parent
       \*   update: rolls it back) | "swapped" (credits the wrong parties) | "keeplocked" |
       \*   "skim" (settle2: the peer credits itself one unit more, taken out of the OTHER sub-channel's sub-allocation)

Generic(m) == m.sig = "valid" /\ m.ver = 1 /\ m.id /\ m.sum = "kept"
Acceptable(m) ==
  /\ Generic(m)
  /\ IF m.fund = "na"
     THEN /\ m.actor = "sender" /\ m.locked = "same"    \* ordinary update: actor = sender, locked sub-allocations untouched
          /\ (m.sit = "app" => m.pay = "tome")          \* valid successor under the payment app: only the actor pays
     ELSE /\ m.actor \in {"sender", "me"}            \* funding: any existing participant as actor (the property does not
          /\ m.fund = "exact" /\ m.locked = "same"   \*   name the actor); exactly that sub-allocation, everybody debited its own balance

Mutants(sit) ==
  LET b == Base(sit) IN
  { <<"none", b>> }
  \cup { <<"sig", [b EXCEPT !.sig = x]>> : x \in {"otherstate", "otherkey", "garbage"} }
  \cup { <<"ver", [b EXCEPT !.ver = x]>> : x \in {0, 2} }
  \cup { <<"id", [b EXCEPT !.id = FALSE]>> }
  \cup { <<"sum", [b EXCEPT !.sum = x]>> : x \in {"plus", "negative"} }
  \cup { <<"actor", [b EXCEPT !.actor = x]>> : x \in {"me", "oob"} }
  \cup (IF sit \notin AutoSits THEN { <<"pay", [b EXCEPT !.pay = "topeer"]>> } ELSE {})
  \* the peer names the honest client as actor of a payment from the honest client to the peer: fine for an app that only
  \* looks at the claimed actor
  \cup (IF sit \in {"plain", "app"} THEN { <<"actortheft", [b EXCEPT !.actor = "me", !.pay = "topeer"]>> } ELSE {})
  \cup (IF sit = "locked2" THEN { <<"locked", [b EXCEPT !.locked = x]>> : x \in {"dup", "swap", "removed"} } ELSE {})
  \cup (IF sit \in {"settle", "settle2"} THEN { <<"fund", [b EXCEPT !.fund = x]>> : x \in {"stale", "swapped", "keeplocked"} } ELSE {})
  \cup (IF sit = "settle2" THEN { <<"fund", [b EXCEPT !.fund = "skim"]>> } ELSE {})
  \cup (IF sit = "locked"
        THEN { <<"locked", [b EXCEPT !.locked = x]>> : x \in {"id", "amount", "imapentry", "imaplen", "added", "removed"} }
        ELSE {})
  \cup (IF sit = "plain" THEN { <<"locked", [b EXCEPT !.locked = "added"]>> } ELSE {})
  \cup (IF sit = "funding"
        THEN { <<"fund", [b EXCEPT !.fund = x]>> : x \in {"onlyme", "onlypeer", "nobody", "otherid", "otheramount", "withimap"} }
        ELSE {})

ASSUME \A s \in Sits : Acceptable(Base(s))
ASSUME \A s \in Sits : \A x \in Mutants(s) :
          (x[1] \notin {"none", "pay"} /\ ~(s \in AutoSits /\ x[1] = "actor" /\ x[2].actor = "me")) => ~Acceptable(x[2])
(* a sum-preserving payment to the peer is a valid update: whether to sign it is the user's decision *)
ASSUME Acceptable([Base("plain") EXCEPT !.pay = "topeer"])

Export == \A s \in Sits : \A x \in Mutants(s) :
  PrintT(ToJson([msg |-> x[2], mutant |-> x[1], expect |-> IF Acceptable(x[2]) THEN "may-sign" ELSE "must-not-sign"]))
ASSUME Export

VARIABLE dummy
Init == dummy = 0
Next == UNCHANGED dummy
Spec == Init /\ [][Next]_dummy
=============================================================================
