------------------------------- MODULE Update -------------------------------
(***************************************************************************)
(* The two-party channel update protocol of go-perun (C06), shaped after   *)
(* client/update.go (Channel.Update / updateGeneric, handleUpdateReq,      *)
(* UpdateResponder.Accept/Reject -> acceptUpdate/rejectUpdate), the        *)
(* channel mutex machMtx and the response cache of the channel relay, at   *)
(* BURST granularity: one action is one environment step - an API call, a  *)
(* delivery of one envelope, a handler answer, the cancellation (time-out) *)
(* of a call's context - plus what the client does until it blocks again.  *)
(* What a client does after acquiring the channel mutex (Proceed) is an    *)
(* internal step; internal steps have priority over environment steps,     *)
(* which is exactly what a driver observes between two quiescent points.   *)
(*                                                                         *)
(* State: a channel state is [ver, b] with b = A's balance (total T).      *)
(***************************************************************************)
EXTENDS Integers, Sequences, FiniteSets, TLC

CONSTANTS MaxVer,   \* highest version
          T,        \* total funds; A's balance ranges over 0..T
          MaxUpd    \* Update calls per party

P == {"A", "B"}
Peer(p) == IF p = "A" THEN "B" ELSE "A"
NoSt == [ver |-> -1, b |-> -1]
St(v, b) == [ver |-> v, b |-> b]
NoMsg == [t |-> "none", from |-> "none", st |-> NoSt, n |-> 0]
Msg(t, from, st, n) == [t |-> t, from |-> from, st |-> st, n |-> n]  \* t: "upd" | "acc" | "rej"; acc = signature of `from` over st
Calls == 1..MaxUpd
MaxSeq == 4 * MaxUpd + 2
(* all envelopes that can ever be in flight: a constant set, so that TLC labels Deliver steps with their envelope *)
AllMsgs == { Msg(t, f, St(v, b), n) : t \in {"upd", "acc", "rej"}, f \in P, v \in 1..(MaxVer + 1), b \in 0..T, n \in 1..MaxSeq }
NoCall == [pc |-> "none", b |-> -1, st |-> NoSt, res |-> "none"]

VARIABLES cur,     \* P -> current state
          ph,      \* P -> machine phase: "Acting" | "Signing"
          stg,     \* P -> staged state
          lockq,   \* P -> queue of the channel mutex: head = holder; <<"upd", id>> | <<"req", msg>>
          calls,   \* P -> Calls -> [pc, b, st, res]; pc: none | wantLock | wait | done
          hreq,    \* P -> update request handed to the user's handler (NoMsg if none)
          rcache,  \* P -> sequence of responses cached by the channel relay
          net,     \* set of envelopes in flight
          seq,     \* message counter (identical envelopes are distinct)
          tmo,     \* a request timed out
          full     \* set of fully signed states (enabled at some party)
vars == <<cur, ph, stg, lockq, calls, hreq, rcache, net, seq, tmo, full>>

Init ==
  /\ cur = [p \in P |-> St(0, T \div 2)]
  /\ ph = [p \in P |-> "Acting"]
  /\ stg = [p \in P |-> NoSt]
  /\ lockq = [p \in P |-> <<>>]
  /\ calls = [p \in P |-> [i \in Calls |-> NoCall]]
  /\ hreq = [p \in P |-> NoMsg]
  /\ rcache = [p \in P |-> <<>>]
  /\ net = {} /\ seq = 1 /\ tmo = FALSE /\ full = {}

Holder(p) == IF lockq[p] = <<>> THEN <<"none", 0>> ELSE Head(lockq[p])
(* the head waiter got the mutex and has not started yet *)
ProceedEnabled(p) ==
  /\ lockq[p] # <<>>
  /\ \/ Head(lockq[p])[1] = "upd" /\ calls[p][Head(lockq[p])[2]].pc = "wantLock"
     \/ Head(lockq[p])[1] = "req" /\ hreq[p] = NoMsg
Busy == \E p \in P : ProceedEnabled(p)

(* first cached response for version v, 0 if none *)
FirstCached(p, v) ==
  LET idx == { i \in 1..Len(rcache[p]) : rcache[p][i].st.ver = v }
  IN IF idx = {} THEN 0 ELSE CHOOSE i \in idx : \A j \in idx : i <= j
Without(s, i) == [j \in 1..(Len(s) - 1) |-> IF j < i THEN s[j] ELSE s[j + 1]]

(* outcome of a response m for the waiting call of p whose staged state is s *)
Outcome(m, s) == IF m.t = "rej" THEN "rejected" ELSE IF m.st = s THEN "ok" ELSE "error"

(***************************************************************************)
(* Environment steps                                                       *)
(***************************************************************************)
StartUpdate(p, i, b) ==
  /\ ~Busy
  /\ calls[p][i].pc = "none" /\ (IF i = 1 THEN TRUE ELSE calls[p][i - 1].pc # "none")
  /\ calls' = [calls EXCEPT ![p][i] = [pc |-> "wantLock", b |-> b, st |-> NoSt, res |-> "none"]]
  /\ lockq' = [lockq EXCEPT ![p] = Append(@, <<"upd", i>>)]
  /\ UNCHANGED <<cur, ph, stg, hreq, rcache, net, seq, tmo, full>>

(* an update request reaches p: a goroutine queues on the channel mutex *)
DeliverUpd(m) ==
  /\ ~Busy /\ m \in net /\ m.t = "upd"
  /\ LET p == Peer(m.from) IN
       /\ net' = net \ {m}
       /\ lockq' = [lockq EXCEPT ![p] = Append(@, <<"req", m>>)]
  /\ UNCHANGED <<cur, ph, stg, calls, hreq, rcache, seq, tmo, full>>

(* a response reaches p: handed to the waiting Update call of that version, else cached *)
WaitingCall(p, v) == { i \in Calls : calls[p][i].pc = "wait" /\ calls[p][i].st.ver = v }
Finish(p, i, res) ==
  /\ calls' = [calls EXCEPT ![p][i].pc = "done", ![p][i].res = res]
  /\ lockq' = [lockq EXCEPT ![p] = Tail(@)]
  /\ IF res = "ok"
     THEN cur' = [cur EXCEPT ![p] = stg[p]] /\ full' = full \cup {stg[p]}
     ELSE UNCHANGED <<cur, full>>
  /\ stg' = [stg EXCEPT ![p] = NoSt]
  /\ ph' = [ph EXCEPT ![p] = "Acting"]
DeliverRes(m) ==
  /\ ~Busy /\ m \in net /\ m.t \in {"acc", "rej"}
  /\ LET p == Peer(m.from) IN
       /\ net' = net \ {m}
       /\ IF WaitingCall(p, m.st.ver) # {}
          THEN LET i == CHOOSE i \in WaitingCall(p, m.st.ver) : TRUE IN
               /\ Finish(p, i, Outcome(m, stg[p]))
               /\ UNCHANGED <<hreq, rcache, seq, tmo>>
          ELSE /\ rcache' = [rcache EXCEPT ![p] = Append(@, m)]
               /\ UNCHANGED <<cur, ph, stg, lockq, calls, hreq, seq, tmo, full>>

(* A response reaches p's waiting Update call and the context of that call ends in the instant in which the call has   *)
(* taken the response from its receiver (before Update returns).  The response was received, so no request timed out:  *)
(* the call completes exactly as without the cancellation - a rejection is reported and the staged update discarded    *)
(* (updateGeneric -> checkUpdateError -> DiscardUpdate), an acceptance is added and the update enabled (AddSig,        *)
(* enableNotifyUpdate: the machine does not look at the context); tmo stays as it is.                                  *)
DeliverResLate(m) ==
  /\ m.t \in {"acc", "rej"} /\ m \in net /\ WaitingCall(Peer(m.from), m.st.ver) # {}
  /\ DeliverRes(m)

(* the user's handler answers *)
Answer(p, accept) ==
  /\ ~Busy /\ hreq[p] # NoMsg
  /\ LET m == hreq[p] IN
       /\ hreq' = [hreq EXCEPT ![p] = NoMsg]
       /\ lockq' = [lockq EXCEPT ![p] = Tail(@)]
       /\ seq' = seq + 1
       /\ IF accept
          THEN /\ cur' = [cur EXCEPT ![p] = m.st] /\ full' = full \cup {m.st}
               /\ net' = net \cup {Msg("acc", p, m.st, seq)}
          ELSE /\ net' = net \cup {Msg("rej", p, m.st, seq)}
               /\ UNCHANGED <<cur, full>>
  /\ UNCHANGED <<ph, stg, calls, rcache, tmo>>

(* the context of Update call i of p is cancelled / expires *)
Cancel(p, i) ==
  /\ ~Busy
  /\ \/ /\ calls[p][i].pc = "wantLock"       \* still waiting for the mutex: leaves the queue
        /\ calls' = [calls EXCEPT ![p][i].pc = "done", ![p][i].res = "lockerr"]
        /\ lockq' = [lockq EXCEPT ![p] = SelectSeq(@, LAMBDA w : w # <<"upd", i>>)]
        /\ UNCHANGED <<cur, ph, stg, full, tmo>>
     \/ /\ calls[p][i].pc = "wait"           \* waiting for the response: request timed out, update discarded
        /\ Finish(p, i, "timeout")
        /\ tmo' = TRUE
  /\ UNCHANGED <<hreq, rcache, net, seq>>

(***************************************************************************)
(* Internal step: the head waiter of p's channel mutex runs                *)
(***************************************************************************)
Proceed(p) ==
  /\ ProceedEnabled(p)
  /\ LET h == Head(lockq[p]) IN
     IF h[1] = "upd"
     THEN LET i == h[2]
              s == St(cur[p].ver + 1, calls[p][i].b)
              k == FirstCached(p, s.ver)
          IN IF ph[p] # "Acting"
             THEN /\ calls' = [calls EXCEPT ![p][i].pc = "done", ![p][i].res = "error", ![p][i].st = s]
                  /\ lockq' = [lockq EXCEPT ![p] = Tail(@)]
                  /\ UNCHANGED <<cur, ph, stg, hreq, rcache, net, seq, tmo, full>>
             ELSE /\ net' = net \cup {Msg("upd", p, s, seq)} /\ seq' = seq + 1
                  /\ IF k = 0
                     THEN /\ stg' = [stg EXCEPT ![p] = s] /\ ph' = [ph EXCEPT ![p] = "Signing"]
                          /\ calls' = [calls EXCEPT ![p][i].pc = "wait", ![p][i].st = s]
                          /\ UNCHANGED <<cur, lockq, rcache, full>>
                     ELSE \* a cached response for this version is handed over at once
                          LET res == Outcome(rcache[p][k], s) IN
                          /\ calls' = [calls EXCEPT ![p][i].pc = "done", ![p][i].res = res, ![p][i].st = s]
                          /\ lockq' = [lockq EXCEPT ![p] = Tail(@)]
                          /\ rcache' = [rcache EXCEPT ![p] = Without(@, k)]
                          /\ IF res = "ok" THEN cur' = [cur EXCEPT ![p] = s] /\ full' = full \cup {s}
                             ELSE UNCHANGED <<cur, full>>
                          /\ UNCHANGED <<stg, ph>>
                  /\ UNCHANGED <<hreq, tmo>>
     ELSE LET m == h[2] IN      \* handleUpdateReq: CheckUpdate, then the user's handler
          IF m.st.ver = cur[p].ver + 1
          THEN /\ hreq' = [hreq EXCEPT ![p] = m]
               /\ UNCHANGED <<cur, ph, stg, lockq, calls, rcache, net, seq, tmo, full>>
          ELSE /\ lockq' = [lockq EXCEPT ![p] = Tail(@)]       \* invalid: dropped without an answer
               /\ UNCHANGED <<cur, ph, stg, calls, hreq, rcache, net, seq, tmo, full>>

Next ==
  \/ \E p \in P, i \in Calls, b \in 0..T : StartUpdate(p, i, b)
  \/ \E m \in AllMsgs : DeliverUpd(m) \/ DeliverRes(m) \/ DeliverResLate(m)
  \/ \E p \in P, a \in BOOLEAN : Answer(p, a)
  \/ \E p \in P, i \in Calls : Cancel(p, i)
  \/ \E p \in P : Proceed(p)

Spec == Init /\ [][Next]_vars

(***************************************************************************)
(* C06                                                                     *)
(***************************************************************************)
VersionsClose == ~tmo => (cur["A"].ver - cur["B"].ver) \in {-1, 0, 1}
UniquePerVersion == ~tmo => \A s, t \in full : s.ver = t.ver => s = t
(* success: the proposer's current state is the proposed one *)
OkMeansCurrent ==
  [][\A p \in P, i \in Calls : (calls[p][i].pc # "done" /\ calls'[p][i].pc = "done" /\ calls'[p][i].res = "ok")
        => cur'[p] = calls'[p][i].st]_vars
(* rejection: the proposer's state is unchanged and it is ready for further updates *)
RejectUnchanged ==
  [][\A p \in P, i \in Calls : (calls[p][i].pc # "done" /\ calls'[p][i].pc = "done" /\ calls'[p][i].res = "rejected")
        => (cur'[p] = cur[p] /\ ph'[p] = "Acting")]_vars
Quiescent == /\ net = {} /\ ~Busy
             /\ \A p \in P : hreq[p] = NoMsg /\ lockq[p] = <<>>
             /\ \A p \in P, i \in Calls : calls[p][i].pc \in {"none", "done"}
(* at rest without time-out both hold the same state: the peer's state became the successful one *)
AgreeAtRest == (Quiescent /\ ~tmo) => cur["A"] = cur["B"]
(* a successfully proposed state is (or was) also the peer's current state once everything is delivered *)
OkReachesPeer == (Quiescent /\ ~tmo) =>
   \A p \in P, i \in Calls : calls[p][i].res = "ok" => calls[p][i].st \in full
PhaseOK == \A p \in P : (ph[p] = "Signing") = (stg[p] # NoSt)
VerBound == \A p \in P : cur[p].ver <= MaxVer /\ stg[p].ver <= MaxVer
=============================================================================
