------------------------------- MODULE Clone -------------------------------
(***************************************************************************)
(* C19: a clone is equal to its original and shares no mutable memory with *)
(* it.  A value is abstracted to its mutable leaves (a balance, a locked   *)
(* amount, an index-map entry, a signature byte, the nonce, a participant  *)
(* address, a version, ...), named by the strings in Leaves; the value of  *)
(* a leaf is the number of times it has been modified.  Each leaf can be   *)
(* modified in two ways, as in Go: "inplace" (through the pointer / slice  *)
(* element the value already holds) and "slot" (storing a new object in    *)
(* the containing slot) - a shallow copy is caught by the first, a shared  *)
(* backing array by the second.                                            *)
(*                                                                         *)
(* Deep-copy semantics: MakeClone copies every leaf; afterwards a          *)
(* modification of either side changes exactly that leaf on that side.     *)
(* TLC enumerates all behaviours with at most MaxMut modifications (before *)
(* and after cloning, on both sides); the Go driver executes each on real  *)
(* values of every cloneable type and compares every leaf of both sides    *)
(* with this model after every step.                                       *)
(***************************************************************************)
EXTENDS Integers, FiniteSets, TLC

CONSTANTS Leaves,   \* set of leaf names of the value under test
          MaxMut    \* bound on the number of modifications

Hows == {"inplace", "slot"}
VARIABLES orig, copy, cloned, snap, nmut
vars == <<orig, copy, cloned, snap, nmut>>

Init == /\ orig = [l \in Leaves |-> 0]
        /\ copy = [l \in Leaves |-> 0]
        /\ snap = [l \in Leaves |-> 0]
        /\ cloned = FALSE
        /\ nmut = 0

MutOrig(l, how) == /\ nmut < MaxMut
                   /\ orig' = [orig EXCEPT ![l] = @ + 1]
                   /\ nmut' = nmut + 1
                   /\ UNCHANGED <<copy, cloned, snap>>
MakeClone == /\ ~cloned
             /\ copy' = orig /\ snap' = orig /\ cloned' = TRUE
             /\ UNCHANGED <<orig, nmut>>
MutCopy(l, how) == /\ cloned /\ nmut < MaxMut
                   /\ copy' = [copy EXCEPT ![l] = @ + 1]
                   /\ nmut' = nmut + 1
                   /\ UNCHANGED <<orig, cloned, snap>>

Next == \/ \E l \in Leaves, how \in Hows : MutOrig(l, how)
        \/ MakeClone
        \/ \E l \in Leaves, how \in Hows : MutCopy(l, how)

Spec == Init /\ [][Next]_vars

(* equal right after cloning *)
EqualAtClone == [][MakeClone => copy' = orig']_vars
(* no modification of one side is observable through the other *)
Independent ==
  [][ /\ (orig' # orig /\ cloned) => copy' = copy
      /\ (copy' # copy /\ cloned) => orig' = orig ]_vars
(* every leaf of each side equals its value at clone time plus its own modifications only *)
OnlyOwnChanges == cloned => \A l \in Leaves : copy[l] >= snap[l] /\ orig[l] >= snap[l]
=============================================================================
