------------------------------ MODULE Receiver ------------------------------
(***************************************************************************)
(* wire.Receiver, the consumer that go-perun itself subscribes to a relay  *)
(* (C18: what the relay hands over must also come out).  One execution     *)
(* context calls Next, any number call Put.                                *)
(*                                                                         *)
(* Put(e) queues e (the buffer of 16 is never filled here).  Next(ctx)     *)
(* with a context that is already done, or on a closed receiver, returns   *)
(* an error and takes nothing; otherwise it returns the oldest queued      *)
(* envelope, waiting for one if there is none.  While it waits, the        *)
(* context may end, the receiver may be closed, an envelope may be put -   *)
(* or the context ends and an envelope is put at the same instant: then    *)
(* the call may return either, but an envelope it does not return stays    *)
(* queued for the next call.  Nothing that was put into an open receiver   *)
(* is lost or returned twice, and envelopes come out in the order they     *)
(* were put (NoLoss).                                                      *)
(***************************************************************************)
EXTENDS Integers, Sequences, TLC

CONSTANT MaxPut    \* number of envelopes

VARIABLES q,        \* queued envelopes
          got,      \* envelopes returned by Next, in order
          nput,     \* envelopes put so far (they are numbered 1, 2, ...)
          closed,
          waiting,  \* a Next call with a live context is blocked
          last      \* result of the last completed Next: 0 none yet, > 0 envelope, -1 context error, -2 closed error
vars == <<q, got, nput, closed, waiting, last>>

Init == q = <<>> /\ got = <<>> /\ nput = 0 /\ closed = FALSE /\ waiting = FALSE /\ last = 0

CanPut == nput < MaxPut /\ ~closed
Return(e) == got' = Append(got, e) /\ last' = e

(* Put while nobody waits *)
Put == /\ CanPut /\ ~waiting
       /\ q' = Append(q, nput + 1) /\ nput' = nput + 1
       /\ UNCHANGED <<got, closed, waiting, last>>
(* Put while a call waits (the queue is empty then): the call returns the envelope *)
PutToWaiter == /\ CanPut /\ waiting
               /\ nput' = nput + 1 /\ Return(nput + 1) /\ waiting' = FALSE
               /\ UNCHANGED <<q, closed>>
(* Next with a live context *)
NextGet == /\ ~waiting /\ ~closed /\ q # <<>>
           /\ Return(Head(q)) /\ q' = Tail(q)
           /\ UNCHANGED <<nput, closed, waiting>>
NextWait == /\ ~waiting /\ ~closed /\ q = <<>>
            /\ waiting' = TRUE /\ UNCHANGED <<q, got, nput, closed, last>>
(* Next with a context that is done already: an error, nothing is taken *)
NextDone == /\ ~waiting /\ ~closed
            /\ last' = -1 /\ UNCHANGED <<q, got, nput, closed, waiting>>
NextClosed == /\ ~waiting /\ closed
              /\ last' = -2 /\ UNCHANGED <<q, got, nput, closed, waiting>>
(* while a call waits *)
CancelWaiter == /\ waiting /\ waiting' = FALSE /\ last' = -1
                /\ UNCHANGED <<q, got, nput, closed>>
CloseWaiter == /\ waiting /\ waiting' = FALSE /\ closed' = TRUE /\ last' = -2
               /\ UNCHANGED <<q, got, nput>>
(* the context ends and an envelope arrives at the same instant: the call returns one of the two; an envelope that is *)
(* not returned is still there *)
CancelAndPutGot == /\ CanPut /\ waiting
                   /\ nput' = nput + 1 /\ Return(nput + 1) /\ waiting' = FALSE
                   /\ UNCHANGED <<q, closed>>
CancelAndPutErr == /\ CanPut /\ waiting
                   /\ nput' = nput + 1 /\ q' = Append(q, nput + 1) /\ waiting' = FALSE /\ last' = -1
                   /\ UNCHANGED <<got, closed>>
Close == /\ ~waiting /\ ~closed /\ closed' = TRUE
         /\ UNCHANGED <<q, got, nput, waiting, last>>

Next == Put \/ PutToWaiter \/ NextGet \/ NextWait \/ NextDone \/ NextClosed \/ CancelWaiter \/ CloseWaiter
        \/ CancelAndPutGot \/ CancelAndPutErr \/ Close
Spec == Init /\ [][Next]_vars

(* everything put into the open receiver is queued or was returned, once, in order *)
NoLoss == got \o q = [i \in 1..nput |-> i]
WaitsOnlyWhenEmpty == waiting => (q = <<>> /\ ~closed)
=============================================================================
